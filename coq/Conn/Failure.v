(** Model of how a failure propagates through the three levels of a client
    (connection engine, session engine, the links of the session) and reaches the
    operations that the application has in progress or issues afterwards:
    connection/engine.rs [event_loop] (exit paths, [on_error], the stop-reason
    cell written before [control.close()] / [outgoing_session_frames.close()]),
    connection/mod.rs [on_incoming_close], [ConnectionHandle::close];
    session/engine.rs [event_loop] (exit, [set_session_stop_reason],
    [fail_unsettled_deliveries]), [on_incoming] (End), [on_control] (End),
    [begin_client_session]; session/mod.rs [on_incoming_detach], [allocate_link],
    [SessionHandle::end]; link/sender_link.rs [get_delivery_tag_or_detached],
    [send_payload_with_transfer]; link/delivery.rs [DeliveryFut::poll];
    link/receiver.rs [recv_inner]; link/receiver_link.rs [dispose];
    link/shared_inner.rs [detach_with_error], [close_with_error],
    [reattach_and_then_close], [recv_remote_detach]; link/mod.rs [send_detach],
    [on_incoming_detach]; session/error.rs [connection_stop_reason_or_closed].

    One connection, one session, one sending and one receiving link; four
    application handles, each with at most one operation in progress.  An event is
    a peer frame being processed (the frames that terminate an entity are the same
    events whether they answer the client or not), the transport breaking, an
    application call, or the session engine noticing that the connection engine is
    gone ([EProp], the only propagation step: links have no engine of their own,
    their operations are polled by the application tasks and complete in the step
    that drops the session's relay).  Outputs are the completions of calls with an
    abstract result: ok, or an error with the level it names (link / session /
    connection / none) and whether it carries the peer's error condition.

    Abstracted away: what is written to the wire, delivery contents and numbers
    (two outcome slots: the blocking send and one batchable future), frame sizes,
    time.  The order in which the session engine's [select!] takes a link frame and
    a control message that are ready together is fixed as in the harness (the
    re-attach of a [detach()] that finds a closing detach already queued fails on
    the duplicated link name).  Peer frames that the protocol forbids in the
    current state are ignored (that is C15's ground).  The model follows the code
    also where it deviates from the property; the deviations are named in
    Props/C14.v. *)
From Coq Require Export List Bool NArith.
Export ListNotations.
Open Scope N_scope.

(** * Abstract results *)
Inductive scope := ScLink | ScSess | ScConn | ScNone.
Inductive res := ROk | RErr (sc : scope) (remote : bool).

(** [ConnectionStopReason] / [SessionStopReason] (the contents of the write-once cells),
    and the outcomes the engines hand to their handles *)
Inductive creason := CClosed | CRemoteClosed (e : bool).
Inductive sreason := SEnded | SRemoteEnded (e : bool) | SConnStopped (r : creason).
Inductive cresult := COutOk | COutTransport | COutRemoteClosed (e : bool).
Inductive sresult := SOutOk | SOutRemoteEnded (e : bool).

Definition creason_remote (r : creason) : bool := match r with CClosed => false | CRemoteClosed e => e end.
Definition res_of_sreason (r : sreason) : res :=
  match r with
  | SEnded => RErr ScSess false
  | SRemoteEnded e => RErr ScSess e
  | SConnStopped c => RErr ScConn (creason_remote c)
  end.
Definition res_of_cresult (o : cresult) : res :=
  match o with COutOk => ROk | COutTransport => RErr ScConn false | COutRemoteClosed e => RErr ScConn e end.
Definition res_of_sresult (o : sresult) : res :=
  match o with SOutOk => ROk | SOutRemoteEnded e => RErr ScSess e end.
(** what a link operation reports when its channel to or from the session is closed: the
    session's stop reason, or an error that names no level when the cell is empty *)
Definition cell_err (c : option sreason) : res :=
  match c with Some r => res_of_sreason r | None => RErr ScNone false end.

(** * Links *)
Inductive side := Snd | Rcv.
Inductive item := IDelivery | IDetach (closed err : bool).       (* the channel session -> link *)
Inductive lstate := LNone | LAttaching | LAttached | LDetachSent | LCloseSent | LDetached | LClosed | LGone.
Inductive dstate := DNone | DUnsettled | DOk | DFailed.          (* an outcome slot: the oneshot of an unsettled delivery *)
Inductive fin := FinClose | FinDetach.                          (* who runs [reattach_and_then_close] *)
Inductive oper :=
| OAttach                        (* attach written (the call is the session handle's) *)
| OSendCredit (batch : bool)     (* send(): waiting for credit or for a detach *)
| OSendOutcome                   (* send(): transfer handed over, waiting for the outcome *)
| OOutcome                       (* the future of a batchable send is awaited *)
| ORecv
| ODetachWait | OCloseWait       (* detach() / close(): our detach written, waiting for the peer's *)
| OReattach (f : fin)            (* re-attach written, waiting for the peer's attach *)
| OReclose (f : fin).            (* closing detach written after the re-attach *)

Record link := mkLink {
  lst : lstate;
  mapped : bool;                 (* the session routes the peer's frames to the link (link_by_input_handle) *)
  relay : bool;                  (* the channel session -> link is open *)
  inbox : list item;
  lop : option oper;
  credit : N;
  dsend : dstate;                (* the delivery of the blocking send *)
  dfut : dstate                  (* the delivery of the batchable send whose future the application keeps *)
}.
Definition link0 : link := mkLink LNone false false [] None 0 DNone DNone.

Definition set_lst (v : lstate) (l : link) := mkLink v (mapped l) (relay l) (inbox l) (lop l) (credit l) (dsend l) (dfut l).
Definition set_route (m r : bool) (l : link) := mkLink (lst l) m r (inbox l) (lop l) (credit l) (dsend l) (dfut l).
Definition set_inbox (v : list item) (l : link) := mkLink (lst l) (mapped l) (relay l) v (lop l) (credit l) (dsend l) (dfut l).
Definition set_op (v : option oper) (l : link) := mkLink (lst l) (mapped l) (relay l) (inbox l) v (credit l) (dsend l) (dfut l).
Definition set_credit (v : N) (l : link) := mkLink (lst l) (mapped l) (relay l) (inbox l) (lop l) v (dsend l) (dfut l).
Definition set_dsend (v : dstate) (l : link) := mkLink (lst l) (mapped l) (relay l) (inbox l) (lop l) (credit l) v (dfut l).
Definition set_dfut (v : dstate) (l : link) := mkLink (lst l) (mapped l) (relay l) (inbox l) (lop l) (credit l) (dsend l) v.

(** what a link sees of its session: whether the session takes link frames and allocates
    handles (state Mapped), and the session's stop-reason cell *)
Record sctx := mkCtx { smap : bool; scl : option sreason }.

Definition fail_slot (d : dstate) : dstate := match d with DUnsettled => DFailed | _ => d end.
Definition fail_slots (l : link) : link := set_dsend (fail_slot (dsend l)) (set_dfut (fail_slot (dfut l)) l).
Definition gone (l : link) : link := set_op None (set_lst LGone l).

(** [recv_remote_detach]: frames other than a detach are skipped *)
Fixpoint drop_to_detach (q : list item) : option (bool * bool * list item) :=
  match q with
  | [] => None
  | IDetach c e :: r => Some (c, e, r)
  | IDelivery :: r => drop_to_detach r
  end.

(** send() / recv() find the peer's detach: it is answered in kind first (the state changes
    whether the write succeeds or not), then reported *)
Definition see_detach (x : sctx) (c e : bool) (r : list item) (l : link) : link * list res * bool :=
  let l1 := set_op None (set_inbox r l) in
  match lst l with
  | LAttached =>
      if smap x then (set_lst (if c then LClosed else LDetached) l1, [RErr ScLink e], true)
      else (set_lst (if c then LCloseSent else LDetachSent) l1, [cell_err (scl x)], false)
  | _ => (l1, [RErr ScNone false], false)
  end.

(** [reattach_and_then_close]: a new channel is registered with the session and the attach is
    written; every failure on the way is reported as DetachedByRemote *)
Definition reattach (x : sctx) (f : fin) (l : link) : link * list res * bool :=
  if smap x then (set_op (Some (OReattach f)) (set_route false true (set_inbox [] (set_lst LAttaching l))), [], true)
  else (gone l, [RErr ScLink false], false).

Definition poll_reclose (x : sctx) (f : fin) (l : link) : link * list res * bool :=
  match drop_to_detach (inbox l) with
  | Some (c, e, r) =>
      (gone (set_inbox r l),
       [if c then (if e then RErr ScLink true else match f with FinClose => ROk | FinDetach => RErr ScLink false end)
        else RErr ScNone false], false)
  | None => if relay l then (set_inbox [] l, [], false) else (gone (set_inbox [] l), [cell_err (scl x)], false)
  end.

(** An operation in progress is polled: it completes, moves on, or stays blocked.  The third
    component says whether a frame was handed to the session. *)
Definition poll (x : sctx) (l : link) : link * list res * bool :=
  match lop l with
  | None => (l, [], false)
  | Some OAttach =>
      match inbox l with
      | _ :: r => (gone (set_inbox r l), [RErr ScNone false], false)
      | [] => if relay l then (l, [], false) else (gone l, [cell_err (scl x)], false)
      end
  | Some (OSendCredit b) =>
      match inbox l with
      | IDetach c e :: r => see_detach x c e r l
      | IDelivery :: r => (set_op None (set_inbox r l), [RErr ScNone false], false)
      | [] =>
          if relay l then
            if 0 <? credit l then
              if smap x then
                let l1 := set_credit (credit l - 1) l in
                if b then (set_op None (set_dfut DUnsettled l1), [ROk], true)
                else (set_op (Some OSendOutcome) (set_dsend DUnsettled l1), [], true)
              else (set_op None l, [cell_err (scl x)], false)
            else (l, [], false)
          else (set_op None l, [cell_err (scl x)], false)
      end
  | Some OSendOutcome =>
      match dsend l with
      | DOk => (set_op None (set_dsend DNone l), [ROk], false)
      | DFailed => (set_op None (set_dsend DNone l), [cell_err (scl x)], false)
      | DUnsettled => (l, [], false)
      | DNone => (set_op None l, [RErr ScNone false], false)
      end
  | Some OOutcome =>
      match dfut l with
      | DOk => (set_op None (set_dfut DNone l), [ROk], false)
      | DFailed => (set_op None (set_dfut DNone l), [cell_err (scl x)], false)
      | DUnsettled => (l, [], false)
      | DNone => (set_op None l, [RErr ScNone false], false)
      end
  | Some ORecv =>
      match inbox l with
      | IDelivery :: r => (set_op None (set_inbox r l), [ROk], false)
      | IDetach c e :: r => see_detach x c e r l
      | [] => if relay l then (l, [], false) else (set_op None l, [cell_err (scl x)], false)
      end
  | Some ODetachWait =>
      match drop_to_detach (inbox l) with
      | Some (c, e, r) =>
          if c then reattach x FinDetach (set_inbox r l)
          else (gone (set_inbox r l), [if e then RErr ScLink true else ROk], false)
      | None => if relay l then (set_inbox [] l, [], false) else (gone (set_inbox [] l), [cell_err (scl x)], false)
      end
  | Some OCloseWait =>
      match drop_to_detach (inbox l) with
      | Some (c, e, r) =>
          (gone (set_inbox r l), [if c then (if e then RErr ScLink true else ROk) else RErr ScLink false], false)
      | None => if relay l then (set_inbox [] l, [], false) else (gone (set_inbox [] l), [cell_err (scl x)], false)
      end
  | Some (OReattach f) =>
      match inbox l with
      | _ :: r => (gone (set_inbox r l), [RErr ScLink false], false)
      | [] => if relay l then (l, [], false) else (gone l, [RErr ScLink false], false)
      end
  | Some (OReclose f) => poll_reclose x f l
  end.

(** the peer's attach has been routed to the link *)
Definition attach_arrived (x : sctx) (l : link) : link * list res * bool :=
  match lop l with
  | Some OAttach => (set_op None (set_lst LAttached (set_route true (relay l) l)), [ROk], false)
  | Some (OReattach f) =>
      if smap x then (set_op (Some (OReclose f)) (set_lst LCloseSent (set_route true (relay l) l)), [], true)
      else (gone (set_route true (relay l) l), [cell_err (scl x)], false)
  | _ => (l, [], false)
  end.

(** the session drops its end of the link: [fail_unsettled_deliveries] reaches the links it routes *)
Definition link_stop (l : link) : link := set_route false false (if mapped l then fail_slots l else l).

(** the application can call the link's handle *)
Definition usable (l : link) : bool :=
  match lst l with
  | LAttached | LDetachSent | LCloseSent | LDetached | LClosed =>
      match lop l with
      | None | Some (OSendCredit _) | Some OSendOutcome | Some OOutcome | Some ORecv => true
      | _ => false
      end
  | _ => false
  end.

(** * Connection, session, global state *)
Inductive cphase := CNone | CBroken (* the stream failed before open() *) | COpenSent | COpened | CCloseSent | CStopped.
Inductive cop := OpOpen | OpBegin | OpClose.
Record conn := mkConn {
  cph : cphase;
  ccell : option creason;        (* Arc<OnceLock<ConnectionStopReason>> *)
  cout : option cresult;         (* what the engine handed to the handle *)
  cpend : option cop;
  cgone : bool                   (* close() has returned (or open() failed) *)
}.
Inductive sphase := SNone | SBeginSent | SMapped | SEndSent | SStopped.
Record sess := mkSess {
  sph : sphase;
  scell : option sreason;        (* Arc<OnceLock<SessionStopReason>> *)
  sout : option sresult;
  endp : bool;                   (* end() in progress *)
  shandle : bool;                (* begin() has returned a handle *)
  sgone : bool                   (* end() has returned *)
}.
Record state := mkState { cn : conn; ss : sess; tx : link; rx : link }.

Definition init : state :=
  mkState (mkConn CNone None None None false) (mkSess SNone None None false false false) link0 link0.

Inductive handle := HConn | HSess | HTx | HRx.
Inductive output := Done (h : handle) (r : res).

Inductive call :=
| COpen | CBegin | CClose
| CAttach (sd : side) | CEnd
| CSend (batch : bool) | COutcome
| CRecv | CAccept
| CDetach (sd : side) | CCloseL (sd : side).

Inductive tkind := TEof | TReset.

Inductive event :=
| ECall (c : call)
| EPOpen | EPBegin | EPAttach (sd : side)
| EPFlow                                   (* link credit 10 for the sender *)
| EPSettle (fut : bool)                    (* the delivery of the blocking send / of the batchable send is settled *)
| EPTransfer                               (* a complete delivery for the receiver *)
| EPDetach (sd : side) (closed err : bool)
| EPEnd (err : bool)
| EPClose (err : bool)
| ETransport (k : tkind)                   (* the stream ends or fails *)
| EProp.                                   (* the session engine finds its channels to the connection closed *)

Definition get (sd : side) (st : state) : link := match sd with Snd => tx st | Rcv => rx st end.
Definition put (sd : side) (l : link) (st : state) : state :=
  match sd with Snd => mkState (cn st) (ss st) l (rx st) | Rcv => mkState (cn st) (ss st) (tx st) l end.
Definition lhandle (sd : side) : handle := match sd with Snd => HTx | Rcv => HRx end.
Definition op_handle (sd : side) (o : option oper) : handle := match o with Some OAttach => HSess | _ => lhandle sd end.

Definition is_mapped (p : sphase) : bool := match p with SMapped => true | _ => false end.
Definition alive (p : sphase) : bool := match p with SMapped | SEndSent => true | _ => false end.
Definition out_closed (p : cphase) : bool := match p with CCloseSent | CStopped => true | _ => false end.
Definition ctx_of (s : sess) : sctx := mkCtx (is_mapped (sph s)) (scell s).
Definition first {A : Type} (a : option A) (b : A) : A := match a with Some x => x | None => b end.
(** [connection_stop_reason_or_closed] *)
Definition cell_or_closed (c : conn) : creason := first (ccell c) CClosed.

Definition stop_link (x : sctx) (sd : side) (l : link) : link * list output :=
  let '(l', rs, _) := poll x (link_stop l) in (l', map (Done (op_handle sd (lop l))) rs).

(** The session engine leaves its loop: the cell is written first (the first reason stays),
    then the unsettled deliveries are failed and the relays dropped; end() gets the outcome. *)
Definition sess_stop (reason : sreason) (out : sresult) (st : state) : state * list output :=
  let s := ss st in
  if alive (sph s) then
    let cell := first (scell s) reason in
    let x := mkCtx false (Some cell) in
    let '(t, ot) := stop_link x Snd (tx st) in
    let '(r, orx) := stop_link x Rcv (rx st) in
    let oe := if endp s then [Done HSess (res_of_sresult out)] else [] in
    (mkState (cn st) (mkSess SStopped (Some cell) (Some out) false (shandle s) (sgone s || endp s)) t r, oe ++ ot ++ orx)
  else (st, []).

(** The session writes a frame to the connection: when that channel is closed the session
    stops with ConnectionStopped(reason or Closed). *)
Definition after_write (st : state) : state * list output :=
  if out_closed (cph (cn st)) then sess_stop (SConnStopped (cell_or_closed (cn st))) SOutOk st else (st, []).

Definition finish (sd : side) (h : handle) (st : state) (p : link * list res * bool) : state * list output :=
  let '(l, rs, w) := p in
  let st1 := put sd l st in
  if w then let '(st2, o2) := after_write st1 in (st2, map (Done h) rs ++ o2) else (st1, map (Done h) rs).

Definition poll_link (sd : side) (st : state) : state * list output :=
  let l := get sd st in finish sd (op_handle sd (lop l)) st (poll (ctx_of (ss st)) l).

(** The connection engine leaves its loop: the cell is written, then the channels close and
    the outcome goes to the handle; a begin() in progress sees its channel close. *)
Definition conn_stop (reason : creason) (out : cresult) (st : state) : state * list output :=
  let c := cn st in
  match cph c with
  | COpenSent | COpened | CCloseSent =>
      let cell := first (ccell c) reason in
      let o := match cpend c with
               | Some OpOpen | Some OpClose => [Done HConn (res_of_cresult out)]
               | Some OpBegin => [Done HConn (RErr ScConn (creason_remote cell))]
               | None => []
               end in
      let g := match cpend c with Some OpOpen | Some OpClose => true | _ => cgone c end in
      let s := ss st in
      let s' := match sph s with SBeginSent => mkSess SNone (scell s) (sout s) false false false | _ => s end in
      (mkState (mkConn CStopped (Some cell) (Some out) None g) s' (tx st) (rx st), o)
  | _ => (st, [])
  end.

Definition set_cn (c : conn) (st : state) := mkState c (ss st) (tx st) (rx st).
Definition set_ss (s : sess) (st : state) := mkState (cn st) s (tx st) (rx st).

(** the session engine processes frames of the peer only while the connection forwards them *)
Definition routed (st : state) : bool :=
  match cph (cn st) with COpened => alive (sph (ss st)) | _ => false end.

Definition do_call (c : call) (st : state) : state * list output :=
  let cc := cn st in
  let s := ss st in
  match c with
  | COpen =>
      match cph cc with
      | CNone => (set_cn (mkConn COpenSent None None (Some OpOpen) false) st, [])
      | CBroken => if cgone cc then (st, []) else (set_cn (mkConn CBroken None None None true) st, [Done HConn (RErr ScConn false)])
      | _ => (st, [])
      end
  | CBegin =>
      match cpend cc, cgone cc, sph s with
      | None, false, SNone =>
          match cph cc with
          | COpened => (mkState (mkConn COpened (ccell cc) (cout cc) (Some OpBegin) false)
                                (mkSess SBeginSent None None false false false) (tx st) (rx st), [])
          | CCloseSent => (st, [Done HConn (RErr ScConn false)])
          | CStopped => (st, [Done HConn (RErr ScConn (creason_remote (cell_or_closed cc)))])
          | _ => (st, [])
          end
      | _, _, _ => (st, [])
      end
  | CClose =>
      match cpend cc, cgone cc with
      | None, false =>
          match cph cc with
          | COpened => (set_cn (mkConn CCloseSent (ccell cc) (cout cc) (Some OpClose) false) st, [])
          | CStopped => (set_cn (mkConn CStopped (ccell cc) (cout cc) None true) st,
                         [Done HConn (match cout cc with Some o => res_of_cresult o | None => RErr ScConn false end)])
          | _ => (st, [])
          end
      | _, _ => (st, [])
      end
  | CAttach sd =>
      if shandle s && negb (sgone s) && negb (endp s) then
        match lst (get sd st) with
        | LNone =>
            match sph s with
            | SMapped =>
                let st1 := put sd (mkLink LAttaching false true [] (Some OAttach) 0 DNone DNone) st in
                after_write st1
            | SEndSent | SStopped => (st, [Done HSess (cell_err (Some (first (scell s) SEnded)))])
            | _ => (st, [])
            end
        | _ => (st, [])
        end
      else (st, [])
  | CEnd =>
      if shandle s && negb (sgone s) && negb (endp s) then
        match sph s with
        | SMapped =>
            let cell := first (scell s) (match ccell cc with Some r => SConnStopped r | None => SEnded end) in
            after_write (set_ss (mkSess SEndSent (Some cell) (sout s) true true false) st)
        | SStopped =>
            (set_ss (mkSess SStopped (scell s) (sout s) false true true) st,
             [Done HSess (match sout s with Some o => res_of_sresult o | None => ROk end)])
        | _ => (st, [])
        end
      else (st, [])
  | CSend b =>
      let l := tx st in
      if usable l then poll_link Snd (put Snd (set_op (Some (OSendCredit b)) l) st) else (st, [])
  | COutcome =>
      let l := tx st in
      if usable l then
        match dfut l with
        | DNone => (st, [])
        | _ => poll_link Snd (put Snd (set_op (Some OOutcome) l) st)
        end
      else (st, [])
  | CRecv =>
      let l := rx st in
      if usable l then poll_link Rcv (put Rcv (set_op (Some ORecv) l) st) else (st, [])
  | CAccept =>
      let l := rx st in
      if usable l then
        let st1 := put Rcv (set_op None l) st in
        if is_mapped (sph s) then
          let '(st2, o2) := after_write st1 in (st2, Done HRx ROk :: o2)
        else (st1, [Done HRx (cell_err (scell s))])
      else (st, [])
  | CDetach sd =>
      let l := get sd st in
      let h := lhandle sd in
      if usable l then
        match lst l with
        | LAttached =>
            if is_mapped (sph s) then
              match drop_to_detach (inbox l) with
              | Some (true, _, r) =>
                  (* the peer's closing detach is already there: the re-attach asks for the link name before the
                     session has seen our detach, and fails on the duplicate *)
                  finish sd h st (gone (set_inbox r l), [RErr ScLink false], true)
              | _ => poll_link sd (put sd (set_op (Some ODetachWait) (set_lst LDetachSent l)) st)
              end
            else (put sd (gone l) st, [Done h (cell_err (scell s))])
        | LDetachSent | LCloseSent => poll_link sd (put sd (set_op (Some ODetachWait) l) st)
        | LDetached => (put sd (gone l) st, [Done h ROk])
        | _ => (put sd (gone l) st, [Done h (RErr ScLink false)])
        end
      else (st, [])
  | CCloseL sd =>
      let l := get sd st in
      let h := lhandle sd in
      if usable l then
        match lst l with
        | LAttached =>
            if is_mapped (sph s) then poll_link sd (put sd (set_op (Some OCloseWait) (set_lst LCloseSent l)) st)
            else (put sd (gone l) st, [Done h (cell_err (scell s))])
        | LDetachSent | LCloseSent => poll_link sd (put sd (set_op (Some OCloseWait) l) st)
        | LDetached => finish sd h st (reattach (ctx_of s) FinClose (set_op None l))
        | _ => (put sd (gone l) st, [Done h ROk])
        end
      else (st, [])
  end.

Definition step (st : state) (e : event) : state * list output :=
  let cc := cn st in
  let s := ss st in
  match e with
  | ECall c => do_call c st
  | EPOpen =>
      match cph cc with
      | COpenSent => (set_cn (mkConn COpened None None None false) st,
                      match cpend cc with Some OpOpen => [Done HConn ROk] | _ => [] end)
      | _ => (st, [])
      end
  | EPBegin =>
      match cph cc, sph s with
      | COpened, SBeginSent =>
          (mkState (mkConn COpened (ccell cc) (cout cc) None (cgone cc)) (mkSess SMapped None None false true false) (tx st) (rx st),
           [Done HConn ROk])
      | _, _ => (st, [])
      end
  | EPAttach sd =>
      let l := get sd st in
      if routed st && relay l && negb (mapped l) then
        match lop l with
        | Some OAttach | Some (OReattach _) => finish sd (op_handle sd (lop l)) st (attach_arrived (ctx_of s) l)
        | _ => (st, [])
        end
      else (st, [])
  | EPFlow =>
      let l := tx st in
      if routed st && mapped l then poll_link Snd (put Snd (set_credit (credit l + 10) l) st) else (st, [])
  | EPSettle f =>
      let l := tx st in
      if routed st && mapped l then
        let l1 := if f then (match dfut l with DUnsettled => set_dfut DOk l | _ => l end)
                  else (match dsend l with DUnsettled => set_dsend DOk l | _ => l end) in
        poll_link Snd (put Snd l1 st)
      else (st, [])
  | EPTransfer =>
      let l := rx st in
      if routed st && mapped l then poll_link Rcv (put Rcv (set_inbox (inbox l ++ [IDelivery]) l) st) else (st, [])
  | EPDetach sd c e =>
      let l := get sd st in
      if routed st && mapped l then
        let l1 := set_route false false (set_inbox (inbox l ++ [IDetach c e]) (if c then fail_slots l else l)) in
        poll_link sd (put sd l1 st)
      else (st, [])
  | EPEnd e =>
      match cph cc with
      | COpened =>
          match sph s with
          | SBeginSent =>
              (mkState (mkConn COpened (ccell cc) (cout cc) None (cgone cc)) (mkSess SNone None None false false false) (tx st) (rx st),
               [Done HConn (RErr ScSess e)])
          | SMapped =>
              sess_stop (if e then SRemoteEnded true
                         else match ccell cc with Some r => SConnStopped r | None => SRemoteEnded false end)
                        (SOutRemoteEnded e) st
          | SEndSent => sess_stop SEnded (if e then SOutRemoteEnded true else SOutOk) st
          | _ => (st, [])
          end
      | _ => (st, [])
      end
  | EPClose e =>
      match cph cc with
      | COpenSent | COpened => conn_stop (CRemoteClosed e) (COutRemoteClosed e) st
      | CCloseSent => conn_stop (if e then CRemoteClosed true else CClosed) (if e then COutRemoteClosed true else COutOk) st
      | _ => (st, [])
      end
  | ETransport _ =>
      match cph cc with
      | CNone => (set_cn (mkConn CBroken None None None false) st, [])
      | _ => conn_stop CClosed COutTransport st
      end
  | EProp =>
      match cph cc with
      | CStopped => sess_stop (SConnStopped (cell_or_closed cc)) SOutOk st
      | _ => (st, [])
      end
  end.

Fixpoint run (st : state) (es : list event) : state * list (list output) :=
  match es with
  | [] => (st, [])
  | e :: r => let '(s1, o) := step st e in let '(s2, os) := run s1 r in (s2, o :: os)
  end.

(** an event followed by the propagation step *)
Definition step_settled (st : state) (e : event) : state * list output :=
  let '(s1, o1) := step st e in let '(s2, o2) := step s1 EProp in (s2, o1 ++ o2).
