(** Model of the SCRAM client's negotiation at the granularity of whole server messages:
    sasl_profile/mod.rs [SaslProfile::on_frame] for the SCRAM profiles, auth/scram/mod.rs
    [compute_client_final_message] / [validate_server_final], and connection/builder.rs (SASL header exchange,
    negotiation loop, AMQP header and open once the outcome is accepted).  The SCRAM arithmetic is abstracted into
    the validity of a server message, decided from the case by the harness (whose own SCRAM arithmetic is checked
    against the RFC vectors and against the library's listener):
    a challenge is [good] iff it is a well-formed server-first message whose nonce EXTENDS the client's nonce,
    with a base64 salt and a decimal iteration count; the additional data of an outcome is [DGood] iff it is the
    server-final message carrying the signature computed from the password the client knows. *)
From Coq Require Export List Bool.
Export ListNotations.

Inductive code := KOk | KAuth | KSys | KSysPerm | KSysTemp | KOther.     (* sasl-code 0..4, anything else *)
Inductive sdata := DGood | DBad | DNone.

Inductive sev :=
| VHdrSasl | VHdrOther                 (* the server's answer to the SASL header *)
| VMechs (has_ours : bool)
| VChal (good : bool)
| VOutcome (c : code) (d : sdata)
| VAmqp                                (* the server's AMQP header and open, after a successful negotiation *)
| VGarbage                             (* a frame that does not decode *)
| VEof.                                (* EOF, or bytes that are not a frame where a frame is due *)

Inductive cerr := EHeaderMismatch | ENotImplemented | EScram | ESasl (c : code) | EDecode | EIo.

Inductive cobs :=
| OInit | OResp                        (* sasl-init, sasl-response written *)
| OAmqpHdr | OOpen                     (* AMQP header, open written *)
| ROk | RErr (e : cerr).               (* open() returned *)

Inductive cstate := CWaitHdr | CWaitMechs | CWaitChal | CWaitOutcome | CWaitAmqp | CDone | CFailed.

Definition cfail (e : cerr) : cstate * list cobs := (CFailed, [RErr e]).

Definition cstep (s : cstate) (v : sev) : cstate * list cobs :=
  match s, v with
  | CWaitHdr, VHdrSasl => (CWaitMechs, [])
  | CWaitHdr, VEof => cfail EIo
  | CWaitHdr, _ => cfail EHeaderMismatch
  | CWaitMechs, VMechs true => (CWaitChal, [OInit])
  | CWaitMechs, VMechs false => cfail ENotImplemented
  | CWaitMechs, VGarbage => cfail EDecode
  | CWaitMechs, VEof => cfail EIo
  | CWaitMechs, _ => cfail EScram                       (* a challenge or an outcome before the mechanisms *)
  | CWaitChal, VChal true => (CWaitOutcome, [OResp])
  | CWaitChal, VGarbage => cfail EDecode
  | CWaitChal, VEof => cfail EIo
  | CWaitChal, _ => cfail EScram                        (* a bad challenge, an outcome before the challenge, ... *)
  | CWaitOutcome, VOutcome KOk DGood => (CWaitAmqp, [OAmqpHdr])
  | CWaitOutcome, VOutcome KOk _ => cfail EScram         (* ok without a (valid) server signature is not proof *)
  | CWaitOutcome, VOutcome KOther _ => cfail EDecode
  | CWaitOutcome, VOutcome c _ => cfail (ESasl c)
  | CWaitOutcome, VGarbage => cfail EDecode
  | CWaitOutcome, VEof => cfail EIo
  | CWaitOutcome, _ => cfail EScram                     (* a second challenge, mechanisms again *)
  | CWaitAmqp, VAmqp => (CDone, [OOpen; ROk])
  | CWaitAmqp, _ => cfail EIo
  | CDone, _ => (CDone, [])
  | CFailed, _ => (CFailed, [])
  end.

Fixpoint crun (s : cstate) (vs : list sev) : cstate * list (list cobs) :=
  match vs with
  | [] => (s, [])
  | v :: r => let '(s1, o) := cstep s v in let '(s2, os) := crun s1 r in (s2, o :: os)
  end.

(** what a server that knows the password does *)
Definition proving_exchange : list sev := [VHdrSasl; VMechs true; VChal true; VOutcome KOk DGood].
