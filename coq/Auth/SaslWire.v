(** From the bytes of a frame to the action of the listener's SASL model (Auth/SaslListener.v) for a
    listener with the PLAIN mechanism: what acceptor/connection.rs [negotiate_sasl_with_framed] makes
    of what the transport hands it while it waits for the client's sasl-init.

    - the frame does not decode (header rules, descriptor, a mandatory field missing, truncated,
      a field of another type than the struct declares): [transport.next()] yields an error, the
      negotiation returns it and nothing is written;
    - a sasl-init: the PLAIN acceptor looks only at the initial response (Auth/Plain.v);
    - any other SASL frame is out of turn: outcome sys.

    The typed field decoders are modelled by [init_typed] / [typed_ok]: a field holds null (where
    optional) or a value of the declared type. *)
From FV Require Import Base.Bytes Codec.Value Codec.Composite Frame.SaslFrame Auth.SaslListener Auth.Plain.

Definition is_symbol (v : value) : bool := match v with VSymbol _ => true | _ => false end.
Definition is_binary (v : value) : bool := match v with VBinary _ => true | _ => false end.
Definition is_string (v : value) : bool := match v with VString _ => true | _ => false end.
Definition is_ubyte (v : value) : bool := match v with VUbyte _ => true | _ => false end.
Definition is_symbols (v : value) : bool :=
  match v with VArray l => forallb is_symbol l | VSymbol _ => true | _ => false end.

(** do the fields of a decoded SASL frame have the types the structs declare? *)
Definition typed_ok (f : sframe) : bool :=
  let c := s_code (sf_schema f) in
  match sf_fields f with
  | [m] =>
      if c =? 64 then is_symbols m
      else if (c =? 66) || (c =? 67) then is_binary m
      else false
  | [a; b] => (c =? 68) && is_ubyte a && (match a with VUbyte n => n <=? 4 | _ => false end) && (is_null b || is_binary b)
  | [m; r; h] => (c =? 65) && is_symbol m && (is_null r || is_binary r) && (is_null h || is_string h)
  | _ => false
  end.

(** the action a typed SASL frame is to a PLAIN listener configured with [user] / [pass] *)
Definition cact_of_frame (user pass : bytes) (f : sframe) : cact :=
  if s_code (sf_schema f) =? 65 then
    match sf_fields f with
    | [_; VBinary r; _] => if plain_ok user pass r then CInitOk else CInitBad
    | _ => CInitBad                                    (* no initial response *)
    end
  else CFrame.

(** the listener has written its mechanisms and waits ([LInit]); [bs] are the bytes of one frame *)
Definition plain_on_frame_bytes (fuel : nat) (user pass : bytes) (bs : bytes) : lstate * list lobs :=
  match dec_sasl_frame fuel bs with
  | Ok f => if typed_ok f then lstep MPlain LInit (cact_of_frame user pass f) else fail_quiet
  | _ => fail_quiet
  end.
