(** Model of the listener's SASL layer at the granularity of whole client
    actions: acceptor/connection.rs [negotiate_sasl_with_framed] (header
    exchange, mechanisms, the init/response loop, outcome), followed by the AMQP
    header exchange and the open exchange of the accepted connection;
    acceptor/sasl_acceptor.rs [SaslPlainMechanism], the SCRAM acceptors.  The
    credential check and the SCRAM arithmetic are abstracted into the validity
    of the client's action (decided from the case by the harness): an init is
    [CInitOk] iff it carries exactly the configured credentials (PLAIN) or is a
    well-formed client-first for the offered mechanism (SCRAM); a response is
    [CRespOk] iff it is the correct client-final for the challenge sent. *)
From Coq Require Export List Bool.
Export ListNotations.

Inductive mech := MPlain | MScram.

Inductive cact :=
| CHs | CHa | CHdrX            (* SASL header, AMQP header, any other 8 header bytes *)
| CInitOk | CInitBad
| CRespOk | CRespBad
| CFrame                        (* a SASL frame a client must not send: mechanisms, challenge, outcome *)
| COpen                         (* an AMQP open frame *)
| CEof.

Inductive lobs :=
| LM | LCh | LOutOk | LOutFail  (* SASL frames written: mechanisms, challenge, outcome ok / not ok *)
| LH | LO | LC | LCe            (* AMQP header, open, close and close-with-error written *)
| LAcceptOk | LAcceptErr        (* accept() returned *)
| LEof.

Inductive lstate := LHdr | LInit | LChal | LAmqpHdr | LOpenWait | LClosing | LDone | LDiscard | LFailed.

Definition fail_quiet : lstate * list lobs := (LFailed, [LAcceptErr; LEof]).
Definition fail_outcome : lstate * list lobs := (LFailed, [LOutFail; LAcceptErr; LEof]).

Definition lstep (m : mech) (s : lstate) (a : cact) : lstate * list lobs :=
  match s, a with
  | LHdr, CHs => (LInit, [LM])
  | LHdr, _ => fail_quiet
  | LInit, CInitOk => match m with MPlain => (LAmqpHdr, [LOutOk; LH]) | MScram => (LChal, [LCh]) end
  | LInit, (CInitBad | CRespOk | CRespBad | CFrame) => fail_outcome
  | LInit, _ => fail_quiet
  | LChal, CRespOk => (LAmqpHdr, [LOutOk; LH])
  | LChal, (CRespBad | CInitOk | CInitBad | CFrame) => fail_outcome
  | LChal, _ => fail_quiet
  | LAmqpHdr, CHa => (LOpenWait, [LO])
  | LAmqpHdr, _ => fail_quiet
  | LOpenWait, COpen => (LDone, [LAcceptOk])
  (* something other than the open: the connection is closed; bytes that are not a frame, or EOF, end it at once,
     after a frame the engine waits for the peer's close *)
  | LOpenWait, (CHs | CHa | CHdrX | CEof) => (LFailed, [LC; LAcceptErr; LEof])
  | LOpenWait, _ => (LClosing, [LC])
  | LClosing, COpen => (LClosing, [])
  | LClosing, _ => fail_quiet
  (* the connection is open: what follows is the open connection's business (C12, C15); here: anything but frames it
     understands ends it *)
  | LDone, COpen => (LDiscard, [LCe])            (* a second open: closed with an error, discarding *)
  | LDone, _ => (LFailed, [LEof])
  | LDiscard, (CHs | CHa | CHdrX | CEof) => (LFailed, [LEof])
  | LDiscard, COpen => (LDiscard, [])
  | LDiscard, _ => (LFailed, [LEof])
  | LFailed, _ => (LFailed, [])
  end.

Fixpoint lrun (m : mech) (s : lstate) (acts : list cact) : lstate * list (list lobs) :=
  match acts with
  | [] => (s, [])
  | a :: r => let '(s1, o) := lstep m s a in let '(s2, os) := lrun m s1 r in (s2, o :: os)
  end.
