(** Model of the PLAIN credential check of acceptor/sasl_acceptor.rs
    ([SaslPlainMechanism::validate_init] / [validate_credential]): the initial response is
    split at its first two NUL bytes ([splitn(3, |b| *b == 0)]): authzid, authcid, and whatever
    follows the second NUL is the password; authcid and passwd are compared with the configured
    user name and password, the authzid is not looked at.  Fewer than two NULs: refused. *)
From FV Require Import Base.Bytes Codec.Value.

(** [split0 bs] = the bytes before the first NUL and the bytes after it *)
Fixpoint split0 (bs : bytes) : option (bytes * bytes) :=
  match bs with
  | [] => None
  | b :: r =>
      if b =? 0 then Some ([], r)
      else match split0 r with
           | Some (x, y) => Some (b :: x, y)
           | None => None
           end
  end.

Definition plain_ok (user pass resp : bytes) : bool :=
  match split0 resp with
  | Some (_, r1) =>
      match split0 r1 with
      | Some (authcid, passwd) => bytes_eqb authcid user && bytes_eqb passwd pass
      | None => false
      end
  | None => false
  end.
