//! `chmax` sub-harness (C17, direct oracle): the channel-max clause at its far end.  On a real `Connection` (facade) that
//! agreed on channel-max M, sessions are allocated until one is refused - for M = 65535 that is 65536 live sessions, one more
//! than a u16 can count.  Every channel handed out is new and within 0..=M, exactly M+1 sessions fit, the next allocation is
//! refused, and after a session in the middle is given back exactly one more fits (on that channel).
//! Case line: `chmax local=<n> remote=<n>`.
use crate::out::*;
use fe2o3_amqp::verif::VConnection;
use std::collections::HashSet;

pub fn run_case(local: u16, remote: u16) -> (String, Vec<(String, String)>) {
    let mut v = Vec::new();
    let mut c = VConnection::new(7, local);
    if c.on_incoming_open(remote).is_err() {
        return ("open refused".into(), v);
    }
    let agreed = local.min(remote) as u32;
    let mut seen: HashSet<u16> = HashSet::new();
    let mut n_ok = 0u32;
    let mut refused_at: Option<u32> = None;
    for i in 0..(agreed + 3) {
        match c.allocate_session() {
            Ok(ch) => {
                n_ok += 1;
                if ch as u32 > agreed {
                    v.push(("c17-channel-above-max".to_string(), format!("allocation #{} was given channel {} above the agreed channel-max {}", i, ch, agreed)));
                }
                if !seen.insert(ch) {
                    v.push(("c17-channel-in-use".to_string(), format!("allocation #{} was given channel {} which is still in use", i, ch)));
                    break;
                }
            }
            Err(_) => {
                refused_at = Some(i);
                break;
            }
        }
    }
    if n_ok != agreed + 1 && v.is_empty() {
        v.push(("c17-channel-count".to_string(), format!("{} sessions were allocated under an agreed channel-max of {} (refused at {:?})", n_ok, agreed, refused_at)));
    }
    // give one back in the middle: exactly one more fits
    let mut again = String::new();
    if v.is_empty() {
        let mid = (agreed / 2) as u16;
        c.deallocate_session(mid);
        let a = c.allocate_session();
        let b = c.allocate_session();
        again = format!("{:?}/{}", a.as_ref().ok(), if b.is_ok() { "ok" } else { "refused" });
        if a.as_ref().ok() != Some(&mid) || b.is_ok() {
            v.push(("c17-channel-reuse".to_string(), format!("after channel {} was given back the next two allocations gave {:?} and {:?}", mid, a.ok(), b.ok())));
        }
    }
    (format!("allocated={} refused_at={:?} again={}", n_ok, refused_at, again), v)
}

pub fn run(_seed: u64, _n: u64, thorough: bool, _corpus: &[String], dir: &str) {
    crate::codec::quiet_panics();
    let mut out = Outputs::new(dir);
    let mut pairs: Vec<(u16, u16)> = vec![(65535, 65535), (65535, 300), (255, 65535), (256, 256), (0, 65535), (1, 1)];
    if thorough {
        pairs.extend([(65534, 65535), (32768, 65535), (65535, 32767), (1000, 999)]);
    }
    for (l, r) in pairs {
        let line = format!("chmax local={} remote={}", l, r);
        let res = std::panic::catch_unwind(|| run_case(l, r));
        match res {
            Ok((t, vs)) => {
                out.nontrivial(&line);
                for (c, w) in vs {
                    out.violation(&c, &w, &line);
                }
                out.case(&line, &t);
            }
            Err(_) => {
                out.violation("c17-panic", "allocating sessions up to channel-max panics", &line);
                out.case(&line, "PANIC");
            }
        }
    }
    out.finish(dir);
}
