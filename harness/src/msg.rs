//! `msg` sub-harness: the message codec at the level of sections (`Serializable(Message<Body<Value>>)`,
//! `Deserializable<Message<Body<Value>>>`) against the Coq model `coq/Codec/Message.v`.
//!
//! Case lines
//!   `msg enc h=<hex|-> da= ma= p= ap= body=<hex,..|-> f=` : the sections of a generated message, each encoded on its own; trace
//!        `enc=<to_vec(Serializable(m))> dec=<sections of the decoded message>`; the model runs enc_message and dec_message;
//!   `msg dec <hex>` : a byte string built from sections - the canonical order, permutations, a section given twice (the later one
//!        wins), no body, a body batch followed by a batch of the other kind, more than seven sections, a section with an unknown
//!        descriptor, descriptors by name, a truncated last section, trailing garbage - through the real decoder and dec_message;
//!        trace `<sections of the decoded message>` or `err`.
//!   sections of a message: `h=.. da=.. ma=.. p=.. ap=.. body=<hex,..|-> f=..`
//! Direct oracle (class c03-message-roundtrip): decoding the encoding of a message with a body gives back its sections.
use crate::out::*;
use crate::rng::Rng;
use crate::typed::{self, Msg};
use crate::val::{has_described_array_elem, has_unsupported_array, hex};
use fe2o3_amqp_types::messaging::Body;
use serde_amqp::Value;
use std::panic::{catch_unwind, AssertUnwindSafe};

fn hx(o: &Option<Vec<u8>>) -> String {
    o.as_ref().map(|b| hex(b)).unwrap_or("-".into())
}

struct Secs {
    h: Option<Vec<u8>>,
    da: Option<Vec<u8>>,
    ma: Option<Vec<u8>>,
    p: Option<Vec<u8>>,
    ap: Option<Vec<u8>>,
    body: Vec<Vec<u8>>,
    f: Option<Vec<u8>>,
}

fn secs_of(m: &Msg) -> Secs {
    let tv = |x: &dyn erased::Enc| x.enc();
    Secs {
        h: m.header.as_ref().map(|x| tv(x)),
        da: m.delivery_annotations.as_ref().map(|x| tv(x)),
        ma: m.message_annotations.as_ref().map(|x| tv(x)),
        p: m.properties.as_ref().map(|x| tv(x)),
        ap: m.application_properties.as_ref().map(|x| tv(x)),
        body: match &m.body {
            Body::Value(v) => vec![serde_amqp::to_vec(v).unwrap()],
            Body::Data(b) => b.clone().into_inner().iter().map(|d| serde_amqp::to_vec(d).unwrap()).collect(),
            Body::Sequence(b) => b.clone().into_inner().iter().map(|d| serde_amqp::to_vec(d).unwrap()).collect(),
            Body::Empty => vec![],
        },
        f: m.footer.as_ref().map(|x| tv(x)),
    }
}

mod erased {
    pub trait Enc {
        fn enc(&self) -> Vec<u8>;
    }
    impl<T: serde::Serialize> Enc for T {
        fn enc(&self) -> Vec<u8> {
            serde_amqp::to_vec(self).unwrap()
        }
    }
}

fn show(s: &Secs) -> String {
    format!(
        "h={} da={} ma={} p={} ap={} body={} f={}",
        hx(&s.h),
        hx(&s.da),
        hx(&s.ma),
        hx(&s.p),
        hx(&s.ap),
        if s.body.is_empty() { "-".to_string() } else { s.body.iter().map(|b| hex(b)).collect::<Vec<_>>().join(",") },
        hx(&s.f)
    )
}

fn decode(bytes: &[u8]) -> String {
    match catch_unwind(AssertUnwindSafe(|| typed::decode_message(bytes))) {
        Ok(Ok(m)) => match catch_unwind(AssertUnwindSafe(|| show(&secs_of(&m)))) {
            Ok(s) => s,
            Err(_) => "PANIC".into(),
        },
        Ok(Err(e)) if e.starts_with("PANIC") => "PANIC".into(),
        Ok(Err(_)) => "err".into(),
        Err(_) => "PANIC".into(),
    }
}

fn in_scope(b: &[u8]) -> bool {
    match serde_amqp::from_slice::<Value>(b) {
        Ok(v) => !has_unsupported_array(&v) && !has_described_array_elem(&v),
        Err(_) => false,
    }
}

/// rewrite `00 53 <code>` at the start of a section into the descriptor by name
fn by_name(sec: &[u8]) -> Option<Vec<u8>> {
    if sec.len() < 3 || sec[0] != 0 || sec[1] != 0x53 {
        return None;
    }
    let name = match sec[2] {
        0x70 => "amqp:header:list",
        0x71 => "amqp:delivery-annotations:map",
        0x72 => "amqp:message-annotations:map",
        0x73 => "amqp:properties:list",
        0x74 => "amqp:application-properties:map",
        0x75 => "amqp:data:binary",
        0x76 => "amqp:amqp-sequence:list",
        0x77 => "amqp:amqp-value:*",
        0x78 => "amqp:footer:map",
        _ => return None,
    };
    let mut out = vec![0x00, 0xa3, name.len() as u8];
    out.extend(name.as_bytes());
    out.extend(&sec[3..]);
    Some(out)
}

fn dec_case(bytes: &[u8], what: &str, out: &mut Outputs) {
    let line = format!("msg dec {}", if bytes.is_empty() { "-".to_string() } else { hex(bytes) });
    let res = decode(bytes);
    if res == "PANIC" {
        out.violation("c04-typed-panic", &format!("the message decoder panics ({})", what), &line);
    }
    out.count(&format!("dec: {}", what));
    out.case(&line, &res);
}

fn one(r: &mut Rng, out: &mut Outputs) {
    let m = typed::gen_message(r);
    let s = secs_of(&m);
    let all: Vec<&Vec<u8>> = s.h.iter().chain(s.da.iter()).chain(s.ma.iter()).chain(s.p.iter()).chain(s.ap.iter()).chain(s.body.iter()).chain(s.f.iter()).collect();
    if !all.iter().all(|b| in_scope(b)) {
        out.count("skipped: section outside the value model");
        return;
    }
    let line = format!("msg enc {}", show(&s));
    let enc = typed::encode_message(&m);
    let dec = decode(&enc);
    out.count(&format!("enc: body sections {}", s.body.len().min(3)));
    out.nontrivial(&line);
    if !s.body.is_empty() && dec != show(&s) {
        out.violation("c03-message-roundtrip", &format!("the decoded message has sections `{}`", &dec[..dec.len().min(300)]), &line);
    }
    out.case(&line, &format!("enc={} dec={}", hex(&enc), dec));

    // byte strings built from the sections
    let secs: Vec<Vec<u8>> = all.iter().map(|b| (*b).clone()).collect();
    if secs.is_empty() {
        return;
    }
    // a permutation
    let mut perm = secs.clone();
    for i in (1..perm.len()).rev() {
        let j = r.below(i as u64 + 1) as usize;
        perm.swap(i, j);
    }
    dec_case(&perm.concat(), "sections in another order", out);
    // one section given twice (its second copy taken from another message so that they differ)
    let m2 = typed::gen_message(r);
    let s2 = secs_of(&m2);
    let all2: Vec<Vec<u8>> = s2.h.iter().chain(s2.da.iter()).chain(s2.ma.iter()).chain(s2.p.iter()).chain(s2.ap.iter()).chain(s2.body.iter()).chain(s2.f.iter()).cloned().collect();
    if all2.iter().all(|b| in_scope(b)) && !all2.is_empty() {
        let extra = all2[r.below(all2.len() as u64) as usize].clone();
        let mut d = secs.clone();
        let pos = r.below(d.len() as u64 + 1) as usize;
        d.insert(pos, extra);
        dec_case(&d.concat(), "one more section of some kind", out);
        // many sections
        let mut many = secs.clone();
        many.extend(all2.iter().cloned());
        many.extend(secs.iter().cloned());
        dec_case(&many.concat(), "more than seven sections", out);
    }
    // without the body
    let nobody: Vec<Vec<u8>> = s.h.iter().chain(s.da.iter()).chain(s.ma.iter()).chain(s.p.iter()).chain(s.ap.iter()).chain(s.f.iter()).cloned().collect();
    dec_case(&nobody.concat(), "no body section", out);
    // descriptors by name
    let named: Vec<Vec<u8>> = secs.iter().map(|x| if r.chance(1, 2) { by_name(x).unwrap_or(x.clone()) } else { x.clone() }).collect();
    dec_case(&named.concat(), "descriptors by name", out);
    // an unknown section
    let mut unk = secs.clone();
    let pos = r.below(unk.len() as u64 + 1) as usize;
    unk.insert(pos, vec![0x00, 0x53, 0x79, 0x40]);
    dec_case(&unk.concat(), "a section with an unknown descriptor", out);
    // truncated, trailing garbage
    let whole = secs.concat();
    let k = r.below(whole.len() as u64) as usize;
    // a cut strictly inside a list-encoded section (header, properties) is left out: the typed decoder of the composite takes
    // the end of the input for the end of its list, the model reads a section with the value decoder (see fdec)
    let mut pos = 0usize;
    let mut inside_composite = false;
    for sct in &secs {
        let end = pos + sct.len();
        if pos < k && k < end && sct.len() > 2 && (sct[2] == 0x70 || sct[2] == 0x73) {
            inside_composite = true;
        }
        pos = end;
    }
    if inside_composite {
        out.count("skipped: cut inside a list-encoded section");
    } else {
        dec_case(&whole[..k], "cut short", out);
    }
    let mut g = whole.clone();
    let kk = 1 + r.below(3) as usize;
    g.extend(r.bytes(kk));
    dec_case(&g, "trailing bytes", out);
}

pub fn run(seed: u64, n: u64, _thorough: bool, _corpus: &[String], dir: &str) {
    crate::codec::quiet_panics();
    let mut out = Outputs::new(dir);
    let mut r = Rng::new(seed ^ 0x6d7367);
    for b in [vec![], vec![0x40u8], vec![0x00], vec![0x00, 0x53], vec![0x00, 0x53, 0x77], vec![0x00, 0x53, 0x77, 0x40], vec![0x00, 0x53, 0x75, 0xa0, 0x00], vec![0x00, 0x53, 0x75, 0xa0, 0x00, 0x00, 0x53, 0x75, 0xa0, 0x01, 0x07]] {
        dec_case(&b, "fixed", &mut out);
    }
    for _ in 0..n {
        one(&mut r, &mut out);
    }
    out.finish(dir);
}
