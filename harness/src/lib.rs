//! Correspondence / direct-oracle harness for the fe2o3-amqp verification.
//! Every random choice derives from one PRNG state seeded by the caller.
pub mod rng;
pub mod alloc;
pub mod out;
pub mod c07;
pub mod c08;
pub mod val;
pub mod codec;
pub mod typed;
pub mod frame;
pub mod c02;
pub mod c11;
pub mod eng;
pub mod c12;
pub mod c17;
pub mod rx;
pub mod life;
pub mod sasl;
pub mod hostile;
pub mod e2e;
pub mod c05;
pub mod sweeps;
pub mod txc;
pub mod cut;
pub mod txn;
pub mod cutm;
pub mod comp;
mod gen_comp;
