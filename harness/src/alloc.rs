//! A counting global allocator: tracks the current and peak number of live bytes
//! so that a sub-harness can measure the peak allocation of one decode call.
use std::alloc::{GlobalAlloc, Layout, System};
use std::sync::atomic::{AtomicUsize, Ordering};

pub struct Counting;

static CUR: AtomicUsize = AtomicUsize::new(0);
static PEAK: AtomicUsize = AtomicUsize::new(0);

unsafe impl GlobalAlloc for Counting {
    unsafe fn alloc(&self, l: Layout) -> *mut u8 {
        let p = System.alloc(l);
        if !p.is_null() {
            let c = CUR.fetch_add(l.size(), Ordering::Relaxed) + l.size();
            PEAK.fetch_max(c, Ordering::Relaxed);
        }
        p
    }
    unsafe fn dealloc(&self, p: *mut u8, l: Layout) {
        CUR.fetch_sub(l.size(), Ordering::Relaxed);
        System.dealloc(p, l)
    }
    unsafe fn realloc(&self, p: *mut u8, l: Layout, new: usize) -> *mut u8 {
        let q = System.realloc(p, l, new);
        if !q.is_null() {
            if new >= l.size() {
                let c = CUR.fetch_add(new - l.size(), Ordering::Relaxed) + (new - l.size());
                PEAK.fetch_max(c, Ordering::Relaxed);
            } else {
                CUR.fetch_sub(l.size() - new, Ordering::Relaxed);
            }
        }
        q
    }
}

/// Start a measurement: the peak is reset to the current level
pub fn reset_peak() -> usize {
    let c = CUR.load(Ordering::Relaxed);
    PEAK.store(c, Ordering::Relaxed);
    c
}
/// Bytes allocated above the level at `reset_peak`
pub fn peak_since(base: usize) -> usize {
    PEAK.load(Ordering::Relaxed).saturating_sub(base)
}
