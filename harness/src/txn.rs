//! C18 - transactions.
//!
//! `txn-l`: the library's LISTENER (ConnectionAcceptor + SessionAcceptor with a control link
//! acceptor + LinkAcceptor, an application that accepts every link and runs `recv()` on the
//! receivers) against a scripted byte-level client that declares transactions, posts under them,
//! discharges them, detaches the control link and ends the session.
//!
//! case line: `txn-l | act ; act ; ...`
//!   `ctl`                    attach the control link (target = coordinator), handle 0
//!   `dctl` / `dctl0`         detach the control link (closing / not closing)
//!   `ctl2` `dctl2` `decl2` `commit2 <tx>` `rollback2 <tx>`   the same on a second, independent control link (handle 30)
//!   `lnk <i>`                attach sender link i (1..3), handle i
//!   `decl`                   Declare on the control link; the k-th `decl` action yields id `t<k>`
//!   `post <i> <tx> <m> [s]`  transfer message m on link i; tx = `-` (plain), `t<k>`, `bogus`; `s` = pre-settled
//!   `postm <i> <tx> <m>`     same, the message cut into two transfer frames (both carry the state)
//!   `commit <tx>` / `rollback <tx>` / `commitn <tx>` (fail field absent)
//!   `rlnk`                   attach a receiver link (handle 4): the listener's application gets a sender
//!   `snd`                    the listener's application sends one message on that sender
//!   `ret <tx>`               retire the oldest outstanding delivery of that link under tx (outcome accepted)
//!   `dropsess`               end the session
//!   `dropconn`               the transport goes away (no end, no close)
//!   `burst <i> <tx> <m> <n>` n posts (messages m..m+n-1), as many as the link credit allows
//! The scripted sender honours link credit: a post without credit is not sent (`nocredit`).
//!
//! trace: one step per action, `wire / app`: what the listener wrote (short tokens; `P*` is a
//! disposition for the delivery sent in this step) and what the application observed
//! (`l<i>:m<k>` = recv() on link i returned message k) between this action and the next.
//!
//! `txn-c`: the library's CLIENT (`Controller`, `Transaction`, `OwnedTransaction`, post, commit,
//! rollback, transactional retirement) against a scripted coordinator.
//!
//! case line: `txn-c | op ; op ; ...`
//!   `ctl`  `snd <i>`  `rcv`
//!   `decl <D:hex|R:cond|N>`   `odecl <...>` (OwnedTransaction)      -> transaction slot k (in order)
//!   `post <k> <i> <m> <TA|TR:cond|R:cond|N>`
//!   `commit <k> <A|R:cond|N>`  `rollback <k> <A|R:cond|N>`  `drop <k>`
//!   `racc <k>` `rrej <k>` `rrel <k>`   receive the next delivery and retire it under transaction k
use crate::c12::{peer_begin, peer_open};
use crate::eng::*;
use crate::out::*;
use crate::rng::Rng;
use fe2o3_amqp::acceptor::{ConnectionAcceptor, LinkAcceptor, LinkEndpoint, ListenerSessionHandle, SessionAcceptor};
use fe2o3_amqp::transaction::coordinator::ControlLinkAcceptor;
use fe2o3_amqp::transaction::{
    Controller, ControllerSendError, OwnedDeclareError, OwnedDischargeError, OwnedTransaction, PostError, Transaction, TransactionBase,
    TransactionDischarge, TransactionPosting, TransactionRetirement,
};
use fe2o3_amqp::types::definitions::{self, AmqpError, ErrorCondition, ReceiverSettleMode, Role, SenderSettleMode};
use fe2o3_amqp::types::messaging::message::__private::{Deserializable, Serializable};
use fe2o3_amqp::types::messaging::{Accepted, Body, DeliveryState, Message, Outcome, Rejected, Source, Target, TargetArchetype};
use fe2o3_amqp::types::performatives::{Attach, Close, Detach, Disposition, End, Flow, Performative, Transfer};
use fe2o3_amqp::types::primitives::Value;
use fe2o3_amqp::types::transaction::{Coordinator, Declare, Declared, Discharge, TransactionError, TransactionalState};
use fe2o3_amqp::{Connection, Receiver, Sender, Session};
use serde_amqp::primitives::Binary;
use std::collections::{HashMap, VecDeque};
use std::sync::{Arc, Mutex};
use std::time::Duration;
use tokio::io::{AsyncReadExt, AsyncWriteExt};
use tokio::sync::mpsc;

type Log = Arc<Mutex<Vec<String>>>;

fn hex(b: &[u8]) -> String {
    b.iter().map(|x| format!("{:02x}", x)).collect()
}
fn unhex(s: &str) -> Vec<u8> {
    (0..s.len() / 2).map(|i| u8::from_str_radix(&s[2 * i..2 * i + 2], 16).unwrap_or(0)).collect()
}
fn err_name(dbg: &str) -> String {
    dbg.split(|c| c == '(' || c == '{' || c == ' ').next().unwrap_or(dbg).to_string()
}
fn ocond(e: &Option<definitions::Error>) -> String {
    e.as_ref().map(|e| cond(&e.condition)).unwrap_or_else(|| "-".into())
}
fn outcome_tok(o: &Option<Outcome>) -> String {
    match o {
        None => "none".into(),
        Some(Outcome::Accepted(_)) => "acc".into(),
        Some(Outcome::Rejected(r)) => format!("rej({})", ocond(&r.error)),
        Some(Outcome::Released(_)) => "rel".into(),
        Some(Outcome::Modified(_)) => "mod".into(),
        Some(Outcome::Declared(_)) => "decl".into(),
    }
}
/// short token of a delivery state; transaction ids are printed through `lab`
fn state_tok(s: &Option<DeliveryState>, lab: &dyn Fn(&[u8]) -> String) -> String {
    match s {
        None => "none".into(),
        Some(DeliveryState::Accepted(_)) => "acc".into(),
        Some(DeliveryState::Rejected(r)) => format!("rej({})", ocond(&r.error)),
        Some(DeliveryState::Released(_)) => "rel".into(),
        Some(DeliveryState::Modified(_)) => "mod".into(),
        Some(DeliveryState::Received(_)) => "rcvd".into(),
        Some(DeliveryState::Declared(d)) => format!("decl({})", lab(&d.txn_id)),
        Some(DeliveryState::TransactionalState(t)) => format!("tx({}:{})", lab(&t.txn_id), outcome_tok(&t.outcome)),
    }
}
fn msg_payload(m: &str) -> Vec<u8> {
    let msg = Message::builder().value(Value::String(m.to_string())).build();
    serde_amqp::to_vec(&Serializable(&msg)).unwrap()
}
fn txn_err(name: &str) -> definitions::Error {
    let c: ErrorCondition = match name {
        "UnknownId" => TransactionError::UnknownId.into(),
        "Rollback" => TransactionError::Rollback.into(),
        "Timeout" => TransactionError::Timeout.into(),
        _ => AmqpError::InternalError.into(),
    };
    definitions::Error::new(c, None, None)
}
const TXN_CONDS: [&str; 3] = ["UnknownId", "Rollback", "Timeout"];

// ==========================================================================================
// Part 1: listener under test
// ==========================================================================================

const BOGUS: [u8; 16] = [0xbb; 16];
/// handle of the second control link
const CTL2: u32 = 30;

fn never_id(k: usize) -> Vec<u8> {
    let mut v = vec![0xee; 15];
    v.push(k as u8);
    v
}

struct LPeer {
    peer: Peer,
    next_did: u32,
    ctl_n: u32,
    ctl_on: bool,
    /// the second control link (handle CTL2)
    ctl2_on: bool,
    /// handle of the current control link incarnation (0; a fresh one after a non-closing detach)
    ctl_handle: u32,
    /// handle of each control link incarnation, by number (1-based)
    ctl_handles: Vec<u32>,
    /// control link handles we detached without closing: the listener may re-attach them in order to close
    ctl_detached: Vec<u32>,
    /// ... and which of those the listener has re-attached (we answered): its closing detach is due
    ctl_reattached: Vec<u32>,
    links: [bool; 5],
    /// deliveries sent per link, and the credit left by the listener's last flow (a compliant sender)
    sent: [u32; 5],
    credit: [i64; 5],
    sess_alive: bool,
    end_sent: bool,
    close_sent: bool,
    declared: Vec<Option<Vec<u8>>>,
    /// delivery ids of the listener's own transfers (receiver link 4) not yet retired
    pending_ret: VecDeque<u32>,
    /// session transfer-id bookkeeping for the flows we write
    transfers_sent: u32,
    /// the listener's output handle -> our handle (learnt from its attach replies, by link name)
    handle_map: HashMap<usize, usize>,
}

impl LPeer {
    fn resolve(&self, r: &str) -> Vec<u8> {
        if r == "bogus" {
            return BOGUS.to_vec();
        }
        let k: usize = r.trim_start_matches('t').parse().unwrap_or(255);
        match self.declared.get(k) {
            Some(Some(id)) => id.clone(),
            _ => never_id(k),
        }
    }
    fn label(&self, id: &[u8]) -> String {
        if id == BOGUS {
            return "bogus".into();
        }
        for (k, d) in self.declared.iter().enumerate() {
            if d.as_deref() == Some(id) {
                return format!("t{}", k);
            }
        }
        if id.len() == 16 && id[..15] == [0xee; 15] {
            return format!("never{}", id[15]);
        }
        "x?".into()
    }
    async fn send(&mut self, p: Performative, payload: &[u8]) {
        self.peer.write(&frame_bytes(0, &p, payload)).await;
    }
    fn transfer(&mut self, handle: u32, state: Option<DeliveryState>, settled: bool, more: bool, did: u32) -> Performative {
        self.transfers_sent += 1;
        Performative::Transfer(Transfer {
            handle: handle.into(),
            delivery_id: Some(did),
            delivery_tag: Some(Binary::from(did.to_be_bytes().to_vec())),
            message_format: Some(0),
            settled: Some(settled),
            more,
            rcv_settle_mode: None,
            state,
            resume: false,
            aborted: false,
            batchable: false,
        })
    }
    /// wait until the listener is quiet, answering what a well-behaved client answers
    /// (detach for detach, end for end, close for close)
    async fn settle(&mut self, star: Option<u32>, new_decl: Option<usize>) -> Vec<String> {
        let mut toks = Vec::new();
        for _ in 0..8 {
            barrier().await;
            let ws = self.peer.drain().await;
            if ws.is_empty() {
                break;
            }
            for w in ws {
                match w {
                    Wire::Frame { perf, payload, .. } => match perf {
                        Performative::Attach(a) => {
                            let refused = match a.role {
                                Role::Receiver => a.target.is_none(),
                                Role::Sender => a.source.is_none(),
                            };
                            let is_ctl = a.name.starts_with("ctl");
                            let ours: Option<usize> = if is_ctl {
                                a.name[3..].parse::<usize>().ok().and_then(|n| self.ctl_handles.get(n).cloned()).map(|h| h as usize)
                            } else {
                                a.name[1..].parse().ok()
                            };
                            if let Some(o) = ours {
                                self.handle_map.insert(a.handle.0 as usize, o);
                            }
                            toks.push(format!("A{}{}", ours.map(|o| self.show(o)).unwrap_or("?".into()), if refused { "!" } else { "" }));
                            if let (true, Some(o)) = (is_ctl, ours) {
                                if self.ctl_detached.contains(&(o as u32)) && self.sess_alive {
                                    // the listener re-attaches the control link we detached without closing (in order
                                    // to close it): a well-behaved client answers the attach
                                    let mut back = a.clone();
                                    back.role = Role::Sender;
                                    back.handle = (o as u32).into();
                                    back.initial_delivery_count = Some(0);
                                    self.ctl_detached.retain(|x| *x as usize != o);
                                    self.ctl_reattached.push(o as u32);
                                    self.send(Performative::Attach(back), &[]).await;
                                }
                            }
                        }
                        Performative::Flow(f) => match f.handle {
                            Some(h) => {
                                if let Some(o) = self.handle_map.get(&(h.0 as usize)).cloned() {
                                    if (1..=3).contains(&o) {
                                        let c = f.delivery_count.unwrap_or(0).wrapping_add(f.link_credit.unwrap_or(0)).wrapping_sub(self.sent[o]);
                                        self.credit[o] = c as i32 as i64;
                                    }
                                }
                                toks.push(format!("F{}c{}", self.handle_map.get(&(h.0 as usize)).map(|o| self.show(*o)).unwrap_or(format!("?{}", h.0)), f.link_credit.unwrap_or(0)) + &format!("d{}n{}", f.delivery_count.map(|x| x.to_string()).unwrap_or("-".into()), f.next_incoming_id.map(|x| x.to_string()).unwrap_or("-".into())))
                            }
                            None => toks.push("F".into()),
                        },
                        Performative::Transfer(t) => {
                            if let Some(d) = t.delivery_id {
                                if !t.more {
                                    self.pending_ret.push_back(d);
                                }
                            }
                            toks.push(format!("T{}p{}", self.handle_map.get(&(t.handle.0 as usize)).map(|o| self.show(*o)).unwrap_or(format!("?{}", t.handle.0)), payload.len()));
                        }
                        Performative::Disposition(d) => {
                            if let (Some(k), Some(DeliveryState::Declared(dd))) = (new_decl, &d.state) {
                                if Some(d.first) == star && self.declared[k].is_none() {
                                    let id = dd.txn_id.to_vec();
                                    let dup = self.declared.iter().position(|x| x.as_deref() == Some(&id[..]));
                                    match dup {
                                        Some(j) => {
                                            toks.push(format!("P*=decl(t{}!dup){}", j, if d.settled { "s" } else { "u" }));
                                            continue;
                                        }
                                        None => self.declared[k] = Some(id),
                                    }
                                }
                            }
                            let id = if Some(d.first) == star && d.last.map(|l| l == d.first).unwrap_or(true) {
                                "*".to_string()
                            } else {
                                match d.last {
                                    Some(l) if l != d.first => format!("{}-{}", d.first, l),
                                    _ => d.first.to_string(),
                                }
                            };
                            let st = state_tok(&d.state, &|b| self.label(b));
                            toks.push(format!("P{}={}{}{}", id, st, if d.settled { "s" } else { "u" }, if matches!(d.role, Role::Sender) { "!snd" } else { "" }));
                        }
                        Performative::Detach(d) => {
                            toks.push(format!("D{}{}{}", self.handle_map.get(&(d.handle.0 as usize)).map(|o| self.show(*o)).unwrap_or(format!("?{}", d.handle.0)), if d.closed { "c" } else { "" }, d.error.as_ref().map(|e| format!("e({})", cond(&e.condition))).unwrap_or_default()));
                            let h = d.handle.0 as usize;
                            let ours = self.handle_map.remove(&h);
                            if let Some(o) = ours {
                                let is_ctl = o == 0 || o >= 5;
                                let still = if is_ctl { (self.ctl_on && self.ctl_handle as usize == o) || (self.ctl2_on && o as u32 == CTL2) || self.ctl_reattached.contains(&(o as u32)) } else { self.links[o] };
                                if still && self.sess_alive {
                                    if is_ctl {
                                        if o as u32 == CTL2 {
                                            self.ctl2_on = false;
                                        } else if self.ctl_handle as usize == o {
                                            self.ctl_on = false;
                                        }
                                        self.ctl_reattached.retain(|x| *x as usize != o);
                                    } else {
                                        self.links[o] = false;
                                    }
                                    self.send(Performative::Detach(Detach { handle: (o as u32).into(), closed: d.closed, error: None }), &[]).await;
                                }
                            }
                        }
                        Performative::End(e) => {
                            toks.push(format!("E{}", e.error.as_ref().map(|e| format!("e({})", cond(&e.condition))).unwrap_or_default()));
                            self.sess_alive = false;
                            if !self.end_sent {
                                self.end_sent = true;
                                self.send(Performative::End(End { error: None }), &[]).await;
                            }
                        }
                        Performative::Close(c) => {
                            toks.push(format!("C{}", c.error.as_ref().map(|e| format!("e({})", cond(&e.condition))).unwrap_or_default()));
                            self.sess_alive = false;
                            if !self.close_sent {
                                self.close_sent = true;
                                self.send(Performative::Close(Close { error: None }), &[]).await;
                            }
                        }
                        other => toks.push(wire_token(&Wire::Frame { channel: 0, perf: other, payload })),
                    },
                    other => toks.push(wire_token(&other)),
                }
            }
            if self.peer.eof {
                toks.push("EOF".into());
                self.sess_alive = false;
                break;
            }
        }
        merge_runs(toks)
    }
    /// control link handles are all shown as 0
    fn show(&self, ours: usize) -> String {
        if ours as u32 == CTL2 {
            "30".into()
        } else if ours >= 5 {
            "0".into()
        } else {
            ours.to_string()
        }
    }
    fn new(peer: Peer) -> Self {
        Self {
            peer,
            next_did: 0,
            ctl_n: 0,
            ctl_on: false,
            ctl2_on: false,
            ctl_handle: 0,
            ctl_handles: vec![0],
            ctl_detached: Vec::new(),
            ctl_reattached: Vec::new(),
            links: [false; 5],
            sent: [0; 5],
            credit: [0; 5],
            sess_alive: true,
            end_sent: false,
            close_sent: false,
            declared: Vec::new(),
            pending_ret: VecDeque::new(),
            transfers_sent: 0,
            handle_map: HashMap::new(),
        }
    }
}

/// `l1:m3,l1:m4,l1:m5` -> `l1:m3..5`
fn merge_app(evs: Vec<String>) -> Vec<String> {
    // the order in which the link tasks notice the end of their session depends on the hash order of the
    // session's link table: not an observation, put those events last, sorted
    let (msgs, mut others): (Vec<String>, Vec<String>) = evs.into_iter().partition(|e| e.contains(":m") || e.starts_with("snd"));
    others.sort();
    let evs: Vec<String> = msgs.into_iter().chain(others).collect();
    let mut out: Vec<String> = Vec::new();
    let mut run: Option<(String, u32, u32)> = None;
    let flush = |run: &mut Option<(String, u32, u32)>, out: &mut Vec<String>| {
        if let Some((l, a, b)) = run.take() {
            out.push(if a == b { format!("{}:m{}", l, a) } else { format!("{}:m{}..{}", l, a, b) });
        }
    };
    for e in evs {
        let parsed = e.split_once(":m").and_then(|(l, k)| k.parse::<u32>().ok().map(|k| (l.to_string(), k)));
        match parsed {
            Some((l, k)) => match &mut run {
                Some((rl, _, b)) if *rl == l && *b + 1 == k => *b = k,
                _ => {
                    flush(&mut run, &mut out);
                    run = Some((l, k, k));
                }
            },
            None => {
                flush(&mut run, &mut out);
                out.push(e);
            }
        }
    }
    flush(&mut run, &mut out);
    out
}
fn expand_app(app: &str) -> Vec<String> {
    let mut out = Vec::new();
    for ev in app.split(',').filter(|x| !x.is_empty()) {
        if let Some((l, r)) = ev.split_once(":m") {
            if let Some((a, b)) = r.split_once("..") {
                if let (Ok(a), Ok(b)) = (a.parse::<u32>(), b.parse::<u32>()) {
                    for k in a..=b {
                        out.push(format!("{}:m{}", l, k));
                    }
                    continue;
                }
            }
        }
        out.push(ev.to_string());
    }
    out
}

/// `P3=X,P4=X,P5=X` -> `P3..5=X`
fn merge_runs(toks: Vec<String>) -> Vec<String> {
    let mut out: Vec<String> = Vec::new();
    let mut run: Option<(u32, u32, String)> = None;
    let flush = |run: &mut Option<(u32, u32, String)>, out: &mut Vec<String>| {
        if let Some((a, b, x)) = run.take() {
            out.push(if a == b { format!("P{}={}", a, x) } else { format!("P{}..{}={}", a, b, x) });
        }
    };
    for t in toks {
        let parsed = t.strip_prefix('P').and_then(|r| r.split_once('=')).and_then(|(id, x)| id.parse::<u32>().ok().map(|i| (i, x.to_string())));
        match parsed {
            Some((i, x)) => match &mut run {
                Some((_, b, y)) if *b + 1 == i && *y == x => *b = i,
                _ => {
                    flush(&mut run, &mut out);
                    run = Some((i, i, x));
                }
            },
            None => {
                flush(&mut run, &mut out);
                out.push(t);
            }
        }
    }
    flush(&mut run, &mut out);
    out
}

pub fn run_case_l(line: &str) -> String {
    let script = line.strip_prefix("txn-l").unwrap().trim_start().strip_prefix('|').unwrap_or("").to_string();
    let acts: Vec<Vec<String>> = script.split(';').map(|s| s.split_whitespace().map(|x| x.to_string()).collect::<Vec<_>>()).filter(|v: &Vec<String>| !v.is_empty()).collect();
    paused_rt().block_on(async move {
        let (a, b) = tokio::io::duplex(1 << 22);
        let mut lp = LPeer::new(Peer::new(b));
        let app_log: Log = Arc::new(Mutex::new(Vec::new()));
        // ---- prelude ----
        let lt = tokio::spawn(async move {
            let acc = ConnectionAcceptor::builder().container_id("l").max_frame_size(65536u32).build();
            let mut conn = match acc.accept(a).await {
                Ok(c) => c,
                Err(e) => return Err(format!("accept:{}", err_name(&format!("{:?}", e)))),
            };
            let sacc = SessionAcceptor::builder().control_link_acceptor(ControlLinkAcceptor::default()).build();
            match sacc.accept(&mut conn).await {
                Ok(s) => Ok((conn, s)),
                Err(e) => Err(format!("session:{}", err_name(&format!("{:?}", e)))),
            }
        });
        lp.peer.write(&AMQP_HEADER).await;
        lp.peer.write(&frame_bytes(0, &peer_open(None, 10, 65536), &[])).await;
        barrier().await;
        let mut b = match peer_begin(None) {
            Performative::Begin(b) => b,
            _ => unreachable!(),
        };
        b.incoming_window = 100_000;
        b.outgoing_window = 100_000;
        lp.peer.write(&frame_bytes(0, &Performative::Begin(b), &[])).await;
        barrier().await;
        let (_conn, sess) = match tokio::time::timeout(Duration::from_secs(5), lt).await {
            Ok(Ok(Ok(x))) => x,
            Ok(Ok(Err(e))) => return format!("PRELUDE-FAILED {}", e),
            Ok(Err(_)) => return "PRELUDE-FAILED PANIC".to_string(),
            Err(_) => return "PRELUDE-FAILED timeout".to_string(),
        };
        let pre = tokens(&lp.peer.drain().await);
        let (snd_tx, snd_rx) = mpsc::unbounded_channel::<u32>();
        let app = tokio::spawn(app_task(sess, app_log.clone(), snd_rx));
        let mut out: Vec<String> = vec![pre];
        let mut snd_n = 0u32;
        // ---- script ----
        for act in &acts {
            let w: Vec<&str> = act.iter().map(|x| x.as_str()).collect();
            let mut star: Option<u32> = None;
            let mut new_decl: Option<usize> = None;
            let mut skipped = false;
            let mut nocredit = false;
            let mut burst_sent: Option<u32> = None;
            if w[0] == "decl" || w[0] == "decl2" {
                // every decl action owns one slot, even when it cannot be sent
                lp.declared.push(None);
            }
            if !lp.sess_alive {
                skipped = true;
            } else {
                match w[0] {
                    "ctl" => {
                        if lp.ctl_on {
                            skipped = true;
                        } else {
                            lp.ctl_n += 1;
                            lp.ctl_on = true;
                            lp.ctl_handles.push(lp.ctl_handle);
                            let at = Attach {
                                name: format!("ctl{}", lp.ctl_n),
                                handle: lp.ctl_handle.into(),
                                role: Role::Sender,
                                snd_settle_mode: SenderSettleMode::Unsettled,
                                rcv_settle_mode: ReceiverSettleMode::First,
                                source: Some(Box::new(Source::default())),
                                target: Some(Box::new(TargetArchetype::Coordinator(Coordinator { capabilities: None }))),
                                unsettled: None,
                                incomplete_unsettled: false,
                                initial_delivery_count: Some(0),
                                max_message_size: None,
                                offered_capabilities: None,
                                desired_capabilities: None,
                                properties: None,
                            };
                            lp.send(Performative::Attach(at), &[]).await;
                        }
                    }
                    "dctl" | "dctl0" => {
                        if !lp.ctl_on {
                            skipped = true;
                        } else {
                            lp.ctl_on = false;
                            let h = lp.ctl_handle;
                            lp.send(Performative::Detach(Detach { handle: h.into(), closed: w[0] == "dctl", error: None }), &[]).await;
                            if w[0] == "dctl0" {
                                // the handle stays in use by the detached (resumable) link
                                lp.ctl_detached.push(h);
                                lp.ctl_handle = 4 + lp.ctl_n;
                            }
                        }
                    }
                    "ctl2" => {
                        if lp.ctl2_on {
                            skipped = true;
                        } else {
                            lp.ctl_n += 1;
                            lp.ctl2_on = true;
                            lp.ctl_handles.push(CTL2);
                            let at = Attach {
                                name: format!("ctl{}", lp.ctl_n),
                                handle: CTL2.into(),
                                role: Role::Sender,
                                snd_settle_mode: SenderSettleMode::Unsettled,
                                rcv_settle_mode: ReceiverSettleMode::First,
                                source: Some(Box::new(Source::default())),
                                target: Some(Box::new(TargetArchetype::Coordinator(Coordinator { capabilities: None }))),
                                unsettled: None,
                                incomplete_unsettled: false,
                                initial_delivery_count: Some(0),
                                max_message_size: None,
                                offered_capabilities: None,
                                desired_capabilities: None,
                                properties: None,
                            };
                            lp.send(Performative::Attach(at), &[]).await;
                        }
                    }
                    "dctl2" => {
                        if !lp.ctl2_on {
                            skipped = true;
                        } else {
                            lp.ctl2_on = false;
                            lp.send(Performative::Detach(Detach { handle: CTL2.into(), closed: true, error: None }), &[]).await;
                        }
                    }
                    "lnk" => {
                        let i: usize = w[1].parse().unwrap();
                        if lp.links[i] {
                            skipped = true;
                        } else {
                            lp.links[i] = true;
                            let at = Attach {
                                name: format!("s{}", i),
                                handle: (i as u32).into(),
                                role: Role::Sender,
                                snd_settle_mode: SenderSettleMode::Mixed,
                                rcv_settle_mode: ReceiverSettleMode::First,
                                source: Some(Box::new(Source::builder().address("src").build())),
                                target: Some(Box::new(Target::builder().address(format!("q{}", i)).build().into())),
                                unsettled: None,
                                incomplete_unsettled: false,
                                initial_delivery_count: Some(0),
                                max_message_size: None,
                                offered_capabilities: None,
                                desired_capabilities: None,
                                properties: None,
                            };
                            lp.send(Performative::Attach(at), &[]).await;
                        }
                    }
                    "rlnk" => {
                        if lp.links[4] {
                            skipped = true;
                        } else {
                            lp.links[4] = true;
                            let at = Attach {
                                name: "r4".into(),
                                handle: 4u32.into(),
                                role: Role::Receiver,
                                snd_settle_mode: SenderSettleMode::Mixed,
                                rcv_settle_mode: ReceiverSettleMode::First,
                                source: Some(Box::new(Source::builder().address("q4").build())),
                                target: Some(Box::new(Target::builder().address("dst").build().into())),
                                unsettled: None,
                                incomplete_unsettled: false,
                                initial_delivery_count: None,
                                max_message_size: None,
                                offered_capabilities: None,
                                desired_capabilities: None,
                                properties: None,
                            };
                            lp.send(Performative::Attach(at), &[]).await;
                            let f = Flow {
                                next_incoming_id: Some(0),
                                incoming_window: 100_000,
                                next_outgoing_id: lp.transfers_sent,
                                outgoing_window: 100_000,
                                handle: Some(4u32.into()),
                                delivery_count: Some(0),
                                link_credit: Some(50),
                                available: None,
                                drain: false,
                                echo: false,
                                properties: None,
                            };
                            lp.send(Performative::Flow(f), &[]).await;
                        }
                    }
                    "snd" => {
                        if !lp.links[4] {
                            skipped = true;
                        } else {
                            let _ = snd_tx.send(snd_n);
                            snd_n += 1;
                        }
                    }
                    "ret" => match (lp.links[4], lp.pending_ret.pop_front()) {
                        (true, Some(d)) => {
                            let st = DeliveryState::TransactionalState(TransactionalState { txn_id: Binary::from(lp.resolve(w[1])), outcome: Some(Outcome::Accepted(Accepted {})) });
                            let disp = Disposition { role: Role::Receiver, first: d, last: None, settled: true, state: Some(st), batchable: false };
                            lp.send(Performative::Disposition(disp), &[]).await;
                        }
                        _ => skipped = true,
                    },
                    "decl" | "decl2" => {
                        let (on, handle) = if w[0] == "decl2" { (lp.ctl2_on, CTL2) } else { (lp.ctl_on, lp.ctl_handle) };
                        if !on {
                            skipped = true;
                        } else {
                            let did = lp.next_did;
                            lp.next_did += 1;
                            star = Some(did);
                            new_decl = Some(lp.declared.len() - 1);
                            let m = Message::builder().value(Declare { global_id: None }).build();
                            let pay = serde_amqp::to_vec(&Serializable(&m)).unwrap();
                            let t = lp.transfer(handle, None, false, false, did);
                            lp.send(t, &pay).await;
                        }
                    }
                    "commit" | "rollback" | "commitn" | "commit2" | "rollback2" => {
                        let (on, handle) = if w[0].ends_with('2') { (lp.ctl2_on, CTL2) } else { (lp.ctl_on, lp.ctl_handle) };
                        if !on {
                            skipped = true;
                        } else {
                            let did = lp.next_did;
                            lp.next_did += 1;
                            star = Some(did);
                            let fail = match w[0] {
                                "commit" | "commit2" => Some(false),
                                "rollback" | "rollback2" => Some(true),
                                _ => None,
                            };
                            let m = Message::builder().value(Discharge { txn_id: Binary::from(lp.resolve(w[1])), fail }).build();
                            let pay = serde_amqp::to_vec(&Serializable(&m)).unwrap();
                            let t = lp.transfer(handle, None, false, false, did);
                            lp.send(t, &pay).await;
                        }
                    }
                    "post" | "postm" => {
                        let i: usize = w[1].parse().unwrap();
                        if !lp.links[i] {
                            skipped = true;
                        } else if lp.credit[i] <= 0 {
                            nocredit = true;
                        } else {
                            let did = lp.next_did;
                            lp.next_did += 1;
                            lp.sent[i] += 1;
                            lp.credit[i] -= 1;
                            star = Some(did);
                            let state = if w[2] == "-" { None } else { Some(DeliveryState::TransactionalState(TransactionalState { txn_id: Binary::from(lp.resolve(w[2])), outcome: None })) };
                            let settled = w.get(4) == Some(&"s");
                            let pay = msg_payload(&format!("m{}", w[3]));
                            if w[0] == "post" {
                                let t = lp.transfer(i as u32, state, settled, false, did);
                                lp.send(t, &pay).await;
                            } else {
                                let cut = pay.len() / 2;
                                let t1 = lp.transfer(i as u32, state.clone(), settled, true, did);
                                lp.send(t1, &pay[..cut]).await;
                                let t2 = lp.transfer(i as u32, state, settled, false, did);
                                lp.send(t2, &pay[cut..]).await;
                            }
                        }
                    }
                    "posta" => {
                        // posta <i> <tx> <m>: a delivery begun (first half of the message, more = true) and then aborted by the sender:
                        // it must never reach the application and must leave the link usable
                        let i: usize = w[1].parse().unwrap();
                        if !lp.links[i] {
                            skipped = true;
                        } else if lp.credit[i] <= 0 {
                            nocredit = true;
                        } else {
                            let did = lp.next_did;
                            lp.next_did += 1;
                            let state = if w[2] == "-" { None } else { Some(DeliveryState::TransactionalState(TransactionalState { txn_id: Binary::from(lp.resolve(w[2])), outcome: None })) };
                            let pay = msg_payload(&format!("m{}", w[3]));
                            let cut = pay.len() / 2;
                            let t1 = lp.transfer(i as u32, state.clone(), false, true, did);
                            lp.send(t1, &pay[..cut]).await;
                            let mut t2 = lp.transfer(i as u32, state, false, false, did);
                            if let Performative::Transfer(t) = &mut t2 {
                                t.aborted = true;
                            }
                            lp.send(t2, &[]).await;
                        }
                    }
                    "burst" => {
                        // burst <i> <tx> <first message> <n>: as many of the n posts as the link credit allows
                        let i: usize = w[1].parse().unwrap();
                        if !lp.links[i] {
                            skipped = true;
                        } else {
                            let first: u32 = w[3].parse().unwrap();
                            let n: u32 = w[4].parse().unwrap();
                            let mut k = 0;
                            while k < n && lp.credit[i] > 0 {
                                let did = lp.next_did;
                                lp.next_did += 1;
                                lp.sent[i] += 1;
                                lp.credit[i] -= 1;
                                let state = if w[2] == "-" { None } else { Some(DeliveryState::TransactionalState(TransactionalState { txn_id: Binary::from(lp.resolve(w[2])), outcome: None })) };
                                let pay = msg_payload(&format!("m{}", first + k));
                                let t = lp.transfer(i as u32, state, false, false, did);
                                lp.send(t, &pay).await;
                                k += 1;
                            }
                            burst_sent = Some(k);
                        }
                    }
                    "dropsess" => {
                        lp.end_sent = true;
                        lp.send(Performative::End(End { error: None }), &[]).await;
                    }
                    "dropconn" => {
                        lp.peer.shutdown().await;
                    }
                    _ => panic!("bad txn-l action {:?}", w),
                }
            }
            let toks = lp.settle(star, new_decl).await;
            if (w[0] == "dropsess" || w[0] == "dropconn") && !skipped {
                lp.sess_alive = false;
            }
            let appv: Vec<String> = merge_app(std::mem::take(&mut *app_log.lock().unwrap()));
            let mark = if skipped {
                "skip".to_string()
            } else if nocredit {
                "nocredit".to_string()
            } else if let Some(k) = burst_sent {
                format!("burst={}{}", k, if toks.is_empty() { "" } else { "," })
            } else {
                String::new()
            };
            out.push(format!("{}{} / {}", mark, toks.join(","), appv.join(",")));
        }
        // ---- the bound: one virtual minute after the last action ----
        tokio::time::sleep(Duration::from_secs(60)).await;
        let toks = lp.settle(None, None).await;
        let appv: Vec<String> = merge_app(std::mem::take(&mut *app_log.lock().unwrap()));
        let fin = format!("# {} / {}", toks.join(","), appv.join(","));
        drop(snd_tx);
        drop(app);
        format!("{} {}", out.join(" ; "), fin)
    })
}

/// the listener's application: accepts every link; on a receiver runs recv() in a loop and accepts
/// what it gets; on a sender sends one message per command
async fn app_task(mut sess: ListenerSessionHandle, log: Log, mut snd_rx: mpsc::UnboundedReceiver<u32>) {
    let lacc = LinkAcceptor::new();
    let mut errors = 0;
    let mut sender: Option<Arc<tokio::sync::Mutex<Sender>>> = None;
    let mut accepting = true;
    loop {
        tokio::select! {
            biased;
            k = snd_rx.recv() => {
                match k {
                    None => return,
                    Some(k) => {
                        if let Some(s) = &sender {
                            let s = s.clone();
                            let log = log.clone();
                            tokio::spawn(async move {
                                let mut g = s.lock().await;
                                let r = g.send(format!("r{}", k)).await;
                                let txt = match r {
                                    Ok(o) => format!("snd{}=ok({})", k, outcome_tok(&Some(o))),
                                    Err(e) => format!("snd{}=err({})", k, err_name(&format!("{:?}", e))),
                                };
                                log.lock().unwrap().push(txt);
                            });
                        }
                    }
                }
            }
            r = lacc.accept(&mut sess), if accepting => {
                match r {
                    Ok(LinkEndpoint::Receiver(r)) => {
                        errors = 0;
                        tokio::spawn(recv_task(r, log.clone()));
                    }
                    Ok(LinkEndpoint::Sender(s)) => {
                        errors = 0;
                        sender = Some(Arc::new(tokio::sync::Mutex::new(s)));
                    }
                    Err(e) => {
                        let n = err_name(&format!("{:?}", e));
                        errors += 1;
                        log.lock().unwrap().push(format!("accept=err({})", n));
                        if n.contains("Stopped") || n.contains("IllegalSessionState") || errors >= 3 {
                            accepting = false;
                        }
                    }
                }
            }
        }
    }
}

async fn recv_task(mut r: Receiver, log: Log) {
    let name = r.name().to_string();
    let li = name.trim_start_matches('s').to_string();
    loop {
        match r.recv::<Body<Value>>().await {
            Ok(d) => {
                let m = match d.body() {
                    Body::Value(v) => match &v.0 {
                        Value::String(s) => s.clone(),
                        other => format!("?{:?}", other).replace([' ', ',', ';'], ""),
                    },
                    _ => "?".to_string(),
                };
                log.lock().unwrap().push(format!("l{}:{}", li, m));
                if let Err(e) = r.accept(&d).await {
                    log.lock().unwrap().push(format!("l{}:accerr({})", li, err_name(&format!("{:?}", e))));
                }
            }
            Err(e) => {
                log.lock().unwrap().push(format!("l{}:err({})", li, err_name(&format!("{:?}", e))));
                let _ = tokio::time::timeout(Duration::from_secs(1), r.close()).await;
                return;
            }
        }
    }
}

fn is_txn_cond(c: &str) -> bool {
    TXN_CONDS.contains(&c)
}
/// the condition inside `...(<cond>)...` of a token such as `P*=rej(UnknownId)s`, `D0ce(Rollback)`, `Ee(UnknownId)`
fn inner_cond(tok: &str, open: &str) -> Option<String> {
    let p = tok.find(open)? + open.len();
    let rest = &tok[p..];
    let e = rest.find(')')?;
    Some(rest[..e].to_string())
}

#[derive(Clone, Copy, PartialEq, Debug)]
enum TS {
    Live,
    Committed(usize),
    /// finished by a discharge (rollback, or a commit that was refused)
    Discharged,
    /// the control link or the session went away
    Gone,
    /// the control link was detached without closing
    Detached,
}
#[derive(Clone, Copy, PartialEq, Debug)]
enum MK {
    Plain,
    Tx(usize),
    /// posted under an id that was unknown or finished at the time
    Refusable,
}

/// The property, checked on the observed trace only
pub fn oracle_l(line: &str, trace: &str) -> Vec<String> {
    let mut v: Vec<String> = Vec::new();
    if trace.starts_with("PRELUDE-FAILED") || trace == "HARNESS-PANIC" {
        return v;
    }
    let script = line.strip_prefix("txn-l").unwrap().trim_start().strip_prefix('|').unwrap_or("");
    let acts: Vec<Vec<&str>> = script.split(';').map(|s| s.split_whitespace().collect::<Vec<_>>()).filter(|x: &Vec<&str>| !x.is_empty()).collect();
    let (body, fin) = match trace.split_once('#') {
        Some((b, f)) => (b, f),
        None => (trace, ""),
    };
    let mut steps: Vec<&str> = body.split(';').map(|x| x.trim()).collect();
    steps.push(fin.trim());
    // state of the specification
    let mut txns: Vec<Option<(TS, u32)>> = Vec::new(); // per decl action: state, control link incarnation
    let mut posts_of: HashMap<usize, Vec<(usize, String)>> = HashMap::new();
    let mut msgs: HashMap<String, (MK, usize, usize)> = HashMap::new(); // message -> kind, link, step posted
    let mut delivered: Vec<(String, usize, usize)> = Vec::new(); // message, link, step
    let mut alive = true;
    let mut ctl_inc = 0u32;
    let n = acts.len();
    for s in 1..=n + 1 {
        let st = steps.get(s).cloned().unwrap_or("");
        let (wire, app) = match st.split_once('/') {
            Some((w, a)) => (w.trim(), a.trim()),
            None => (st.trim(), ""),
        };
        let skipped = wire.starts_with("skip");
        let nocredit = wire.starts_with("nocredit");
        let mut wt: Vec<&str> = wire.trim_start_matches("skip").trim_start_matches("nocredit").split(',').filter(|x| !x.is_empty()).collect();
        let mut burst_sent: Option<u32> = None;
        if let Some(k) = wt.first().and_then(|t| t.strip_prefix("burst=")) {
            burst_sent = k.parse().ok();
            wt.remove(0);
        }
        let star: Vec<&str> = wt.iter().filter(|t| t.starts_with("P*=")).cloned().collect();
        // refusals the listener may use: a rejected disposition, a detach or an end carrying an error
        let mut refusal_conds: Vec<String> = Vec::new();
        for t in &wt {
            if t.starts_with("P*=rej(") {
                refusal_conds.extend(inner_cond(t, "rej("));
            } else if t.starts_with("P*=tx(") && t.contains(":rej(") {
                refusal_conds.extend(inner_cond(t, ":rej("));
            } else if (t.starts_with('D') || t.starts_with('E') || t.starts_with('C')) && t.contains("e(") {
                refusal_conds.extend(inner_cond(t, "e("));
            }
        }
        let ended_here = wt.iter().any(|t| t.starts_with('E') || t.starts_with('C')) ;
        let mut valid_action = true;
        if s <= n && (skipped || !alive) && acts[s - 1][0] == "decl" {
            txns.push(None);
        }
        if s <= n && !skipped && alive {
            let a = &acts[s - 1];
            let _ = nocredit;
            let tx_state = |r: &str, txns: &Vec<Option<(TS, u32)>>| -> Option<(usize, TS, u32)> {
                let k: usize = r.strip_prefix('t')?.parse().ok()?;
                let (ts, inc) = txns.get(k).cloned().flatten()?;
                Some((k, ts, inc))
            };
            match a[0] {
                "ctl" => ctl_inc += 1,
                "dctl" | "dctl0" => {
                    for t in txns.iter_mut().flatten() {
                        if t.0 == TS::Live && t.1 == ctl_inc {
                            t.0 = if a[0] == "dctl" { TS::Gone } else { TS::Detached };
                        }
                    }
                    // the listener has to let go of the link: its own detach must follow
                    if !wt.iter().any(|t| t.starts_with("D0")) {
                        v.push(format!("c18-hang: the control link was detached at step {} but the listener never detached its end", s));
                    }
                }
                "dropsess" | "dropconn" => {
                    alive = false;
                    for t in txns.iter_mut().flatten() {
                        if t.0 == TS::Live {
                            t.0 = TS::Gone;
                        }
                    }
                }
                "decl" => {
                    let mut got = None;
                    for t in &star {
                        if let Some(l) = inner_cond(t, "decl(") {
                            got = Some(l);
                        }
                    }
                    match got {
                        Some(l) if l.ends_with("!dup") => {
                            v.push(format!("c18-txn-id-reused: declare number {} was answered with the id of {} again", txns.len(), l.trim_end_matches("!dup")));
                            txns.push(None);
                        }
                        Some(_) => txns.push(Some((TS::Live, ctl_inc))),
                        None => {
                            txns.push(None);
                            if refusal_conds.is_empty() {
                                v.push(format!("c18-hang: declare number {} (step {}) was neither answered with declared nor refused", txns.len() - 1, s));
                            }
                        }
                    }
                }
                "commit" | "rollback" | "commitn" => {
                    let accepted = star.iter().any(|t| t.starts_with("P*=acc"));
                    match tx_state(a[1], &txns) {
                        Some((k, TS::Live, inc)) if inc == ctl_inc => {
                            if accepted {
                                txns[k] = Some((if a[0] == "rollback" { TS::Discharged } else { TS::Committed(s) }, inc));
                            } else {
                                txns[k] = Some((TS::Discharged, inc));
                                if refusal_conds.is_empty() {
                                    v.push(format!("c18-hang: the discharge of live transaction {} at step {} got no answer", a[1], s));
                                } else {
                                    v.push(format!("c18-discharge-refused: the first discharge of live transaction {} at step {} was refused ({})", a[1], s, refusal_conds.join("+")));
                                }
                            }
                        }
                        other => {
                            valid_action = false;
                            let was_discharged = matches!(other, Some((_, TS::Committed(_), _)) | Some((_, TS::Discharged, _)));
                            let zombie = matches!(other, Some((_, TS::Detached, _)));
                            if zombie && (accepted || !refusal_conds.iter().any(|c| is_txn_cond(c))) {
                                v.push(format!(
                                    "c18-ctl-detach-zombie: {} was declared on a control link that was detached (not closing) since; its discharge at step {} was answered [{}] instead of refused with a transaction error",
                                    a[1], s, wt.join(",")
                                ));
                            } else if accepted {
                                if was_discharged {
                                    v.push(format!("c18-double-discharge-applied: the second discharge of {} at step {} was answered with accepted", a[1], s));
                                } else {
                                    v.push(format!("c18-unknown-id-applied: the discharge of {} (not a live transaction of this control link) at step {} was answered with accepted", a[1], s));
                                }
                            } else if refusal_conds.is_empty() {
                                v.push(format!("c18-unknown-id-not-refused: the discharge of {} (unknown or finished) at step {} got no refusal", a[1], s));
                            } else if !refusal_conds.iter().any(|c| is_txn_cond(c)) {
                                v.push(format!("c18-unknown-id-not-refused: the discharge of {} at step {} was refused with {} which is not a transaction error", a[1], s, refusal_conds.join("+")));
                            }
                        }
                    }
                }
                "post" | "postm" | "burst" => {
                    let link: usize = a[1].parse().unwrap_or(0);
                    let first: u32 = a[3].parse().unwrap_or(0);
                    let want: u32 = if a[0] == "burst" { a[4].parse().unwrap_or(0) } else { 1 };
                    let count: u32 = if a[0] == "burst" { burst_sent.unwrap_or(0) } else if nocredit { 0 } else { 1 };
                    if count < want && a[2] == "-" {
                        // a compliant sender is out of credit: legitimate only while a live transaction holds
                        // (unreleased) posts of this link
                        let held = posts_of.iter().any(|(k, ps)| matches!(txns[*k], Some((TS::Live, _)) | Some((TS::Detached, _))) && ps.iter().any(|(l, _)| *l == link));
                        if !held {
                            v.push(format!(
                                "c18-nontx-affected: at step {} the sender has no credit left on link {} for the non-transactional message m{} although the application has taken everything and no live transaction holds posts of this link (credit used by discharged transactional posts was never given back)",
                                s, link, first + count
                            ));
                        }
                    }
                    for j in 0..count {
                        let m = format!("m{}", first + j);
                        if a[2] == "-" {
                            msgs.insert(m, (MK::Plain, link, s));
                            continue;
                        }
                        match tx_state(a[2], &txns) {
                            Some((k, TS::Live, _)) => {
                                msgs.insert(m.clone(), (MK::Tx(k), link, s));
                                posts_of.entry(k).or_default().push((link, m));
                            }
                            other => {
                                valid_action = false;
                                msgs.insert(m.clone(), (MK::Refusable, link, s));
                                if a[0] == "burst" {
                                    continue;
                                }
                                let zombie = matches!(other, Some((_, TS::Detached, _)));
                                let applied = star.iter().any(|t| t.starts_with("P*=acc") || (t.starts_with("P*=tx(") && t.contains(":acc")));
                                if zombie && !refusal_conds.iter().any(|c| is_txn_cond(c)) {
                                    v.push(format!(
                                        "c18-ctl-detach-zombie: {} was declared on a control link that was detached (not closing) since; message {} posted under it at step {} was answered [{}] instead of refused with a transaction error",
                                        a[2], m, s, wt.join(",")
                                    ));
                                } else if applied {
                                    v.push(format!("c18-unknown-id-applied: message {} posted at step {} under {} (unknown or finished) was acknowledged {}", m, s, a[2], star.join("+")));
                                } else if refusal_conds.is_empty() {
                                    v.push(format!("c18-unknown-id-not-refused: message {} posted at step {} under {} (unknown or finished) got no refusal", m, s, a[2]));
                                } else if !refusal_conds.iter().any(|c| is_txn_cond(c)) {
                                    v.push(format!("c18-unknown-id-not-refused: message {} posted at step {} under {} was refused with {} which is not a transaction error", m, s, a[2], refusal_conds.join("+")));
                                }
                            }
                        }
                    }
                }
                "ret" => {
                    if !matches!(tx_state(a[1], &txns), Some((_, TS::Live, _))) {
                        valid_action = false;
                    }
                }
                _ => {}
            }
            if valid_action && !refusal_conds.is_empty() && a[0] != "dropsess" && a[0] != "dropconn" {
                v.push(format!("c18-valid-action-refused: `{}` at step {} is a valid action but the listener answered {}", a.join(" "), s, wt.join(",")));
            }
        }
        if ended_here && alive {
            alive = false;
            for t in txns.iter_mut().flatten() {
                if t.0 == TS::Live {
                    t.0 = TS::Gone;
                }
            }
        }
        // what the application was handed during this step
        for ev in expand_app(app) {
            let ev = ev.as_str();
            let (l, m) = match ev.split_once(':') {
                Some((l, m)) if l.starts_with('l') => (l[1..].parse::<usize>().unwrap_or(99), m),
                _ => continue,
            };
            if m.starts_with("err(") || m.starts_with("accerr(") {
                continue;
            }
            if delivered.iter().any(|(x, _, _)| x == m) {
                v.push(format!("c18-delivered-twice: message {} was handed to the application again at step {}", m, s));
            }
            delivered.push((m.to_string(), l, s));
            match msgs.get(m) {
                None => v.push(format!("c18-phantom-delivery: the application got {} on link {} at step {} which was never posted", m, l, s)),
                Some((kind, link, ps)) => {
                    if *link != l {
                        v.push(format!("c18-phantom-delivery: {} was posted on link {} but delivered on link {}", m, link, l));
                    }
                    match kind {
                        MK::Plain => {
                            if s != *ps {
                                v.push(format!("c18-nontx-affected: the non-transactional message {} posted at step {} was delivered only at step {}", m, ps, s));
                            }
                        }
                        MK::Refusable => v.push(format!("c18-unknown-id-applied: message {} posted at step {} under an unknown or finished id was handed to the application at step {}", m, ps, s)),
                        MK::Tx(k) => match txns[*k] {
                            Some((TS::Committed(c), _)) if c <= s => {}
                            Some((ts, _)) => v.push(format!(
                                "c18-visible-before-commit: message {} posted at step {} under t{} was handed to the application at step {} while the transaction is {:?}",
                                m, ps, k, s, ts
                            )),
                            None => {}
                        },
                    }
                }
            }
        }
    }
    // after a successful commit everything is delivered, in posting order
    for (k, t) in txns.iter().enumerate() {
        if let Some((TS::Committed(c), _)) = t {
            let posted = posts_of.get(&k).cloned().unwrap_or_default();
            for (link, m) in &posted {
                if !delivered.iter().any(|(x, _, _)| x == m) {
                    v.push(format!("c18-lost-after-commit: t{} was committed at step {} but message {} posted on link {} was never handed to the application", k, c, m, link));
                }
            }
            for link in 1..=3usize {
                let want: Vec<&String> = posted.iter().filter(|(l, m)| *l == link && delivered.iter().any(|(x, _, _)| x == m)).map(|(_, m)| m).collect();
                let got: Vec<&String> = delivered.iter().filter(|(m, _, _)| want.contains(&m)).map(|(m, _, _)| m).collect();
                let mut got_dedup: Vec<&String> = Vec::new();
                for g in got {
                    if !got_dedup.contains(&g) {
                        got_dedup.push(g);
                    }
                }
                if want != got_dedup {
                    v.push(format!("c18-order: t{} link {}: posted {:?} but delivered {:?}", k, link, want, got_dedup));
                }
            }
        }
    }
    // plain messages are never held back
    let mut plain: Vec<(&String, &(MK, usize, usize))> = msgs.iter().filter(|(_, x)| x.0 == MK::Plain).collect();
    plain.sort_by(|a, b| (a.1 .2, a.0).cmp(&(b.1 .2, b.0)));
    for (m, (_, link, ps)) in plain {
        if !delivered.iter().any(|(x, _, _)| x == m) {
            v.push(format!("c18-nontx-affected: the non-transactional message {} posted on link {} at step {} was never handed to the application", m, link, ps));
        }
    }
    if trace.contains("PANIC") {
        v.push("c18-panic: a task of the listener panicked".into());
    }
    v
}

// ---------- generation (listener) ----------

const L_ALPHABET: [&str; 19] = [
    "decl",
    "post 1 t0 #",
    "post 2 t0 #",
    "post 1 t1 #",
    "post 2 t1 # s",
    "postm 1 t0 #",
    "post 1 - #",
    "post 1 bogus #",
    "commit t0",
    "commit t1",
    "rollback t0",
    "rollback t1",
    "commitn t0",
    "commit bogus",
    "rollback bogus",
    "dctl",
    "ctl",
    "dropsess",
    "dropconn",
];
const L_PREFIXES: [&str; 3] = ["ctl ; lnk 1 ; lnk 2", "ctl ; lnk 1 ; lnk 2 ; decl", "ctl ; lnk 1 ; lnk 2 ; decl ; decl"];

/// the idx-th script of the systematic family: prefix (0, 1 or 2 declares) then every sequence over
/// the alphabet, shortest first
pub fn enum_case_l(mut idx: u64) -> String {
    let pre = L_PREFIXES[(idx % 3) as usize];
    idx /= 3;
    let k = L_ALPHABET.len() as u64;
    let mut len = 1u32;
    loop {
        let c = k.pow(len);
        if idx < c || len >= 7 {
            break;
        }
        idx -= c;
        len += 1;
    }
    let mut acts: Vec<String> = Vec::new();
    for pos in 0..len {
        let a = L_ALPHABET[(idx % k) as usize];
        idx /= k;
        acts.push(a.replace('#', &pos.to_string()));
    }
    format!("txn-l | {} ; {}", pre, acts.join(" ; "))
}
/// number of scripts of the systematic family up to the given length
pub fn enum_size_l(max_len: u32) -> u64 {
    let k = L_ALPHABET.len() as u64;
    3 * (1..=max_len).map(|l| k.pow(l)).sum::<u64>()
}

pub fn gen_case_l(r: &mut Rng, thorough: bool) -> String {
    // short scripts drawn from the systematic family (length 4..6)
    if r.below(3) == 0 {
        let lo = enum_size_l(3);
        let hi = enum_size_l(6);
        return enum_case_l(lo + r.below(hi - lo));
    }
    let mut acts: Vec<String> = vec!["ctl".into()];
    let nlinks = r.range(1, 3) as usize;
    let mut attached = vec![false; 5];
    for i in 1..=nlinks {
        if r.below(4) != 0 {
            acts.push(format!("lnk {}", i));
            attached[i] = true;
        }
    }
    let n = r.range(6, if thorough { 40 } else { 22 });
    let mut ndecl = 0usize;
    let mut live: Vec<usize> = Vec::new();
    let mut done: Vec<usize> = Vec::new();
    let mut m = 0u32;
    let mut ctl = true;
    let mut rl = false;
    let mut outstanding = 0u32;
    let pick_tx = |r: &mut Rng, live: &Vec<usize>, done: &Vec<usize>, ndecl: usize| -> String {
        match r.below(30) {
            0 => "bogus".to_string(),
            1 => format!("t{}", ndecl + r.below(2) as usize),
            2..=4 if !done.is_empty() => format!("t{}", r.pick(done)),
            _ if !live.is_empty() => format!("t{}", r.pick(live)),
            _ => format!("t{}", r.below(3)),
        }
    };
    for _ in 0..n {
        if live.is_empty() && ctl && r.below(5) != 0 {
            acts.push("decl".into());
            live.push(ndecl);
            ndecl += 1;
            continue;
        }
        match r.below(40) {
            0..=5 => {
                if live.len() < 3 || r.below(4) == 0 {
                    acts.push("decl".into());
                    if ctl {
                        live.push(ndecl);
                    }
                    ndecl += 1;
                }
            }
            6..=19 => {
                let i = r.range(1, nlinks as u64) as usize;
                if !attached[i] {
                    acts.push(format!("lnk {}", i));
                    attached[i] = true;
                }
                let tx = if r.below(4) == 0 { "-".to_string() } else { pick_tx(r, &live, &done, ndecl) };
                match r.below(8) {
                    0 => acts.push(format!("postm {} {} {}", i, tx, m)),
                    1 | 2 => acts.push(format!("post {} {} {} s", i, tx, m)),
                    _ => acts.push(format!("post {} {} {}", i, tx, m)),
                }
                m += 1;
            }
            20..=27 => {
                let tx = pick_tx(r, &live, &done, ndecl);
                let verb = *r.pick(&["commit", "commit", "rollback", "rollback", "commitn"]);
                acts.push(format!("{} {}", verb, tx));
                if let Some(k) = tx.strip_prefix('t').and_then(|x| x.parse::<usize>().ok()) {
                    if ctl {
                        if let Some(p) = live.iter().position(|x| *x == k) {
                            live.remove(p);
                            done.push(k);
                        }
                    }
                }
            }
            28 | 29 => {
                if ctl {
                    acts.push(if r.below(3) == 0 { "dctl0".into() } else { "dctl".into() });
                    ctl = false;
                    done.append(&mut live);
                } else {
                    acts.push("ctl".into());
                    ctl = true;
                }
            }
            30 => {
                if !ctl {
                    acts.push("ctl".into());
                    ctl = true;
                }
            }
            31 => match r.below(6) {
                0 | 1 => acts.push("dropsess".into()),
                2 => acts.push("dropconn".into()),
                _ => {}
            },
            32 | 33 => {
                if !rl {
                    acts.push("rlnk".into());
                    rl = true;
                }
                acts.push("snd".into());
                outstanding += 1;
            }
            34..=36 => {
                if rl && outstanding > 0 {
                    acts.push(format!("ret {}", pick_tx(r, &live, &done, ndecl)));
                }
            }
            _ => {
                let i = r.range(1, 3) as usize;
                if !attached[i] && i <= nlinks {
                    acts.push(format!("lnk {}", i));
                    attached[i] = true;
                }
            }
        }
    }
    format!("txn-l | {}", acts.join(" ; "))
}

// ==========================================================================================
// Part 2: controller under test
// ==========================================================================================

#[derive(Default)]
struct CShared {
    wire: Vec<String>,
    /// what the coordinator does with the next declare / discharge / post
    resp: Option<String>,
}

fn disposition(first: u32, state: DeliveryState) -> Performative {
    Performative::Disposition(Disposition { role: Role::Receiver, first, last: None, settled: true, state: Some(state), batchable: false })
}

/// what a control or data transfer carries: `decl`, `disch(<hex>:<fail>)`, `m<k>` or `?`
fn body_tok(payload: &[u8]) -> String {
    let m = match serde_amqp::from_slice::<Deserializable<Message<Body<Value>>>>(payload) {
        Ok(m) => m.0,
        Err(_) => return "?undecodable".into(),
    };
    let v = match &m.body {
        Body::Value(v) => &v.0,
        _ => return "?body".into(),
    };
    match v {
        Value::String(s) => s.clone(),
        Value::Described(d) => {
            let code = match &d.descriptor {
                serde_amqp::descriptor::Descriptor::Code(c) => *c,
                serde_amqp::descriptor::Descriptor::Name(n) => match n.as_str() {
                    "amqp:declare:list" => 0x31,
                    "amqp:discharge:list" => 0x32,
                    _ => 0,
                },
            };
            let fields: Vec<Value> = match &d.value {
                Value::List(l) => l.clone(),
                _ => Vec::new(),
            };
            match code {
                0x31 => match fields.first() {
                    None | Some(Value::Null) => "decl".into(),
                    Some(_) => "decl(global)".into(),
                },
                0x32 => {
                    let id = match fields.first() {
                        Some(Value::Binary(b)) => hex(b),
                        _ => "?".into(),
                    };
                    let fail = match fields.get(1) {
                        Some(Value::Bool(true)) => "1",
                        Some(Value::Bool(false)) => "0",
                        None | Some(Value::Null) => "-",
                        _ => "?",
                    };
                    format!("disch({}:{})", id, fail)
                }
                _ => "?described".into(),
            }
        }
        _ => "?value".into(),
    }
}

/// The scripted coordinator: answers open/begin/attach by itself, declares / discharges / posts as `resp` says
async fn coord_task(io: tokio::io::DuplexStream, sh: Arc<Mutex<CShared>>) {
    let (mut rd, mut wr) = tokio::io::split(io);
    let mut parser = Parser::new();
    let mut ctl_handles: Vec<u32> = Vec::new();
    let mut rcv_handle: Option<u32> = None;
    let mut rcv_sent = false;
    let mut detached_by_us: Vec<u32> = Vec::new();
    let mut our_transfers = 0u32;
    let mut buf = vec![0u8; 65536];
    loop {
        let n = match rd.read(&mut buf).await {
            Ok(0) | Err(_) => return,
            Ok(n) => n,
        };
        for w in parser.feed(&buf[..n]) {
            let mut outb: Vec<u8> = Vec::new();
            match w {
                Wire::Header(_) => outb.extend_from_slice(&AMQP_HEADER),
                Wire::Frame { perf, payload, .. } => match perf {
                    Performative::Open(_) => outb.extend(frame_bytes(0, &peer_open(None, 10, 65536), &[])),
                    Performative::Begin(_) => {
                        let mut b = match peer_begin(Some(0)) {
                            Performative::Begin(b) => b,
                            _ => unreachable!(),
                        };
                        b.incoming_window = 100_000;
                        b.outgoing_window = 100_000;
                        outb.extend(frame_bytes(0, &Performative::Begin(b), &[]));
                    }
                    Performative::Attach(a) => {
                        let h = a.handle.0;
                        let is_ctl = a.target.as_ref().map(|t| matches!(**t, TargetArchetype::Coordinator(_))).unwrap_or(false);
                        let kind = if is_ctl {
                            ctl_handles.push(h);
                            "c"
                        } else if matches!(a.role, Role::Sender) {
                            "s"
                        } else {
                            rcv_handle = Some(h);
                            "r"
                        };
                        sh.lock().unwrap().wire.push(format!("A{}{}", h, kind));
                        let mut back = a.clone();
                        back.role = if matches!(a.role, Role::Sender) { Role::Receiver } else { Role::Sender };
                        back.initial_delivery_count = if matches!(a.role, Role::Sender) { None } else { Some(0) };
                        outb.extend(frame_bytes(0, &Performative::Attach(back), &[]));
                        if matches!(a.role, Role::Sender) {
                            let f = Flow {
                                next_incoming_id: Some(0),
                                incoming_window: 100_000,
                                next_outgoing_id: our_transfers,
                                outgoing_window: 100_000,
                                handle: Some(h.into()),
                                delivery_count: Some(a.initial_delivery_count.unwrap_or(0)),
                                link_credit: Some(100),
                                available: None,
                                drain: false,
                                echo: false,
                                properties: None,
                            };
                            outb.extend(frame_bytes(0, &Performative::Flow(f), &[]));
                        }
                    }
                    Performative::Flow(f) => {
                        if let (Some(h), Some(rh)) = (f.handle.as_ref().map(|h| h.0), rcv_handle) {
                            if h == rh && !rcv_sent && f.link_credit.unwrap_or(0) >= 3 {
                                rcv_sent = true;
                                for k in 0..3u32 {
                                    let t = Transfer {
                                        handle: rh.into(),
                                        delivery_id: Some(k),
                                        delivery_tag: Some(Binary::from(vec![b'r', k as u8])),
                                        message_format: Some(0),
                                        settled: Some(false),
                                        more: false,
                                        rcv_settle_mode: None,
                                        state: None,
                                        resume: false,
                                        aborted: false,
                                        batchable: false,
                                    };
                                    our_transfers += 1;
                                    outb.extend(frame_bytes(0, &Performative::Transfer(t), &msg_payload(&format!("r{}", k))));
                                }
                            }
                        }
                    }
                    Performative::Transfer(t) => {
                        let h = t.handle.0;
                        let did = t.delivery_id.unwrap_or(0);
                        let body = body_tok(&payload);
                        let st = state_tok(&t.state, &|b| hex(b));
                        let pres = if t.settled == Some(true) { "!settled" } else { "" };
                        let resp = sh.lock().unwrap().resp.take().unwrap_or_else(|| "?".into());
                        let is_ctl = ctl_handles.contains(&h);
                        if is_ctl {
                            sh.lock().unwrap().wire.push(format!("T{}:{}{}{}", h, body, if t.state.is_some() { format!(":{}", st) } else { String::new() }, pres));
                        } else {
                            sh.lock().unwrap().wire.push(format!("T{}:{}:{}{}", h, body, st, pres));
                        }
                        let posted_id: Option<Binary> = match &t.state {
                            Some(DeliveryState::TransactionalState(ts)) => Some(ts.txn_id.clone()),
                            _ => None,
                        };
                        let (kind, arg) = match resp.split_once(':') {
                            Some((k, a)) => (k.to_string(), a.to_string()),
                            None => (resp.clone(), String::new()),
                        };
                        let reply: Option<Performative> = match kind.as_str() {
                            "D" => Some(disposition(did, DeliveryState::Declared(Declared { txn_id: Binary::from(unhex(&arg)) }))),
                            "A" => Some(disposition(did, DeliveryState::Accepted(Accepted {}))),
                            "R" => Some(disposition(did, DeliveryState::Rejected(Rejected { error: Some(txn_err(&arg)) }))),
                            "TA" => Some(disposition(did, DeliveryState::TransactionalState(TransactionalState { txn_id: posted_id.unwrap_or_else(|| Binary::from(vec![])), outcome: Some(Outcome::Accepted(Accepted {})) }))),
                            "TR" => Some(disposition(
                                did,
                                DeliveryState::TransactionalState(TransactionalState { txn_id: posted_id.unwrap_or_else(|| Binary::from(vec![])), outcome: Some(Outcome::Rejected(Rejected { error: Some(txn_err(&arg)) })) }),
                            )),
                            "L" => Some(disposition(did, DeliveryState::Released(fe2o3_amqp::types::messaging::Released {}))),
                            "N" => {
                                detached_by_us.push(h);
                                Some(Performative::Detach(Detach { handle: h.into(), closed: true, error: Some(txn_err("Timeout")) }))
                            }
                            _ => None,
                        };
                        if let Some(r) = reply {
                            outb.extend(frame_bytes(0, &r, &[]));
                        }
                    }
                    Performative::Disposition(d) => {
                        let st = state_tok(&d.state, &|b| hex(b));
                        sh.lock().unwrap().wire.push(format!("P:{}={}{}", d.first, st, if d.settled { "s" } else { "u" }));
                    }
                    Performative::Detach(d) => {
                        let h = d.handle.0;
                        sh.lock().unwrap().wire.push(format!("D{}{}{}", h, if d.closed { "c" } else { "" }, d.error.as_ref().map(|e| format!("e({})", cond(&e.condition))).unwrap_or_default()));
                        if let Some(p) = detached_by_us.iter().position(|x| *x == h) {
                            detached_by_us.remove(p);
                        } else {
                            outb.extend(frame_bytes(0, &Performative::Detach(Detach { handle: h.into(), closed: d.closed, error: None }), &[]));
                        }
                        ctl_handles.retain(|x| *x != h);
                    }
                    Performative::End(_) => {
                        sh.lock().unwrap().wire.push("E".into());
                        outb.extend(frame_bytes(0, &Performative::End(End { error: None }), &[]));
                    }
                    Performative::Close(_) => {
                        sh.lock().unwrap().wire.push("C".into());
                        outb.extend(frame_bytes(0, &Performative::Close(Close { error: None }), &[]));
                    }
                },
                Wire::Empty { .. } => {}
                other => sh.lock().unwrap().wire.push(wire_token(&other)),
            }
            if !outb.is_empty() && wr.write_all(&outb).await.is_err() {
                return;
            }
        }
    }
}

enum Txn {
    Shared(Transaction<'static>),
    Owned(OwnedTransaction),
}

fn fmt_cse(e: &ControllerSendError) -> String {
    match e {
        ControllerSendError::Rejected(r) => format!("Rejected:{}", ocond(&r.error)),
        other => err_name(&format!("{:?}", other)),
    }
}
fn fmt_ode(e: &OwnedDischargeError) -> String {
    match e {
        OwnedDischargeError::ControllerSendError(c) => fmt_cse(c),
        OwnedDischargeError::DetachError(d) => format!("DetachError.{}", err_name(&format!("{:?}", d))),
    }
}
fn fmt_post(r: &Result<Outcome, PostError>) -> String {
    match r {
        Ok(o) => format!("ok({})", outcome_tok(&Some(o.clone()))),
        Err(e) => format!("err({})", err_name(&format!("{:?}", e))),
    }
}

const STEP: Duration = Duration::from_secs(60);

pub fn run_case_c(line: &str) -> String {
    let script = line.strip_prefix("txn-c").unwrap().trim_start().strip_prefix('|').unwrap_or("").to_string();
    let ops: Vec<Vec<String>> = script.split(';').map(|s| s.split_whitespace().map(|x| x.to_string()).collect::<Vec<_>>()).filter(|v: &Vec<String>| !v.is_empty()).collect();
    paused_rt().block_on(async move {
        let (a, b) = tokio::io::duplex(1 << 22);
        let sh = Arc::new(Mutex::new(CShared::default()));
        let _pt = tokio::spawn(coord_task(b, sh.clone()));
        let mut conn = match tokio::time::timeout(STEP, Connection::builder().container_id("c").max_frame_size(65536u32).open_with_stream(a)).await {
            Ok(Ok(c)) => c,
            Ok(Err(e)) => return format!("PRELUDE-FAILED open {}", err_name(&format!("{:?}", e))),
            Err(_) => return "PRELUDE-FAILED open timeout".into(),
        };
        let mut sess = match tokio::time::timeout(STEP, Session::begin(&mut conn)).await {
            Ok(Ok(s)) => s,
            Ok(Err(e)) => return format!("PRELUDE-FAILED begin {}", err_name(&format!("{:?}", e))),
            Err(_) => return "PRELUDE-FAILED begin timeout".into(),
        };
        barrier().await;
        sh.lock().unwrap().wire.clear();
        let mut out: Vec<String> = vec!["ok".into()];
        let mut controller: Option<&'static Controller> = None;
        let mut senders: HashMap<usize, Sender> = HashMap::new();
        let mut receiver: Option<Receiver> = None;
        let mut txns: Vec<Option<Txn>> = Vec::new();
        let mut hung = false;
        for op in &ops {
            let w: Vec<&str> = op.iter().map(|x| x.as_str()).collect();
            if matches!(w[0], "decl" | "odecl") {
                txns.push(None);
            }
            if hung {
                out.push("notrun / ".into());
                continue;
            }
            macro_rules! bounded {
                ($fut:expr) => {
                    match tokio::time::timeout(STEP, $fut).await {
                        Ok(x) => Some(x),
                        Err(_) => {
                            hung = true;
                            None
                        }
                    }
                };
            }
            let res: String = match w[0] {
                "ctl" => {
                    if controller.is_some() {
                        "skip".into()
                    } else {
                        match bounded!(Controller::attach(&mut sess, "ctl")) {
                            Some(Ok(c)) => {
                                controller = Some(Box::leak(Box::new(c)));
                                "ok".into()
                            }
                            Some(Err(e)) => format!("err({})", err_name(&format!("{:?}", e))),
                            None => "HANG".into(),
                        }
                    }
                }
                "snd" => {
                    let i: usize = w[1].parse().unwrap();
                    if senders.contains_key(&i) {
                        "skip".into()
                    } else {
                        match bounded!(Sender::attach(&mut sess, format!("s{}", i), format!("q{}", i))) {
                            Some(Ok(s)) => {
                                senders.insert(i, s);
                                "ok".into()
                            }
                            Some(Err(e)) => format!("err({})", err_name(&format!("{:?}", e))),
                            None => "HANG".into(),
                        }
                    }
                }
                "rcv" => {
                    if receiver.is_some() {
                        "skip".into()
                    } else {
                        match bounded!(Receiver::attach(&mut sess, "r", "q")) {
                            Some(Ok(r)) => {
                                receiver = Some(r);
                                "ok".into()
                            }
                            Some(Err(e)) => format!("err({})", err_name(&format!("{:?}", e))),
                            None => "HANG".into(),
                        }
                    }
                }
                "decl" => match controller {
                    None => "skip".into(),
                    Some(c) => {
                        sh.lock().unwrap().resp = Some(w[1].to_string());
                        match bounded!(Transaction::declare(c, None)) {
                            Some(Ok(mut t)) => {
                                t.set_rollback_on_drop_trials(0);
                                let r = format!("ok({})", hex(t.txn_id()));
                                *txns.last_mut().unwrap() = Some(Txn::Shared(t));
                                r
                            }
                            Some(Err(e)) => format!("err({})", fmt_cse(&e)),
                            None => "HANG".into(),
                        }
                    }
                },
                "odecl" => {
                    sh.lock().unwrap().resp = Some(w[1].to_string());
                    let name = format!("own{}", txns.len());
                    match bounded!(OwnedTransaction::declare(&mut sess, name, None)) {
                        Some(Ok(mut t)) => {
                            t.set_rollback_on_drop_trials(0);
                            let r = format!("ok({})", hex(t.txn_id()));
                            *txns.last_mut().unwrap() = Some(Txn::Owned(t));
                            r
                        }
                        Some(Err(OwnedDeclareError::ControllerSendError(e))) => format!("err({})", fmt_cse(&e)),
                        Some(Err(OwnedDeclareError::AttachError(e))) => format!("err(Attach.{})", err_name(&format!("{:?}", e))),
                        None => "HANG".into(),
                    }
                }
                "post" => {
                    let k: usize = w[1].parse().unwrap();
                    let i: usize = w[2].parse().unwrap();
                    match (txns.get(k).and_then(|t| t.as_ref()), senders.get_mut(&i)) {
                        (Some(t), Some(s)) => {
                            sh.lock().unwrap().resp = Some(w[4].to_string());
                            let body = format!("m{}", w[3]);
                            let r = match t {
                                Txn::Shared(t) => bounded!(t.post(s, body)),
                                Txn::Owned(t) => bounded!(t.post(s, body)),
                            };
                            match r {
                                Some(r) => fmt_post(&r),
                                None => "HANG".into(),
                            }
                        }
                        _ => "skip".into(),
                    }
                }
                "commit" | "rollback" => {
                    let k: usize = w[1].parse().unwrap();
                    match txns.get_mut(k).and_then(|t| t.take()) {
                        None => "skip".into(),
                        Some(t) => {
                            sh.lock().unwrap().resp = Some(w[2].to_string());
                            let commit = w[0] == "commit";
                            match t {
                                Txn::Shared(t) => {
                                    let r = if commit { bounded!(t.commit()) } else { bounded!(t.rollback()) };
                                    match r {
                                        Some(Ok(())) => "ok".into(),
                                        Some(Err(e)) => format!("err({})", fmt_cse(&e)),
                                        None => "HANG".into(),
                                    }
                                }
                                Txn::Owned(t) => {
                                    let r = if commit { bounded!(t.commit()) } else { bounded!(t.rollback()) };
                                    match r {
                                        Some(Ok(())) => "ok".into(),
                                        Some(Err(e)) => format!("err({})", fmt_ode(&e)),
                                        None => "HANG".into(),
                                    }
                                }
                            }
                        }
                    }
                }
                "disch" => {
                    // the discharge through the public trait method: the handle stays with the application
                    let k: usize = w[1].parse().unwrap();
                    let fail = w[2] == "1";
                    match txns.get_mut(k).and_then(|t| t.as_mut()) {
                        None => "skip".into(),
                        Some(t) => {
                            sh.lock().unwrap().resp = Some(w[3].to_string());
                            match t {
                                Txn::Shared(t) => match bounded!(t.discharge(fail)) {
                                    Some(Ok(())) => "ok".into(),
                                    Some(Err(e)) => format!("err({})", fmt_cse(&e)),
                                    None => "HANG".into(),
                                },
                                Txn::Owned(t) => match bounded!(t.discharge(fail)) {
                                    Some(Ok(())) => "ok".into(),
                                    Some(Err(e)) => format!("err({})", fmt_ode(&e)),
                                    None => "HANG".into(),
                                },
                            }
                        }
                    }
                }
                "drop" => {
                    let k: usize = w[1].parse().unwrap();
                    match txns.get_mut(k).and_then(|t| t.take()) {
                        None => "skip".into(),
                        Some(t) => {
                            sh.lock().unwrap().resp = Some("A".to_string());
                            drop(t);
                            "dropped".into()
                        }
                    }
                }
                "racc" | "rrej" | "rrel" => {
                    let k: usize = w[1].parse().unwrap();
                    match (txns.get(k).and_then(|t| t.as_ref()), receiver.as_mut()) {
                        (Some(t), Some(rc)) => match bounded!(rc.recv::<Value>()) {
                            Some(Ok(d)) => {
                                macro_rules! retire {
                                    ($t:expr) => {
                                        match w[0] {
                                            "racc" => bounded!($t.accept(rc, &d)),
                                            "rrej" => bounded!($t.reject(rc, &d, None)),
                                            _ => bounded!($t.release(rc, &d)),
                                        }
                                    };
                                }
                                let r = match t {
                                    Txn::Shared(t) => retire!(t),
                                    Txn::Owned(t) => retire!(t),
                                };
                                match r {
                                    Some(Ok(())) => "ok".into(),
                                    Some(Err(e)) => format!("err({})", err_name(&format!("{:?}", e))),
                                    None => "HANG".into(),
                                }
                            }
                            Some(Err(e)) => format!("recverr({})", err_name(&format!("{:?}", e))),
                            None => {
                                // nothing to retire (all three deliveries taken): not a hang of the API under test
                                hung = false;
                                "skip".into()
                            }
                        },
                        _ => "skip".into(),
                    }
                }
                _ => panic!("bad txn-c op {:?}", w),
            };
            barrier().await;
            let wire: Vec<String> = std::mem::take(&mut sh.lock().unwrap().wire);
            sh.lock().unwrap().resp = None;
            out.push(format!("{} / {}", res, wire.join(",")));
        }
        // undischarged transactions are dropped here (rollback on drop, no waiting)
        txns.clear();
        barrier().await;
        let wire: Vec<String> = std::mem::take(&mut sh.lock().unwrap().wire);
        format!("{} # {}", out.join(" ; "), wire.join(","))
    })
}

pub fn oracle_c(line: &str, trace: &str) -> Vec<String> {
    let mut v: Vec<String> = Vec::new();
    if trace.starts_with("PRELUDE-FAILED") || trace == "HARNESS-PANIC" {
        return v;
    }
    let script = line.strip_prefix("txn-c").unwrap().trim_start().strip_prefix('|').unwrap_or("");
    let ops: Vec<Vec<&str>> = script.split(';').map(|s| s.split_whitespace().collect::<Vec<_>>()).filter(|x: &Vec<&str>| !x.is_empty()).collect();
    let body = trace.split('#').next().unwrap_or("");
    let steps: Vec<&str> = body.split(';').map(|x| x.trim()).collect();
    let mut issued: Vec<Option<String>> = Vec::new(); // per slot: the id (hex) the coordinator issued, while the transaction is open
    let mut all_ids: Vec<String> = Vec::new();
    // the result must tell the coordinator's verdict: `resp` is what the coordinator answered
    let mirror = |what: &str, s: usize, resp: &str, res: &str, ok_form: &str, v: &mut Vec<String>| {
        if res == "HANG" {
            v.push(format!("c18-hang: {} at step {} was still pending after 60 s although the coordinator had answered {}", what, s, resp));
            return;
        }
        let (kind, arg) = resp.split_once(':').unwrap_or((resp, ""));
        match kind {
            "A" | "TA" | "D" => {
                if res != ok_form {
                    v.push(format!("c18-outcome-misreported: {} at step {}: the coordinator answered {} but the call returned {}", what, s, resp, res));
                }
            }
            "R" | "TR" => {
                if !res.contains(arg) || res == "ok" || res == "ok(acc)" {
                    v.push(format!("c18-outcome-misreported: {} at step {}: the coordinator rejected with {} but the call returned {}", what, s, arg, res));
                }
            }
            "N" => {
                if !res.starts_with("err(") {
                    v.push(format!("c18-outcome-misreported: {} at step {}: the coordinator detached the link without an answer but the call returned {}", what, s, res));
                }
            }
            _ => {}
        }
    };
    // links the scripted coordinator has detached (answer `N`): what the script does on them afterwards is
    // expected to fail and is judged for hangs only
    let mut dead_snd: Vec<String> = Vec::new();
    let mut ctl_dead = false;
    for (idx, op) in ops.iter().enumerate() {
        let s = idx + 1;
        let st = steps.get(s).cloned().unwrap_or("");
        let (res, wire) = match st.split_once('/') {
            Some((r, w)) => (r.trim(), w.trim()),
            None => (st.trim(), ""),
        };
        let wt: Vec<&str> = wire.split(',').filter(|x| !x.is_empty()).collect();
        if matches!(op[0], "decl" | "odecl") {
            issued.push(None);
        }
        let on_dead = match op[0] {
            "post" => dead_snd.iter().any(|d| Some(d.as_str()) == op.get(2).cloned()) || ctl_dead,
            "decl" | "odecl" | "commit" | "rollback" | "drop" | "disch" | "racc" | "rrej" | "rrel" => ctl_dead,
            _ => false,
        };
        match op[0] {
            "post" if op.get(4).cloned() == Some("N") => dead_snd.push(op[2].to_string()),
            "decl" | "odecl" if op.get(1).cloned() == Some("N") => ctl_dead = true,
            "commit" | "rollback" if op.get(2).cloned() == Some("N") => ctl_dead = true,
            "disch" if op.get(3).cloned() == Some("N") => ctl_dead = true,
            _ => {}
        }
        if on_dead {
            if res == "HANG" {
                v.push(format!("c18-hang: `{}` at step {} (on a link the coordinator had detached) was still pending after 60 s", op.join(" "), s));
            }
            continue;
        }
        if res == "skip" || res == "notrun" {
            continue;
        }
        // every transaction id that appears on the wire must be one the coordinator issued
        for t in &wt {
            for key in ["tx(", "disch("] {
                if let Some(id) = inner_cond(&t.replace(':', ")"), key) {
                    if !all_ids.contains(&id) && !(op[0].ends_with("decl")) {
                        v.push(format!("c18-wrong-txn-id-on-wire: step {} `{}` wrote {} whose transaction id was never issued by the coordinator", s, op.join(" "), t));
                    }
                }
            }
        }
        match op[0] {
            "decl" | "odecl" => {
                let resp = op[1];
                let ok_form = format!("ok({})", resp.strip_prefix("D:").unwrap_or("?"));
                mirror("declare", s, resp, res, &ok_form, &mut v);
                if resp.starts_with("D:") && res == ok_form {
                    let id = resp[2..].to_string();
                    *issued.last_mut().unwrap() = Some(id.clone());
                    all_ids.push(id);
                }
                if !wt.iter().any(|t| t.contains(":decl")) {
                    v.push(format!("c18-declare-not-sent: step {}: no declare on the wire ({})", s, wire));
                }
            }
            "post" => {
                let k: usize = op[1].parse().unwrap_or(0);
                let id = match issued.get(k).cloned().flatten() {
                    Some(id) => id,
                    None => continue,
                };
                let m = format!(":m{}:", op[3]);
                match wt.iter().find(|t| t.starts_with('T') && t.contains(&m)) {
                    None => v.push(format!("c18-post-not-sent: step {}: no transfer of m{} on the wire ({})", s, op[3], wire)),
                    Some(t) => {
                        let state = t.split(&m).nth(1).unwrap_or("");
                        if !state.starts_with("tx(") {
                            v.push(format!("c18-post-not-transactional: step {}: m{} posted under transaction {} went out with state `{}`", s, op[3], id, state));
                        } else if !state.starts_with(&format!("tx({}:", id)) {
                            v.push(format!("c18-wrong-txn-id-on-wire: step {}: m{} posted under transaction {} went out with state `{}`", s, op[3], id, state));
                        }
                    }
                }
                mirror("post", s, op[4], res, "ok(acc)", &mut v);
            }
            "disch" => {
                let k: usize = op[1].parse().unwrap_or(0);
                let id = match issued.get(k).cloned().flatten() {
                    Some(id) => id,
                    None => continue,
                };
                // a discharge the coordinator refuses leaves the transaction undischarged on the controller: the
                // handle's later rollback / commit / drop must still go out
                if !op[3].starts_with('R') {
                    issued[k] = None;
                }
                match wt.iter().find(|t| t.contains(":disch(")) {
                    None => v.push(format!("c18-discharge-not-sent: step {}: no discharge on the wire ({})", s, wire)),
                    Some(t) => {
                        let inner = inner_cond(t, "disch(").unwrap_or_default();
                        let (wid, wfail) = inner.split_once(':').unwrap_or(("", ""));
                        if wid != id {
                            v.push(format!("c18-wrong-txn-id-on-wire: step {}: `{}` of transaction {} wrote {}", s, op.join(" "), id, t));
                        }
                        let fail_ok = if op[2] == "1" { wfail == "1" } else { wfail == "0" || wfail == "-" };
                        if !fail_ok {
                            v.push(format!("c18-wrong-fail-flag: step {}: `{}` of transaction {} wrote {} (fail={})", s, op.join(" "), id, t, wfail));
                        }
                    }
                }
                mirror("discharge", s, op[3], res, "ok", &mut v);
            }
            "commit" | "rollback" | "drop" => {
                let k: usize = op[1].parse().unwrap_or(0);
                let id = match issued.get(k).cloned().flatten() {
                    Some(id) => id,
                    None => continue,
                };
                issued[k] = None;
                let want_fail = op[0] != "commit";
                match wt.iter().find(|t| t.contains(":disch(")) {
                    None => {
                        if op[0] != "drop" {
                            v.push(format!("c18-discharge-not-sent: step {}: no discharge on the wire ({})", s, wire));
                        }
                    }
                    Some(t) => {
                        let inner = inner_cond(t, "disch(").unwrap_or_default();
                        let (wid, wfail) = inner.split_once(':').unwrap_or(("", ""));
                        if wid != id {
                            v.push(format!("c18-wrong-txn-id-on-wire: step {}: `{}` of transaction {} wrote {}", s, op[0], id, t));
                        }
                        let fail_ok = if want_fail { wfail == "1" } else { wfail == "0" || wfail == "-" };
                        if !fail_ok {
                            v.push(format!("c18-wrong-fail-flag: step {}: `{}` of transaction {} wrote {} (fail={})", s, op[0], id, t, wfail));
                        }
                    }
                }
                if op[0] != "drop" {
                    mirror(op[0], s, op[2], res, "ok", &mut v);
                }
            }
            "racc" | "rrej" | "rrel" => {
                let k: usize = op[1].parse().unwrap_or(0);
                let id = match issued.get(k).cloned().flatten() {
                    Some(id) => id,
                    None => continue,
                };
                if res == "HANG" {
                    v.push(format!("c18-hang: retirement at step {} was still pending after 60 s", s));
                    continue;
                }
                if !res.starts_with("ok") {
                    continue;
                }
                let want = match op[0] {
                    "racc" => "acc",
                    "rrej" => "rej(-)",
                    _ => "rel",
                };
                match wt.iter().find(|t| t.starts_with("P:")) {
                    None => v.push(format!("c18-retire-not-sent: step {}: no disposition on the wire ({})", s, wire)),
                    Some(t) => {
                        let state = t.split_once('=').map(|x| x.1).unwrap_or("");
                        if !state.starts_with("tx(") {
                            v.push(format!("c18-post-not-transactional: step {}: the retirement under transaction {} went out with state `{}`", s, id, state));
                        } else if !state.starts_with(&format!("tx({}:", id)) {
                            v.push(format!("c18-wrong-txn-id-on-wire: step {}: the retirement under transaction {} went out with state `{}`", s, id, state));
                        } else if !state.starts_with(&format!("tx({}:{})", id, want)) {
                            v.push(format!("c18-outcome-misreported: step {}: `{}` wrote the outcome `{}`", s, op[0], state));
                        }
                    }
                }
            }
            _ => {
                if res == "HANG" {
                    v.push(format!("c18-hang: `{}` at step {} was still pending after 60 s", op.join(" "), s));
                }
            }
        }
    }
    if trace.contains("PANIC") {
        v.push("c18-panic: a task panicked".into());
    }
    v
}

// ---------- generation (controller) ----------

const POST_RESP: [&str; 9] = ["TA", "TR:UnknownId", "TR:Rollback", "TR:Timeout", "R:UnknownId", "R:Rollback", "R:Timeout", "R:InternalError", "N"];
const DISCH_RESP: [&str; 6] = ["A", "R:UnknownId", "R:Rollback", "R:Timeout", "R:InternalError", "N"];
const ID_POOL: [&str; 8] = [
    "00",
    "ff",
    "0a0b0c0d",
    "0a0b0c0e",
    "000102030405060708090a0b0c0d0e0f",
    "000102030405060708090a0b0c0d0e10",
    "f0f1f2f3f4f5f6f7f8f9fafbfcfdfefff0f1f2f3f4f5f6f7f8f9fafbfcfdfeff",
    "7f",
];

/// the systematic family: one transaction (shared or owned control link), 0..2 posts, every answer to the
/// post and to the discharge
pub fn enum_cases_c() -> Vec<String> {
    let mut v = Vec::new();
    for owned in [false, true] {
        for id in ["0a0b", "000102030405060708090a0b0c0d0e0f"] {
            for pr in POST_RESP {
                for verb in ["commit", "rollback"] {
                    for dr in DISCH_RESP {
                        let pre = if owned { format!("snd 1 ; odecl D:{}", id) } else { format!("ctl ; snd 1 ; decl D:{}", id) };
                        v.push(format!("txn-c | {} ; post 0 1 0 {} ; {} 0 {}", pre, pr, verb, dr));
                    }
                }
            }
        }
        for dr in ["R:UnknownId", "R:Rollback", "R:Timeout", "R:InternalError", "N"] {
            let pre = if owned { format!("snd 1 ; odecl {}", dr) } else { format!("ctl ; snd 1 ; decl {}", dr) };
            v.push(format!("txn-c | {} ; post 0 1 0 TA ; commit 0 A", pre));
        }
    }
    // two transactions on one control link, interleaved
    for a in ["commit", "rollback", "drop"] {
        for b in ["commit", "rollback", "drop"] {
            for order in 0..2 {
                let (x, y) = if order == 0 { (0, 1) } else { (1, 0) };
                let fa = if a == "drop" { format!("drop {}", x) } else { format!("{} {} A", a, x) };
                let fb = if b == "drop" { format!("drop {}", y) } else { format!("{} {} A", b, y) };
                v.push(format!("txn-c | ctl ; snd 1 ; snd 2 ; rcv ; decl D:0a0b0c0d ; decl D:0a0b0c0e ; post 0 1 0 TA ; post 1 2 1 TA ; racc {} ; post 1 1 2 TA ; rrej {} ; post 0 2 3 TA ; {} ; {}", x, y, fa, fb));
            }
        }
    }
    v
}

pub fn gen_case_c(r: &mut Rng, thorough: bool) -> String {
    let mut ops: Vec<String> = Vec::new();
    let shared = r.below(4) != 0;
    if shared {
        ops.push("ctl".into());
    }
    let nsnd = r.range(1, 2) as usize;
    for i in 1..=nsnd {
        ops.push(format!("snd {}", i));
    }
    let has_rcv = r.below(2) == 0;
    if has_rcv {
        ops.push("rcv".into());
    }
    let mut ids: Vec<&str> = ID_POOL.to_vec();
    let mut open: Vec<usize> = Vec::new();
    let mut nslots = 0usize;
    let mut m = 0u32;
    let mut retired = 0;
    let n = r.range(5, if thorough { 30 } else { 16 });
    // answers are mostly positive so that scripts get far
    let post_resp = |r: &mut Rng| if r.below(10) < 6 { "TA" } else { *r.pick(&POST_RESP) };
    let disch_resp = |r: &mut Rng| if r.below(10) < 6 { "A" } else { *r.pick(&DISCH_RESP[..5]) };
    for step in 0..n {
        let last = step + 1 == n;
        match r.below(20) {
            0..=4 => {
                if open.len() < 3 && !ids.is_empty() {
                    let resp = if r.below(8) == 0 {
                        (*r.pick(&["R:UnknownId", "R:Rollback", "R:Timeout", "R:InternalError"])).to_string()
                    } else {
                        let k = r.below(ids.len() as u64) as usize;
                        format!("D:{}", ids.remove(k))
                    };
                    let owned = !shared || r.below(5) == 0;
                    ops.push(format!("{} {}", if owned { "odecl" } else { "decl" }, resp));
                    if resp.starts_with("D:") {
                        open.push(nslots);
                    }
                    nslots += 1;
                }
            }
            5..=12 => {
                if let Some(k) = if open.is_empty() { None } else { Some(*r.pick(&open)) } {
                    ops.push(format!("post {} {} {} {}", k, r.range(1, nsnd as u64), m, post_resp(r)));
                    m += 1;
                }
            }
            13..=14 => {
                if has_rcv && retired < 3 {
                    if let Some(k) = if open.is_empty() { None } else { Some(*r.pick(&open)) } {
                        ops.push(format!("{} {}", r.pick(&["racc", "rrej", "rrel"]), k));
                        retired += 1;
                    }
                }
            }
            15..=18 => {
                if !open.is_empty() {
                    let p = r.below(open.len() as u64) as usize;
                    let k = open.remove(p);
                    if r.below(5) == 0 {
                        // refused first, then discharged again (or dropped) through the same handle
                        ops.push(format!("disch {} {} R:{}", k, r.below(2), r.pick(&["Rollback", "Timeout", "UnknownId"])));
                        if r.below(4) != 0 {
                            open.push(k);
                            continue;
                        }
                    }
                    match r.below(7) {
                        0 => ops.push(format!("drop {}", k)),
                        1..=3 => ops.push(format!("commit {} {}", k, disch_resp(r))),
                        _ => ops.push(format!("rollback {} {}", k, disch_resp(r))),
                    }
                }
            }
            _ => {
                // the unanswered cases end the script (the call is expected to fail, the link is gone)
                if last {
                    if let Some(k) = open.pop() {
                        if r.below(2) == 0 {
                            ops.push(format!("{} {} N", r.pick(&["commit", "rollback"]), k));
                        } else {
                            ops.push(format!("post {} 1 {} N", k, m));
                        }
                    }
                }
            }
        }
    }
    format!("txn-c | {}", ops.join(" ; "))
}

pub fn run_case(line: &str) -> String {
    if line.starts_with("txn-l") {
        run_case_l(line)
    } else {
        run_case_c(line)
    }
}
pub fn direct_oracle(line: &str, trace: &str) -> Vec<String> {
    if line.starts_with("txn-l") {
        oracle_l(line, trace)
    } else {
        oracle_c(line, trace)
    }
}
pub fn gen_case(r: &mut Rng, thorough: bool) -> String {
    if r.below(5) < 3 {
        gen_case_l(r, thorough)
    } else {
        gen_case_c(r, thorough)
    }
}

pub fn run(seed: u64, n: u64, thorough: bool, corpus: &[String], dir: &str) {
    crate::codec::quiet_panics();
    let mut out = Outputs::new(dir);
    let mut r = Rng::new(seed);
    let mut lines: Vec<String> = Vec::new();
    for l in corpus {
        if l.starts_with("txn-l") || l.starts_with("txn-c") {
            out.count("corpus_cases");
            lines.push(l.clone());
        }
    }
    if n > 0 {
        // a delivery aborted halfway, plain and under a transaction, followed by more work on the same link
        for sc in [
            "ctl ; lnk 1 ; decl ; post 1 t0 0 ; posta 1 t0 1 ; post 1 t0 2 ; commit t0 ; post 1 - 3",
            "ctl ; lnk 1 ; decl ; posta 1 t0 0 ; commit t0 ; post 1 - 1 ; post 1 - 2",
            "ctl ; lnk 1 ; decl ; posta 1 t0 0 ; post 1 t0 1 ; commit t0 ; decl ; post 1 t1 2 ; commit t1",
            "ctl ; lnk 1 ; decl ; posta 1 t0 0 ; rollback t0 ; post 1 - 1",
            "ctl ; lnk 1 ; lnk 2 ; decl ; posta 1 t0 0 ; post 2 t0 1 ; commit t0 ; post 1 - 2 ; post 2 - 3",
            "lnk 1 ; posta 1 - 0 ; post 1 - 1 ; post 1 - 2",
        ] {
            lines.push(format!("txn-l | {}", sc));
        }
    }
    let nl = n * 6 / 10;
    // systematic: everything up to length 2 (3 in the thorough tier), then a stride through the longer ones
    let full = enum_size_l(if thorough { 3 } else { 2 }).min(nl / 2);
    for i in 0..full {
        lines.push(enum_case_l(i));
    }
    for i in full..nl {
        // a few scripts that exhaust the link credit with transactional posts
        if i % 97 == 5 {
            let k = r.range(60, 210);
            let verb = *r.pick(&["commit", "rollback", "rollback", "dctl"]);
            let tail = if verb == "dctl" { "dctl".to_string() } else { format!("{} t0", verb) };
            lines.push(format!("txn-l | ctl ; lnk 1 ; lnk 2 ; decl ; burst 1 t0 1000 {} ; post 2 - 1 ; {} ; burst 1 - 2000 {} ; post 2 - 2", k, tail, r.range(50, 200)));
            continue;
        }
        lines.push(gen_case_l(&mut r, thorough));
    }
    let nc = n - nl;
    let ec = enum_cases_c();
    let take = if thorough { ec.len() } else { ec.len().min((nc / 2) as usize) };
    // quick tier: a stride through the systematic family
    let stride = if take == 0 { 1 } else { (ec.len() / take).max(1) };
    let mut taken = 0u64;
    for (i, c) in ec.iter().enumerate() {
        if i % stride == 0 && (taken as usize) < take {
            lines.push(c.clone());
            taken += 1;
        }
    }
    for _ in taken..nc {
        lines.push(gen_case_c(&mut r, thorough));
    }
    for line in lines {
        let l2 = line.clone();
        let t = match std::panic::catch_unwind(move || run_case(&l2)) {
            Ok(t) => t,
            Err(_) => "HARNESS-PANIC".to_string(),
        };
        let tag = line.split_whitespace().next().unwrap_or("?").to_string();
        out.count(&format!("cases_{}", tag));
        if tag == "txn-l" {
            for a in line.split('|').nth(1).unwrap_or("").split(';') {
                if let Some(w) = a.split_whitespace().next() {
                    out.count(&format!("l_act_{}", w));
                }
            }
            out.add("l_declared", t.matches("=decl(").count() as u64);
            out.add("l_discharge_accepted", t.matches("P*=accs /").count() as u64);
            out.add("l_refused_unknown_id", t.matches("(UnknownId)").count() as u64);
            out.add("l_delivered_to_app", t.matches(":m").count() as u64);
            out.add("l_session_ended_by_listener", t.matches("Ee(").count() as u64);
            if t.matches(":m").count() >= 2 && t.contains("=decl(") {
                out.nontrivial(&line);
            }
        }
        if tag == "txn-c" {
            for a in line.split('|').nth(1).unwrap_or("").split(';') {
                let ws: Vec<&str> = a.split_whitespace().collect();
                if let Some(w) = ws.first() {
                    out.count(&format!("c_op_{}", w));
                    if let Some(resp) = ws.last() {
                        if matches!(*w, "decl" | "odecl" | "post" | "commit" | "rollback") {
                            out.count(&format!("c_resp_{}_{}", w, resp.split(':').next().unwrap_or("?")));
                        }
                    }
                }
            }
            out.add("c_posts_on_wire", t.matches(":tx(").count() as u64);
            out.add("c_discharges_on_wire", t.matches(":disch(").count() as u64);
            out.add("c_calls_hung", t.matches("HANG").count() as u64);
            if t.matches(":tx(").count() >= 2 && t.contains(":disch(") {
                out.nontrivial(&line);
            }
        }
        for vv in direct_oracle(&line, &t) {
            let class = vv.split(':').next().unwrap_or("?").to_string();
            out.violation(&class, &format!("{} | `{}` -> {}", vv, line, t), &line);
        }
        if t == "HARNESS-PANIC" {
            out.violation("c18-panic", &format!("c18-panic: the case panicked: {}", line), &line);
        }
        out.case(&line, &t);
    }
    out.finish(dir);
}

// ==========================================================================================
// Part 3: correspondence with the Coq model Txn/Manager.v (`txnm`)
// ==========================================================================================
//
// case line: `txnm act ; act ; ...` - the `txn-l` grammar restricted to the model's alphabet:
//   `ctl` `dctl` `ctl2` `dctl2` `lnk <i>` `decl` `decl2` `post <i> <tx> <m> [s]` `postm <i> <tx> <m> [s]`
//   `commit|commitn|rollback <tx>` `commit2|rollback2 <tx>` `dropsess` `dropconn`
// (`postm` only under a live id or plain.)  Left out: `dctl0`, `burst`, `rlnk`/`snd`/`ret`, `postm` under an
// id that is not live - the triggers of known findings and what the model abstracts away.
//
// abstract trace: one token group per action, ` ; ` separated, then ` # ` and what happened in the
// virtual minute after the last action.  A group is `skip`, or the listener's answers in wire order
// (`att` `detached` `declared(t<k>)` `accepted` `rejected(<cond>)` `prov(t<k>)` `end` `end(<cond>)`; `-` if
// none) followed by the deliveries to the application per link in link order (` l<i>:m<a>,m<b>`).
// Not part of the abstraction: flows, the application's own dispositions for what it received, the
// errors the application's calls return when the session ends, what the listener writes when the
// transport is gone.

fn abs_step(act: &[&str], wire: &str, app: &str) -> String {
    let wire = wire.trim();
    if wire.starts_with("skip") {
        return "skip".into();
    }
    if wire.starts_with("nocredit") {
        return "nocredit".into();
    }
    let verb = act.first().cloned().unwrap_or("");
    let is_post = verb == "post" || verb == "postm";
    let plain = is_post && act.get(2) == Some(&"-");
    let dropconn = verb == "dropconn";
    let mut ans: Vec<String> = Vec::new();
    for t in wire.split(',').map(|x| x.trim()).filter(|x| !x.is_empty()) {
        let tok: Option<String> = if t == "EOF" {
            if dropconn {
                None
            } else {
                Some("eof".into())
            }
        } else if t.starts_with('F') {
            None
        } else if t.starts_with('A') {
            Some(if t.ends_with('!') { "att!".into() } else { "att".into() })
        } else if let Some(body) = t.strip_prefix("P*=") {
            if body.starts_with("decl(") {
                let l = inner_cond(t, "decl(").unwrap_or_default();
                Some(if l.ends_with("!dup") { "declared(dup)".into() } else { format!("declared({})", l) })
            } else if body.starts_with("tx(") {
                match inner_cond(t, "tx(").and_then(|x| x.split_once(':').map(|(a, b)| (a.to_string(), b.to_string()))) {
                    Some((id, o)) if o == "acc" => Some(format!("prov({})", id)),
                    _ => Some(t.to_string()),
                }
            } else if body.starts_with("acc") {
                if plain {
                    None
                } else if is_post {
                    Some("accepted!".into())
                } else {
                    Some("accepted".into())
                }
            } else if body.starts_with("rej(") {
                Some(format!("rejected({})", inner_cond(t, "rej(").unwrap_or_default()))
            } else {
                Some(t.to_string())
            }
        } else if t.starts_with('P') {
            None
        } else if t.starts_with('D') {
            let rest = &t[1..];
            let h: String = rest.chars().take_while(|c| c.is_ascii_digit()).collect();
            let tail = &rest[h.len()..];
            let closed = tail.starts_with('c');
            let err = inner_cond(t, "e(").map(|c| format!("({})", c)).unwrap_or_default();
            let name = if h == "0" || h == "30" { "detached" } else { "ldetached" };
            Some(format!("{}{}{}", name, if closed { "" } else { "0" }, err))
        } else if t.starts_with('E') {
            Some(match inner_cond(t, "e(") {
                Some(c) => format!("end({})", c),
                None => "end".into(),
            })
        } else if t.starts_with('C') {
            if dropconn {
                None
            } else {
                Some(format!("close({})", inner_cond(t, "e(").unwrap_or_default()))
            }
        } else {
            Some(t.to_string())
        };
        if let Some(x) = tok {
            // a message cut into two frames is answered once per frame
            if ans.last() != Some(&x) {
                ans.push(x);
            }
        }
    }
    let mut per_link: std::collections::BTreeMap<u32, Vec<String>> = Default::default();
    for ev in expand_app(app.trim()) {
        if let Some((l, m)) = ev.split_once(':') {
            if let (Some(li), Some(mi)) = (l.strip_prefix('l').and_then(|x| x.parse::<u32>().ok()), m.strip_prefix('m').and_then(|x| x.parse::<u32>().ok())) {
                per_link.entry(li).or_default().push(format!("m{}", mi));
            }
        }
    }
    let mut s = if ans.is_empty() { "-".to_string() } else { ans.join(",") };
    for (l, ms) in per_link {
        s.push_str(&format!(" l{}:{}", l, ms.join(",")));
    }
    s
}

/// the abstraction of a `txn-l` trace to the observations of the model
pub fn abstract_trace(script: &str, trace: &str) -> String {
    if trace.starts_with("PRELUDE-FAILED") || trace == "HARNESS-PANIC" {
        return trace.to_string();
    }
    let acts: Vec<Vec<&str>> = script.split(';').map(|s| s.split_whitespace().collect::<Vec<_>>()).filter(|x: &Vec<&str>| !x.is_empty()).collect();
    let (body, fin) = match trace.split_once('#') {
        Some((b, f)) => (b, f),
        None => (trace, ""),
    };
    let steps: Vec<&str> = body.split(';').map(|x| x.trim()).collect();
    let mut out: Vec<String> = Vec::new();
    for (k, a) in acts.iter().enumerate() {
        let st = steps.get(k + 1).cloned().unwrap_or("MISSING /");
        let (w, ap) = st.split_once('/').unwrap_or((st, ""));
        out.push(abs_step(a, w, ap));
    }
    let (w, ap) = fin.split_once('/').unwrap_or((fin, ""));
    format!("{} # {}", out.join(" ; "), abs_step(&[], w, ap))
}

/// A static picture of the script so far, used only to shape the generated scripts (which ids are
/// live, is the session there): the answers always come from the implementation and from the model.
#[derive(Clone, Default)]
struct Sim {
    dead: bool,
    ctl: [bool; 2],
    links: [bool; 4],
    ndecl: usize,
    /// (decl index, control link)
    live: Vec<(usize, usize)>,
    done: Vec<usize>,
}
impl Sim {
    fn is_live(&self, tx: &str) -> bool {
        tx.strip_prefix('t').and_then(|x| x.parse::<usize>().ok()).map(|k| self.live.iter().any(|(j, _)| *j == k)).unwrap_or(false)
    }
    /// may the action be part of a `txnm` script here?
    fn legal(&self, act: &str) -> bool {
        let w: Vec<&str> = act.split_whitespace().collect();
        match w[0] {
            "postm" => w[2] == "-" || self.is_live(w[2]),
            _ => true,
        }
    }
    fn apply(&mut self, act: &str) {
        let w: Vec<&str> = act.split_whitespace().collect();
        let c = if w[0].ends_with('2') { 1 } else { 0 };
        if w[0] == "decl" || w[0] == "decl2" {
            if !self.dead && self.ctl[c] {
                self.live.push((self.ndecl, c));
            }
            self.ndecl += 1;
            return;
        }
        if self.dead {
            return;
        }
        match w[0] {
            "ctl" | "ctl2" => self.ctl[c] = true,
            "dctl" | "dctl2" => {
                if self.ctl[c] {
                    self.ctl[c] = false;
                    let (gone, keep): (Vec<_>, Vec<_>) = self.live.iter().cloned().partition(|(_, o)| *o == c);
                    self.live = keep;
                    self.done.extend(gone.into_iter().map(|(k, _)| k));
                }
            }
            "lnk" => self.links[w[1].parse::<usize>().unwrap()] = true,
            "post" | "postm" => {
                if self.links[w[1].parse::<usize>().unwrap()] && w[2] != "-" && !self.is_live(w[2]) {
                    self.kill();
                }
            }
            "commit" | "commitn" | "rollback" | "commit2" | "rollback2" => {
                if self.ctl[c] {
                    if let Some(k) = w[1].strip_prefix('t').and_then(|x| x.parse::<usize>().ok()) {
                        if let Some(p) = self.live.iter().position(|(j, o)| *j == k && *o == c) {
                            self.live.remove(p);
                            self.done.push(k);
                        }
                    }
                }
            }
            "dropsess" | "dropconn" => self.kill(),
            _ => {}
        }
    }
    fn kill(&mut self) {
        self.dead = true;
        self.ctl = [false; 2];
        let l = std::mem::take(&mut self.live);
        self.done.extend(l.into_iter().map(|(k, _)| k));
    }
}

const M_ALPHABET: [&str; 16] = [
    "decl",
    "post 1 t0 #",
    "post 2 t0 # s",
    "post 1 t1 #",
    "post 1 - #",
    "postm 2 t0 #",
    "commit t0",
    "rollback t0",
    "commitn t1",
    "rollback t1",
    "commit bogus",
    "dctl",
    "ctl",
    "dropsess",
    "dropconn",
    "post 2 bogus #",
];
const M_PREFIXES: [&str; 3] = ["ctl ; lnk 1 ; lnk 2", "ctl ; lnk 1 ; lnk 2 ; decl", "ctl ; lnk 1 ; lnk 2 ; decl ; decl"];
/// two control links at once
const M2_ALPHABET: [&str; 13] = [
    "post 1 t0 #",
    "post 1 t1 #",
    "post 1 - #",
    "commit t0",
    "commit2 t0",
    "commit t1",
    "commit2 t1",
    "rollback2 t0",
    "rollback t1",
    "dctl",
    "dctl2",
    "ctl2",
    "decl2",
];
const M2_PREFIX: &str = "ctl ; ctl2 ; lnk 1 ; decl ; decl2";

/// every script `prefix ; a1 ; .. ; ak` (k <= maxlen) over the alphabet; a script is not extended more than one
/// action beyond the end of its session (everything is skipped from there on)
fn enum_scripts_m(prefix: &str, alphabet: &[&str], maxlen: usize, out: &mut Vec<String>) {
    let mut sim0 = Sim::default();
    let pre: Vec<String> = prefix.split(';').map(|x| x.trim().to_string()).collect();
    for a in &pre {
        sim0.apply(a);
    }
    // (actions, sim, steps after the session's end)
    let mut stack: Vec<(Vec<String>, Sim, usize)> = vec![(Vec::new(), sim0, 0)];
    while let Some((acts, sim, after)) = stack.pop() {
        if !acts.is_empty() {
            out.push(format!("{} ; {}", prefix, acts.join(" ; ")));
        }
        if acts.len() >= maxlen || after >= 1 {
            continue;
        }
        for a in alphabet.iter().rev() {
            let act = a.replace('#', &acts.len().to_string());
            if !sim.legal(&act) {
                continue;
            }
            let mut s2 = sim.clone();
            let was_dead = s2.dead;
            s2.apply(&act);
            let mut nx = acts.clone();
            nx.push(act);
            stack.push((nx, s2, if was_dead { after + 1 } else { 0 }));
        }
    }
}

/// a random longer script: 2-3 links, two control links, several transactions at once
pub fn gen_case_m(r: &mut Rng, thorough: bool) -> String {
    let mut sim = Sim::default();
    let mut acts: Vec<String> = Vec::new();
    let push = |acts: &mut Vec<String>, sim: &mut Sim, a: String| {
        sim.apply(&a);
        acts.push(a);
    };
    push(&mut acts, &mut sim, "ctl".into());
    let two = r.below(3) != 0;
    if two && r.below(2) == 0 {
        push(&mut acts, &mut sim, "ctl2".into());
    }
    let nlinks = r.range(2, 3) as usize;
    for i in 1..=nlinks {
        if r.below(5) != 0 {
            push(&mut acts, &mut sim, format!("lnk {}", i));
        }
    }
    let n = r.range(8, if thorough { 60 } else { 30 });
    let mut m = 0u32;
    let mut after_death = 0;
    let pick_tx = |r: &mut Rng, sim: &Sim| -> String {
        match r.below(40) {
            0 => "bogus".to_string(),
            1 => format!("t{}", sim.ndecl + r.below(2) as usize),
            2..=4 if !sim.done.is_empty() => format!("t{}", r.pick(&sim.done)),
            _ if !sim.live.is_empty() => format!("t{}", r.pick(&sim.live).0),
            _ => format!("t{}", r.below(3)),
        }
    };
    for _ in 0..n {
        if sim.dead {
            after_death += 1;
            if after_death > 2 {
                break;
            }
        }
        let want_decl = sim.live.len() < 3 && (sim.ctl[0] || sim.ctl[1]) && r.below(3) != 0;
        let x = if want_decl { 0 } else { r.below(40) };
        match x {
            0..=5 => {
                let c = if sim.ctl[1] && (!sim.ctl[0] || r.below(2) == 0) { "decl2" } else { "decl" };
                push(&mut acts, &mut sim, c.to_string());
            }
            6..=22 => {
                let i = r.range(1, nlinks as u64) as usize;
                if !sim.links[i] && r.below(10) != 0 {
                    push(&mut acts, &mut sim, format!("lnk {}", i));
                }
                let tx = if r.below(4) == 0 { "-".to_string() } else { pick_tx(r, &sim) };
                let verb = if r.below(7) == 0 && (tx == "-" || sim.is_live(&tx)) { "postm" } else { "post" };
                let s = if r.below(4) == 0 { " s" } else { "" };
                push(&mut acts, &mut sim, format!("{} {} {} {}{}", verb, i, tx, m, s));
                m += 1;
            }
            23..=31 => {
                let tx = pick_tx(r, &sim);
                let owner = tx.strip_prefix('t').and_then(|x| x.parse::<usize>().ok()).and_then(|k| sim.live.iter().find(|(j, _)| *j == k).map(|(_, o)| *o));
                // mostly through the control link that declared it
                let c = match owner {
                    Some(o) if r.below(6) != 0 => o,
                    _ => r.below(2) as usize,
                };
                let verb = match (c, r.below(5)) {
                    (0, 0 | 1) => "commit",
                    (0, 2 | 3) => "rollback",
                    (0, _) => "commitn",
                    (_, 0..=2) => "commit2",
                    _ => "rollback2",
                };
                push(&mut acts, &mut sim, format!("{} {}", verb, tx));
            }
            32 | 33 => {
                let a = if sim.ctl[0] { "dctl" } else { "ctl" };
                push(&mut acts, &mut sim, a.to_string());
            }
            34 | 35 if two => {
                let a = if sim.ctl[1] { "dctl2" } else { "ctl2" };
                push(&mut acts, &mut sim, a.to_string());
            }
            36 => {
                if r.below(4) == 0 {
                    let a = if r.below(3) == 0 { "dropconn" } else { "dropsess" };
                    push(&mut acts, &mut sim, a.to_string());
                }
            }
            _ => {
                let i = r.range(1, 3) as usize;
                if !sim.links[i] && i <= nlinks {
                    push(&mut acts, &mut sim, format!("lnk {}", i));
                }
            }
        }
    }
    acts.join(" ; ")
}

pub fn run_model(seed: u64, n: u64, thorough: bool, corpus: &[String], dir: &str) {
    crate::codec::quiet_panics();
    let mut out = Outputs::new(dir);
    let mut r = Rng::new(seed);
    let mut scripts: Vec<String> = Vec::new();
    for l in corpus {
        if let Some(s) = l.strip_prefix("txnm ") {
            out.count("corpus_cases");
            scripts.push(s.to_string());
        }
    }
    let depth = if thorough { 5 } else { 4 };
    let before = scripts.len();
    for (k, p) in M_PREFIXES.iter().enumerate() {
        // the longest scripts only after two declares
        enum_scripts_m(p, &M_ALPHABET, if k == 2 { depth } else { depth - 1 }, &mut scripts);
    }
    enum_scripts_m(M2_PREFIX, &M2_ALPHABET, depth - 1, &mut scripts);
    out.add("enumerated_scripts", (scripts.len() - before) as u64);
    for _ in 0..n {
        scripts.push(gen_case_m(&mut r, thorough));
    }
    for s in scripts {
        let line = format!("txnm {}", s);
        let full = format!("txn-l | {}", s);
        let f2 = full.clone();
        let t = match std::panic::catch_unwind(move || run_case_l(&f2)) {
            Ok(t) => t,
            Err(_) => "HARNESS-PANIC".to_string(),
        };
        let a = abstract_trace(&s, &t);
        for act in s.split(';') {
            if let Some(w) = act.split_whitespace().next() {
                out.count(&format!("act_{}", w));
            }
        }
        out.add("declared", a.matches("declared(").count() as u64);
        out.add("discharge_accepted", a.matches("accepted").count() as u64);
        out.add("discharge_rejected", a.matches("rejected(").count() as u64);
        out.add("post_held", a.matches("prov(").count() as u64);
        out.add("session_ended_unknown_id", a.matches("end(UnknownId)").count() as u64);
        out.add("delivered_to_app", a.matches(":m").count() as u64 + a.matches(",m").count() as u64);
        out.add("commit_delivering", a.matches("accepted l").count() as u64);
        out.add("skipped_actions", a.matches("skip").count() as u64);
        if a.contains("declared(") && (a.contains("accepted l") || a.contains("rejected(") || a.contains("end(UnknownId)")) {
            out.nontrivial(&line);
        }
        // the direct oracle does not know the second control link
        if !s.contains('2') || !s.split(';').any(|x| x.trim().split_whitespace().next().map(|w| w.ends_with('2')).unwrap_or(false)) {
            for v in oracle_l(&full, &t) {
                let class = v.split(':').next().unwrap_or("?").to_string();
                out.violation(&class, &format!("{} | `{}` -> {}", v, full, t), &line);
            }
        }
        if t == "HARNESS-PANIC" {
            out.violation("c18-panic", &format!("c18-panic: the case panicked: {}", line), &line);
        }
        out.case(&line, &a);
    }
    out.finish(dir);
}


// ==========================================================================================
// Part 4: the controller against the Coq model coq/Txn/Controller.v (sub `ctlm`)
// ==========================================================================================

/// `ctlm | ctl ; snd 1 ; op ; ...` - the txn-c scripts restricted to the model's alphabet (one shared Controller, one
/// sender; decl / post / commit / rollback / disch / drop; the coordinator answers declared(id) / accepted / rejected(cond) /
/// released, transactional accepted / rejected for posts).  The trace is the txn-c trace as it is; the model prints the same.
fn gen_case_cm(r: &mut Rng, thorough: bool) -> String {
    const IDS: [&str; 7] = ["0a0b", "00", "7f", "ff", "0a0b", "000102030405060708090a0b0c0d0e0f", "0a0b0c0d"];
    let conds = ["UnknownId", "Rollback", "Timeout", "InternalError"];
    let mut ops: Vec<String> = vec!["ctl".into(), "snd 1".into()];
    let len = if thorough { r.range(2, 16) } else { r.range(2, 10) };
    let mut ndecl = 0u64;
    let mut m = 0u64;
    for _ in 0..len {
        let dis = |r: &mut Rng| -> String {
            match r.below(8) {
                0..=3 => "A".to_string(),
                4 | 5 => format!("R:{}", r.pick(&conds)),
                6 => "L".to_string(),
                _ => format!("D:{}", r.pick(&IDS)),
            }
        };
        let k = if ndecl == 0 { 0 } else if r.chance(1, 12) { ndecl } else { r.below(ndecl) };
        let c = r.below(if ndecl == 0 { 3 } else { 12 });
        match c {
            0 | 1 | 2 => {
                let a = match r.below(8) {
                    0..=4 => format!("D:{}", r.pick(&IDS)),
                    5 => format!("R:{}", r.pick(&conds)),
                    6 => "A".to_string(),
                    _ => "L".to_string(),
                };
                ops.push(format!("decl {}", a));
                ndecl += 1;
            }
            3 | 4 | 5 => {
                let a = match r.below(4) {
                    0 | 1 => "TA".to_string(),
                    2 => format!("TR:{}", r.pick(&conds)),
                    _ => format!("R:{}", r.pick(&conds)),
                };
                ops.push(format!("post {} 1 {} {}", k, m, a));
                m += 1;
            }
            6 | 7 => ops.push(format!("commit {} {}", k, dis(r))),
            8 | 9 => ops.push(format!("rollback {} {}", k, dis(r))),
            10 => ops.push(format!("disch {} {} {}", k, r.below(2), dis(r))),
            _ => ops.push(format!("drop {}", k)),
        }
    }
    format!("ctlm | {}", ops.join(" ; "))
}

fn enum_cases_m() -> Vec<String> {
    let mut v = Vec::new();
    let tails = [
        "commit 0 A", "commit 0 R:Rollback", "commit 0 L", "commit 0 D:00", "rollback 0 A", "rollback 0 R:UnknownId", "rollback 0 L", "drop 0",
        "disch 0 0 A", "disch 0 1 A", "disch 0 0 R:Timeout", "disch 0 1 L", "post 0 1 0 TA", "post 0 1 0 TR:Rollback", "post 0 1 0 R:Timeout", "commit 1 A",
    ];
    for d in ["decl D:0a0b", "decl R:Timeout", "decl A", "decl L"] {
        v.push(format!("ctlm | ctl ; snd 1 ; {}", d));
        for a in tails {
            v.push(format!("ctlm | ctl ; snd 1 ; {} ; {}", d, a));
            for b in tails {
                v.push(format!("ctlm | ctl ; snd 1 ; {} ; {} ; {}", d, a, b));
            }
        }
    }
    v.push("ctlm | ctl ; snd 1 ; decl D:0a0b ; decl D:0a0b ; commit 0 A ; post 1 1 0 TA ; commit 1 A".into());
    v.push("ctlm | ctl ; snd 1 ; decl D:00 ; decl D:7f ; post 1 1 0 TA ; post 0 1 1 TA ; rollback 1 A ; commit 0 A".into());
    v
}

pub fn run_model_c(seed: u64, n: u64, thorough: bool, corpus: &[String], dir: &str) {
    crate::codec::quiet_panics();
    let mut out = Outputs::new(dir);
    let mut r = Rng::new(seed ^ 0x63746c6d);
    let mut lines: Vec<String> = corpus.iter().filter(|l| l.starts_with("ctlm")).cloned().collect();
    if n > 0 {
        let e = enum_cases_m();
        let take = if thorough { e.len() } else { e.len().min((n / 2) as usize) };
        let stride = (e.len() / take.max(1)).max(1);
        lines.extend(e.into_iter().step_by(stride).take(take));
        for _ in 0..n {
            lines.push(gen_case_cm(&mut r, thorough));
        }
    }
    let mut seen = std::collections::HashSet::new();
    for line in lines {
        if !seen.insert(line.clone()) {
            continue;
        }
        let real = line.replacen("ctlm", "txn-c", 1);
        let trace = run_case_c(&real);
        // the direct oracle of txn-c knows the answers a well-behaved coordinator gives (declared to a declare, accepted /
        // rejected to a discharge); the other combinations are judged here: a terminal state that is not the success
        // state of the call must not be reported as success
        let opsv: Vec<Vec<&str>> = real.split('|').nth(1).unwrap_or("").split(';').map(|x| x.split_whitespace().collect::<Vec<_>>()).filter(|x| !x.is_empty()).collect();
        let cross = opsv.iter().any(|w| match w[0] {
            "decl" => matches!(w.get(1).cloned(), Some("A") | Some("L")),
            "commit" | "rollback" => w.get(2).map(|a| *a == "L" || a.starts_with("D:")).unwrap_or(false),
            "disch" => w.get(3).map(|a| *a == "L" || a.starts_with("D:")).unwrap_or(false),
            _ => false,
        });
        if !cross {
            for w in oracle_c(&real, &trace) {
                let class = w.split(':').next().unwrap_or("c18-controller").to_string();
                out.violation(&class, &w, &line);
            }
        } else {
            let steps: Vec<&str> = trace.split('#').next().unwrap_or("").split(';').map(|x| x.trim()).collect();
            for (idx, w) in opsv.iter().enumerate() {
                let res = steps.get(idx + 1).map(|st| st.split('/').next().unwrap_or("").trim()).unwrap_or("");
                let ans = match w[0] {
                    "decl" => w.get(1).cloned(),
                    "commit" | "rollback" => w.get(2).cloned(),
                    "disch" => w.get(3).cloned(),
                    _ => None,
                };
                if let Some(a) = ans {
                    let wrong = if w[0] == "decl" { a == "A" || a == "L" } else { a == "L" || a.starts_with("D:") };
                    let wrote = steps.get(idx + 1).map(|st| st.contains("T0:")).unwrap_or(false);
                    if wrong && wrote && res.starts_with("ok") {
                        out.violation(
                            "c18-outcome-misreported",
                            &format!("c18-outcome-misreported: `{}` at step {}: the coordinator answered {} (neither the success state of this call nor a rejection) but the call returned {}", w.join(" "), idx + 1, a, res),
                            &line,
                        );
                    }
                }
            }
        }
        let ops = line.matches(';').count();
        out.count(&format!("ops: {}", ops.min(12)));
        for verb in ["decl", "post", "commit", "rollback", "disch", "drop"] {
            if line.contains(&format!("; {} ", verb)) {
                out.count(&format!("has {}", verb));
            }
        }
        if trace.contains("disch(") && trace.contains("ok(") {
            out.nontrivial(&line);
        }
        out.case(&line, &trace);
    }
    out.finish(dir);
}
