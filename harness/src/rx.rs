//! Receiving link against a scripted sender peer (C09 credit, C10 reassembly, C02 receiver side).
//!
//! case line: `rx mode=<auto:N|manual> second=<0|1> idc=<n> | ev ; ev ; ...`
//! events:
//!   `t did=<n|-> tag=<n|-> fmt=<n|-> set=<0|1|-> more=<0|1> rsm=<0|1|-> ab=<0|1> pay=<hex|->`
//!   `recv` `cred <n>` `drain` `pflow dc=<n|-> echo=<0|1>` `acc` `accn` `accall` `pset <first> <last>`
use crate::c12::{peer_begin, peer_open};
use crate::eng::*;
use crate::out::*;
use crate::rng::Rng;
use fe2o3_amqp::link::delivery::Delivery;
use fe2o3_amqp::link::receiver::CreditMode;
use fe2o3_amqp::types::definitions::{ReceiverSettleMode, Role, SenderSettleMode};
use fe2o3_amqp::types::messaging::{Accepted, Body, DeliveryState, Message, Source, Target};
use fe2o3_amqp::types::performatives::{Attach, Disposition, Flow, Performative, Transfer};
use fe2o3_amqp::types::primitives::Value;
use fe2o3_amqp::{Connection, Receiver, Session};
use serde_amqp::primitives::Binary;
use tokio::task::JoinHandle;

const PEER_HANDLE: u32 = 7;

fn hex(b: &[u8]) -> String {
    if b.is_empty() {
        "-".into()
    } else {
        b.iter().map(|x| format!("{:02x}", x)).collect()
    }
}
fn unhex(s: &str) -> Vec<u8> {
    if s == "-" {
        return vec![];
    }
    (0..s.len() / 2).map(|i| u8::from_str_radix(&s[2 * i..2 * i + 2], 16).unwrap()).collect()
}
fn tag_bytes(n: u32) -> Vec<u8> {
    n.to_be_bytes().to_vec()
}
fn tag_num(b: &[u8]) -> String {
    if b.len() == 4 {
        u32::from_be_bytes([b[0], b[1], b[2], b[3]]).to_string()
    } else {
        format!("x{}", hex(b))
    }
}

fn field<'a>(w: &'a [&'a str], k: &str) -> &'a str {
    for x in w {
        if let Some(v) = x.strip_prefix(k) {
            if let Some(v) = v.strip_prefix('=') {
                return v;
            }
        }
    }
    "-"
}
fn opt_u32(s: &str) -> Option<u32> {
    if s == "-" {
        None
    } else {
        Some(s.parse().unwrap())
    }
}

fn err_name(dbg: &str) -> String {
    let v = dbg.split(|c| c == '(' || c == '{' || c == ' ').next().unwrap_or(dbg);
    v.to_string()
}

pub fn peer_attach_sender(name: &str, idc: u32, second: bool) -> Performative {
    Performative::Attach(Attach {
        name: name.into(),
        handle: PEER_HANDLE.into(),
        role: Role::Sender,
        snd_settle_mode: SenderSettleMode::Mixed,
        rcv_settle_mode: if second { ReceiverSettleMode::Second } else { ReceiverSettleMode::First },
        source: Some(Box::new(Source::builder().address("q").build())),
        target: Some(Box::new(Target::builder().address("t").build().into())),
        unsettled: None,
        incomplete_unsettled: false,
        initial_delivery_count: Some(idc),
        max_message_size: None,
        offered_capabilities: None,
        desired_capabilities: None,
        properties: None,
    })
}

fn link_tokens(ws: &[Wire]) -> Vec<String> {
    let mut out = Vec::new();
    for w in ws {
        if let Wire::Frame { perf, .. } = w {
            match perf {
                Performative::Flow(f) => {
                    if f.handle.is_some() {
                        out.push(format!(
                            "F(dc={},c={},d={},e={})",
                            f.delivery_count.map(|v| v.to_string()).unwrap_or("-".into()),
                            f.link_credit.map(|v| v.to_string()).unwrap_or("-".into()),
                            f.drain as u8,
                            f.echo as u8
                        ));
                    }
                }
                Performative::Disposition(d) => out.push(format!(
                    "P({},{},{})",
                    d.first,
                    d.last.map(|l| l.to_string()).unwrap_or("-".into()),
                    if d.settled { "s" } else { "u" }
                )),
                Performative::Detach(d) => out.push(format!(
                    "D({}{})",
                    if d.closed { "c" } else { "" },
                    d.error.as_ref().map(|e| cond(&e.condition)).unwrap_or_default()
                )),
                Performative::End(_) => out.push("E".into()),
                Performative::Close(_) => out.push("C".into()),
                _ => {}
            }
        }
    }
    out
}

type Dlv = Delivery<Body<Value>>;

pub fn run_case(line: &str) -> String {
    let rest = line.strip_prefix("rx ").unwrap();
    let (hd, script) = rest.split_once('|').unwrap();
    let hw: Vec<&str> = hd.split_whitespace().collect();
    let mode = field(&hw, "mode").to_string();
    let second = field(&hw, "second") == "1";
    let idc: u32 = field(&hw, "idc").parse().unwrap();
    let evs: Vec<String> = script.split(';').map(|s| s.trim().to_string()).filter(|s| !s.is_empty()).collect();
    paused_rt().block_on(async move {
        let (a, b) = tokio::io::duplex(1 << 22);
        let mut peer = Peer::new(b);
        // ---- prelude: open, begin, attach ----
        let open_task = tokio::spawn(async move { Connection::builder().container_id("c").max_frame_size(65536u32).open_with_stream(a).await });
        barrier().await;
        peer.write(&AMQP_HEADER).await;
        peer.write(&frame_bytes(0, &peer_open(None, 10, 65536), &[])).await;
        barrier().await;
        let mut conn = match open_task.await {
            Ok(Ok(c)) => c,
            _ => return "PRELUDE-FAILED open".to_string(),
        };
        let _ = peer.drain().await;
        let bt = tokio::spawn(async move {
            let r = Session::begin(&mut conn).await;
            (conn, r)
        });
        barrier().await;
        peer.write(&frame_bytes(0, &peer_begin(Some(0)), &[])).await;
        barrier().await;
        let (_conn, mut session) = match bt.await {
            Ok((c, Ok(s))) => (c, s),
            _ => return "PRELUDE-FAILED begin".to_string(),
        };
        let _ = peer.drain().await;
        let cm = if let Some(n) = mode.strip_prefix("auto:") { CreditMode::Auto(n.parse().unwrap()) } else { CreditMode::Manual };
        let at = tokio::spawn(async move {
            let r = Receiver::builder()
                .name("r")
                .source("q")
                .credit_mode(cm)
                .auto_accept(false)
                .receiver_settle_mode(if second { ReceiverSettleMode::Second } else { ReceiverSettleMode::First })
                .attach(&mut session)
                .await;
            (session, r)
        });
        barrier().await;
        peer.write(&frame_bytes(0, &peer_attach_sender("r", idc, second), &[])).await;
        barrier().await;
        let (_session, receiver) = match at.await {
            Ok((s, Ok(r))) => (s, r),
            Ok((_, Err(e))) => return format!("PRELUDE-FAILED attach {:?}", e),
            _ => return "PRELUDE-FAILED attach".to_string(),
        };
        let first = link_tokens(&peer.drain().await);
        let mut out = format!("{} ; ", first.join(","));
        // ---- script ----
        let mut rcv: Option<Receiver> = Some(receiver);
        let mut recv_task: Option<JoinHandle<(Receiver, Result<Dlv, String>)>> = None;
        let mut recv_cancel: Option<tokio::sync::oneshot::Sender<()>> = None;
        let mut held: Vec<Dlv> = Vec::new();
        for ev in &evs {
            let w: Vec<&str> = ev.split_whitespace().collect();
            let mut api: Vec<String> = Vec::new();
            match w[0] {
                "t" => {
                    let tr = Transfer {
                        handle: PEER_HANDLE.into(),
                        delivery_id: opt_u32(field(&w, "did")),
                        delivery_tag: opt_u32(field(&w, "tag")).map(|t| Binary::from(tag_bytes(t))),
                        message_format: opt_u32(field(&w, "fmt")),
                        settled: match field(&w, "set") { "-" => None, v => Some(v == "1") },
                        more: field(&w, "more") == "1",
                        rcv_settle_mode: match field(&w, "rsm") {
                            "-" => None,
                            "1" => Some(ReceiverSettleMode::Second),
                            _ => Some(ReceiverSettleMode::First),
                        },
                        state: None,
                        resume: false,
                        aborted: field(&w, "ab") == "1",
                        batchable: false,
                    };
                    peer.write(&frame_bytes(0, &Performative::Transfer(tr), &unhex(field(&w, "pay")))).await;
                }
                "recv" => {
                    if recv_task.is_none() {
                        if let Some(mut r) = rcv.take() {
                            let (ctx, mut crx) = tokio::sync::oneshot::channel::<()>();
                            recv_cancel = Some(ctx);
                            recv_task = Some(tokio::spawn(async move {
                                // the recv future is dropped when the cancel signal arrives; the receiver survives
                                let res = {
                                    let fut = r.recv::<Body<Value>>();
                                    tokio::pin!(fut);
                                    tokio::select! {
                                        biased;
                                        _ = &mut crx => Err("CANCELLED".to_string()),
                                        x = &mut fut => x.map_err(|e| err_name(&format!("{:?}", e))),
                                    }
                                };
                                (r, res)
                            }));
                        }
                    }
                }
                "rcancel" => {
                    if recv_task.is_some() {
                        if let Some(c) = recv_cancel.take() {
                            let _ = c.send(());
                        }
                    }
                }
                "cred" => {
                    if let Some(r) = rcv.as_mut() {
                        if let Err(e) = r.set_credit(w[1].parse().unwrap()).await {
                            api.push(format!("cred=err:{}", err_name(&format!("{:?}", e))));
                        }
                    }
                }
                "drain" => {
                    if let Some(r) = rcv.as_mut() {
                        if let Err(e) = r.drain().await {
                            api.push(format!("drain=err:{}", err_name(&format!("{:?}", e))));
                        }
                    }
                }
                "pflow" => {
                    let f = Flow {
                        next_incoming_id: Some(0),
                        incoming_window: 1000,
                        next_outgoing_id: 0,
                        outgoing_window: 1000,
                        handle: Some(PEER_HANDLE.into()),
                        delivery_count: opt_u32(field(&w, "dc")),
                        link_credit: Some(0),
                        available: Some(0),
                        drain: false,
                        echo: field(&w, "echo") == "1",
                        properties: None,
                    };
                    peer.write(&frame_bytes(0, &Performative::Flow(f), &[])).await;
                }
                "acc" | "accn" => {
                    if let Some(r) = rcv.as_ref() {
                        if !held.is_empty() {
                            let d = if w[0] == "acc" { held.remove(0) } else { held.pop().unwrap() };
                            if let Err(e) = r.accept(&d).await {
                                api.push(format!("acc=err:{}", err_name(&format!("{:?}", e))));
                            }
                        }
                    }
                }
                "accall" => {
                    if let Some(r) = rcv.as_ref() {
                        if !held.is_empty() {
                            let ds: Vec<Dlv> = std::mem::take(&mut held);
                            if let Err(e) = r.accept_all(ds.iter()).await {
                                api.push(format!("accall=err:{}", err_name(&format!("{:?}", e))));
                            }
                        }
                    }
                }
                "pset" => {
                    let d = Disposition {
                        role: Role::Sender,
                        first: w[1].parse().unwrap(),
                        last: Some(w[2].parse().unwrap()),
                        settled: true,
                        state: Some(DeliveryState::Accepted(Accepted {})),
                        batchable: false,
                    };
                    peer.write(&frame_bytes(0, &Performative::Disposition(d), &[])).await;
                }
                _ => panic!("bad rx event {}", ev),
            }
            barrier().await;
            let mut obs = vec![link_tokens(&peer.drain().await).join(",")];
            if let Some(t) = &recv_task {
                if t.is_finished() {
                    match recv_task.take().unwrap().await {
                        Ok((r, res)) => {
                            rcv = Some(r);
                            match res {
                                Ok(d) => {
                                    let bytes = serde_amqp::to_vec(&fe2o3_amqp::types::messaging::message::__private::Serializable(d.message())).unwrap_or_default();
                                    obs.push(format!(
                                        "recv=ok(d={},t={},fmt={},msg={})",
                                        d.delivery_id(),
                                        tag_num(d.delivery_tag()),
                                        d.message_format().map(|v| v.to_string()).unwrap_or("-".into()),
                                        hex(&bytes)
                                    ));
                                    held.push(d);
                                }
                                Err(e) if e == "CANCELLED" => {}
                                Err(e) => obs.push(format!("recv=err:{}", e)),
                            }
                        }
                        Err(_) => obs.push("recv=PANIC".into()),
                    }
                }
            }
            obs.extend(api);
            out.push_str(&obs.join(" "));
            out.push_str(" ; ");
        }
        // final state
        let mut fin = Vec::new();
        if recv_task.is_some() {
            fin.push("recv=PENDING".to_string());
        }
        if let Some(r) = &rcv {
            let (mut tags, (credit, dc, drain)) = fe2o3_amqp::verif::receiver_unsettled_and_flow(r);
            tags.sort();
            fin.push(format!("credit={} dc={} drain={} unsettled=[{}]", credit, dc, drain as u8, tags.iter().map(|t| tag_num(t)).collect::<Vec<_>>().join(",")));
        }
        out.push_str(&format!("# {}", fin.join(" ")));
        out
    })
}

/// the properties checked directly on the observed trace (no model involved)
pub fn direct_oracle(line: &str, trace: &str) -> Vec<String> {
    let mut v = Vec::new();
    let rest = line.strip_prefix("rx ").unwrap();
    let (hd, script) = rest.split_once('|').unwrap();
    let hw: Vec<&str> = hd.split_whitespace().collect();
    let link_second = field(&hw, "second") == "1";
    let idc: u32 = field(&hw, "idc").parse().unwrap();
    let evs: Vec<Vec<String>> = script.split(';').map(|s| s.split_whitespace().map(|x| x.to_string()).collect::<Vec<_>>()).filter(|s: &Vec<String>| !s.is_empty()).collect();
    let body = trace.split('#').next().unwrap_or("");
    let steps: Vec<&str> = body.split(';').map(|s| s.trim()).collect();
    let fin = trace.split('#').nth(1).unwrap_or("");
    // scripts with protocol faults by the peer are left to the model comparison
    let faulty = trace.contains("recv=err");
    // per delivery: mode override, arrival complete
    let mut second_of: std::collections::HashMap<u32, bool> = std::collections::HashMap::new();
    let mut cur_first: Option<u32> = None;
    let mut dc_spec: u32 = idc; // last learnt from the sender, advanced by the deliveries that have arrived completely since
    let mut dc_learnt: u32 = idc; // last learnt from the sender
    let mut received_ok: Vec<(u32, usize)> = Vec::new();
    let mut settled_after_recv: Vec<u32> = Vec::new();
    let mut settled_early: Vec<u32> = Vec::new();
    let mut budget: Option<i64> = None; // deliveries still allowed since the last flow we wrote
    let first_tokens: Vec<&str> = steps.first().map(|s| s.split_whitespace().next().unwrap_or("").split(',').collect()).unwrap_or_default();
    for t in first_tokens {
        if let Some(c) = t.strip_prefix("F(").and_then(|x| x.split(',').nth(1)).and_then(|x| x.strip_prefix("c=")) {
            budget = c.parse().ok();
        }
    }
    // C10: as long as the sender has kept to the protocol (no abort, no contradictory continuation, no transfer beyond
    // the credit) every delivery is a well-formed message, however it was cut: recv() must not fail to decode it
    let mut peer_fault = false;
    let mut credit_left: Option<i64> = steps.first().and_then(|s0| s0.split(",c=").nth(1)).and_then(|x| x.split(',').next()).and_then(|x| x.parse().ok());
    let mut contradicted: Vec<u32> = Vec::new();
    let mut first_fields: Option<(String, String, String)> = None;
    for (i, e) in evs.iter().enumerate() {
        let st = steps.get(i + 1).cloned().unwrap_or("");
        let w: Vec<&str> = e.iter().map(|x| x.as_str()).collect();
        if w[0] == "t" {
            let f = (field(&w, "did").to_string(), field(&w, "tag").to_string(), field(&w, "fmt").to_string());
            match &first_fields {
                None => first_fields = Some(f),
                Some(ff) => {
                    if (f.0 != "-" && f.0 != ff.0) || (f.1 != "-" && f.1 != ff.1) || (f.2 != "-" && f.2 != ff.2) {
                        peer_fault = true;
                        if let Ok(d) = ff.0.parse::<u32>() {
                            contradicted.push(d);
                        }
                    }
                }
            }
            // an abort is not a fault: the sender may abandon a delivery at any frame; a consistent abort frame (fields omitted
            // or repeated) leaves a clean state and the deliveries that follow must be received as if nothing had happened
            // asking for rcv-settle-mode second on a link negotiated as first is the sender's fault
            if field(&w, "rsm") == "1" && !link_second {
                peer_fault = true;
            }
            if field(&w, "ab") == "1" || field(&w, "more") == "0" {
                first_fields = None;
            }
        }
        for tok in st.split_whitespace() {
            // C09: the credit we issued is honoured down to its last unit
            if tok.starts_with("recv=ok(") {
                if let Some(c) = credit_left.as_mut() {
                    *c -= 1;
                }
            }
            // C09: the automatic top-up after a delivery was processed grants credit - it does not ask the sender to drain: a
            // flow with the drain flag in a step whose event is not the application's drain() (nor an answer to the peer's
            // echo request, which reports the state as it is) would make a spec-abiding sender burn the credit it was just given
            if tok.starts_with("F(") && tok.contains(",d=1,") && matches!(w[0], "acc" | "accn" | "accall" | "recv") {
                v.push(format!("c09-topup-keeps-draining: the flow written by the automatic credit top-up at step {} carries drain=true ({})", i + 1, tok));
            }
            if tok.starts_with("recv=err:TransferLimitExceeded") && !peer_fault {
                if let Some(c) = credit_left {
                    if c >= 1 {
                        v.push(format!("c09-limit-with-credit-left: recv() at step {} reports a transfer-limit violation although {} of the credit issued by the last flow is unused and the sender has kept to the protocol", i + 1, c));
                    }
                }
            }
            {
                let mut rest_tok: &str = tok;
                while let Some(pos) = rest_tok.find("F(") {
                    let inner = &rest_tok[pos + 2..];
                    let end = inner.find(')').unwrap_or(inner.len());
                    for kv in inner[..end].split(',') {
                        if let Some(c) = kv.strip_prefix("c=") {
                            credit_left = c.parse().ok();
                        }
                    }
                    rest_tok = &inner[end..];
                }
            }
            if let Some(err) = tok.strip_prefix("recv=err:") {
                if err.starts_with("MessageDecode") && !peer_fault {
                    v.push(format!("c10-valid-message-undecodable: recv() at step {} failed with {} although every delivery so far was a well-formed message sent within the protocol", i + 1, err));
                } else if !err.starts_with("TransferLimitExceeded") && !peer_fault {
                    v.push(format!("c10-valid-delivery-refused: recv() at step {} failed with {} although every delivery so far was sent within the protocol (first frame with id, tag and format; later frames omit or repeat them)", i + 1, err));
                }
                peer_fault = true;
            }
            // a delivery with a contradictory continuation must be reported, not returned
            if let Some(r) = tok.strip_prefix("recv=ok(") {
                let did: Option<u32> = r.split(',').next().and_then(|x| x.strip_prefix("d=")).and_then(|x| x.parse().ok());
                if let Some(d) = did {
                    if contradicted.contains(&d) {
                        v.push(format!("c10-contradiction-accepted: delivery {} had a continuation frame whose delivery-id, tag or format contradicts its first frame, yet recv() returned it", d));
                    }
                }
            }
        }
        match w[0] {
            "t" => {
                let did = opt_u32(field(&w, "did"));
                if cur_first.is_none() {
                    cur_first = did;
                    if let Some(d) = did {
                        let ov = match field(&w, "rsm") { "1" => Some(true), "0" => Some(false), _ => None };
                        second_of.insert(d, ov.unwrap_or(link_second));
                    }
                }
                if field(&w, "ab") == "1" {
                    cur_first = None;
                } else if field(&w, "more") == "0" {
                    cur_first = None;
                    dc_spec = dc_spec.wrapping_add(1);
                }
            }
            "pflow" => {
                if let Some(dc) = opt_u32(field(&w, "dc")) {
                    dc_spec = dc;
                    dc_learnt = dc;
                }
            }
            "pset" => {
                let (f, l): (u32, u32) = (w[1].parse().unwrap(), w[2].parse().unwrap());
                for (d, _) in &received_ok {
                    if f <= *d && *d <= l && second_of.get(d).cloned().unwrap_or(link_second) {
                        settled_after_recv.push(*d);
                    }
                }
                // ids settled by the sender before the application has taken the delivery (the disposition overtakes the queued transfer)
                let mut d = f;
                while d <= l {
                    if !received_ok.iter().any(|(x, _)| *x == d) {
                        settled_early.push(d);
                    }
                    if d == u32::MAX {
                        break;
                    }
                    d += 1;
                    if d.wrapping_sub(f) > 64 {
                        break;
                    }
                }
            }
            _ => {}
        }
        for tok in st.split_whitespace() {
            if let Some(r) = tok.strip_prefix("recv=ok(") {
                let did: u32 = r.split(',').next().and_then(|x| x.strip_prefix("d=")).and_then(|x| x.parse().ok()).unwrap_or(0);
                let msg = r.split("msg=").nth(1).unwrap_or("").trim_end_matches(')');
                received_ok.push((did, i));
                // C10: exactly the message that was fragmented
                if msg != hex(&message_bytes(did)) {
                    v.push(format!("c10-message-altered: delivery {} was returned as {} but {} was sent", did, msg, hex(&message_bytes(did))));
                }
                if received_ok.iter().filter(|(d, _)| *d == did).count() > 1 {
                    v.push(format!("c10-delivered-twice: delivery {} was returned twice", did));
                }
                if let Some(b) = budget.as_mut() {
                    *b -= 1;
                    if *b < 0 {
                        v.push(format!("c09-credit-overrun: delivery {} accepted beyond the credit issued", did));
                    }
                }
            }
            for t in tok.split(',') {
                if let Some(r) = t.strip_prefix("F(dc=") {
                    let dc: u32 = r.split(|c| c == ',' || c == ')').next().and_then(|x| x.parse().ok()).unwrap_or(0);
                    // C09: never ahead of what the sender has told us plus what has arrived since
                    let ahead = dc.wrapping_sub(dc_spec);
                    if !faulty && ahead != 0 && ahead < 0x8000_0000 {
                        v.push(format!("c09-dc-double-count: flow reports delivery-count {} but the sender's last count plus arrivals is {}", dc, dc_spec));
                    }
                    // the receiver counts a delivery when the application takes it, so it may lag behind the arrivals,
                    // but never behind the last count the sender has told it
                    if !faulty && dc.wrapping_sub(dc_learnt) >= 0x8000_0000 {
                        v.push(format!("c09-dc-stale: flow reports delivery-count {} although the sender's last flow said {} (serial arithmetic)", dc, dc_learnt));
                    }
                }
                if let Some(r) = t.strip_prefix("P(") {
                    let parts: Vec<&str> = r.trim_end_matches(')').split(',').collect();
                    // the joined token was split on ',' - reassemble from the original token instead
                    let _ = parts;
                }
            }
            // dispositions: P(first,last,flag) tokens contain commas; parse from the whole step token
            let mut rest_tok = tok;
            while let Some(pos) = rest_tok.find("P(") {
                let inner = &rest_tok[pos + 2..];
                let end = inner.find(')').unwrap_or(inner.len());
                let parts: Vec<&str> = inner[..end].split(',').collect();
                if parts.len() == 3 {
                    let f: u32 = parts[0].parse().unwrap_or(0);
                    let l: u32 = if parts[1] == "-" { f } else { parts[1].parse().unwrap_or(f) };
                    let mut d = f;
                    loop {
                        let sec = second_of.get(&d).cloned().unwrap_or(link_second);
                        if sec && parts[2] == "s" {
                            v.push(format!("c02-receiver-settled-first: delivery {} is in rcv-settle-mode second but was settled by the receiver's own disposition", d));
                        }
                        if !sec && parts[2] == "u" {
                            v.push(format!("c02-receiver-not-settled: delivery {} is in rcv-settle-mode first but the disposition is not settled", d));
                        }
                        if d == l {
                            break;
                        }
                        d = d.wrapping_add(1);
                    }
                }
                rest_tok = &inner[end..];
            }
            // a flow we write resets the budget
            let mut rest_tok = tok;
            while let Some(pos) = rest_tok.find("F(") {
                let inner = &rest_tok[pos + 2..];
                let end = inner.find(')').unwrap_or(inner.len());
                for kv in inner[..end].split(',') {
                    if let Some(c) = kv.strip_prefix("c=") {
                        budget = c.parse().ok();
                    }
                }
                rest_tok = &inner[end..];
            }
        }
    }
    // C09 replenishment: in automatic credit mode (and without set_credit / drain calls or peer faults), once the
    // application has taken and accepted everything that arrived, the sender must not be left without credit
    let auto = field(&hw, "mode").starts_with("auto");
    let sender_moves_count = evs.iter().any(|e| e[0] == "pflow" && e.iter().any(|x| x.starts_with("dc=") && x != "dc=-"));
    let peer_faults = evs.iter().any(|e| e[0] == "t" && e.iter().any(|x| x == "ab=1")) || {
        // a continuation that contradicts the first frame of its delivery
        let mut first: Option<(String, String)> = None;
        let mut bad = false;
        for e in &evs {
            if e[0] == "t" {
                let w: Vec<&str> = e.iter().map(|x| x.as_str()).collect();
                let f = (field(&w, "did").to_string(), field(&w, "tag").to_string());
                match &first {
                    None => first = Some(f),
                    Some(ff) => {
                        if (f.0 != "-" && f.0 != ff.0) || (f.1 != "-" && f.1 != ff.1) {
                            bad = true;
                        }
                    }
                }
                if field(&w, "more") == "0" {
                    first = None;
                }
            }
        }
        bad
    };
    if auto && !peer_faults && !sender_moves_count && !evs.iter().any(|e| matches!(e[0].as_str(), "cred" | "drain")) {
        let mut limit: Option<u32> = None; // delivery-count + credit of the last flow we wrote
        let mut sender_dc: u32 = idc; // deliveries the sender has sent completely
        let mut held: Vec<u32> = Vec::new(); // returned by recv(), not yet accepted
        let mut arrived_not_taken = 0usize;
        let mut open_delivery = false;
        let scan_flows = |st: &str, limit: &mut Option<u32>| {
            let mut rest_tok = st;
            while let Some(pos) = rest_tok.find("F(") {
                let inner = &rest_tok[pos + 2..];
                let end = inner.find(')').unwrap_or(inner.len());
                let (mut dc, mut c) = (None, None);
                for kv in inner[..end].split(',') {
                    if let Some(x) = kv.strip_prefix("dc=") {
                        dc = x.parse::<u32>().ok();
                    }
                    if let Some(x) = kv.strip_prefix("c=") {
                        c = x.parse::<u32>().ok();
                    }
                }
                if let (Some(dc), Some(c)) = (dc, c) {
                    *limit = Some(dc.wrapping_add(c));
                }
                rest_tok = &inner[end..];
            }
        };
        scan_flows(steps.first().cloned().unwrap_or(""), &mut limit);
        let mut recv_pending = false; // the receiver is inside a pending recv(): accept events of the script are no-ops
        for (i, e) in evs.iter().enumerate() {
            let st = steps.get(i + 1).cloned().unwrap_or("");
            let w: Vec<&str> = e.iter().map(|x| x.as_str()).collect();
            if st.contains("recv=") || w[0] == "rcancel" {
                recv_pending = false;
            } else if w[0] == "recv" {
                recv_pending = true;
            }
            if (recv_pending && matches!(w[0], "acc" | "accn" | "accall")) || st.contains("recv=err") {
                break; // not judged
            }
            match w[0] {
                "t" => {
                    open_delivery = true;
                    if field(&w, "ab") == "1" {
                        open_delivery = false;
                    } else if field(&w, "more") == "0" {
                        open_delivery = false;
                        sender_dc = sender_dc.wrapping_add(1);
                        arrived_not_taken += 1;
                    }
                }
                "pflow" => {
                    if let Some(dc) = opt_u32(field(&w, "dc")) {
                        sender_dc = dc;
                    }
                }
                "acc" => {
                    if !held.is_empty() {
                        held.remove(0);
                    }
                }
                "accn" => {
                    held.pop();
                }
                "accall" => held.clear(),
                _ => {}
            }
            for tok in st.split_whitespace() {
                if let Some(r) = tok.strip_prefix("recv=ok(") {
                    let did: u32 = r.split(',').next().and_then(|x| x.strip_prefix("d=")).and_then(|x| x.parse().ok()).unwrap_or(0);
                    held.push(did);
                    arrived_not_taken = arrived_not_taken.saturating_sub(1);
                }
            }
            scan_flows(st, &mut limit);
            if let Some(l) = limit {
                if l == sender_dc && held.is_empty() && arrived_not_taken == 0 && !open_delivery {
                    v.push(format!("c09-auto-credit-stall: after step {} the application has taken and accepted every delivery, yet the last flow allows deliveries only up to count {} which the sender has reached: a sender that respects credit is stalled", i + 1, l));
                    break;
                }
            }
        }
    }
    // C02: a delivery the sender has settled - on its first frame or on a later one - is settled: the receiver writes no
    // disposition for it and does not keep it
    if !faulty {
        let mut sender_settled: Vec<u32> = Vec::new();
        let mut cur: Option<u32> = None;
        let mut cur_settled = false;
        for e in &evs {
            if e[0] == "t" {
                let w: Vec<&str> = e.iter().map(|x| x.as_str()).collect();
                if cur.is_none() {
                    cur = opt_u32(field(&w, "did"));
                    cur_settled = false;
                }
                if field(&w, "set") == "1" {
                    cur_settled = true;
                }
                if field(&w, "ab") == "1" {
                    cur = None;
                } else if field(&w, "more") == "0" {
                    if let Some(d) = cur.take() {
                        if cur_settled {
                            sender_settled.push(d);
                        }
                    }
                }
            }
        }
        for st in &steps {
            let mut rest_tok: &str = st;
            while let Some(pos) = rest_tok.find("P(") {
                let inner = &rest_tok[pos + 2..];
                let end = inner.find(')').unwrap_or(inner.len());
                let parts: Vec<&str> = inner[..end].split(',').collect();
                if parts.len() == 3 {
                    let f: u32 = parts[0].parse().unwrap_or(0);
                    let l: u32 = if parts[1] == "-" { f } else { parts[1].parse().unwrap_or(f) };
                    for d in &sender_settled {
                        if f <= *d && *d <= l {
                            v.push(format!("c02-disposition-for-settled: the sender settled delivery {} (on one of its frames), yet the receiver wrote a disposition for it", d));
                        }
                    }
                }
                rest_tok = &inner[end..];
            }
        }
        if let Some(u) = fin.split("unsettled=[").nth(1) {
            let tags: Vec<u32> = u.trim_end_matches(|c| c == ']' || c == ' ').split(',').filter_map(|x| x.parse().ok()).collect();
            for d in &sender_settled {
                if tags.contains(d) {
                    v.push(format!("c02-receiver-retained-settled: delivery {} was settled by the sender on one of its frames and is still in the receiver's unsettled map", d));
                }
            }
        }
    }
    // C16/C01: with cancellations anywhere, what the completed recv() calls return is a prefix of what was sent completely, in order
    if !faulty {
        let mut sent_complete: Vec<u32> = Vec::new();
        let mut cur: Option<u32> = None;
        for e in &evs {
            if e[0] == "t" {
                let w: Vec<&str> = e.iter().map(|x| x.as_str()).collect();
                if cur.is_none() {
                    cur = opt_u32(field(&w, "did"));
                }
                if field(&w, "ab") == "1" {
                    cur = None;
                } else if field(&w, "more") == "0" {
                    if let Some(d) = cur.take() {
                        sent_complete.push(d);
                    }
                }
            }
        }
        let got: Vec<u32> = received_ok.iter().map(|(d, _)| *d).collect();
        if got.len() > sent_complete.len() || got[..] != sent_complete[..got.len()] {
            v.push(format!("c16-recv-lost-or-duplicated: recv() returned deliveries {:?} but {:?} were sent", got, sent_complete));
        }
    }
    // C02: a mode-second delivery the sender settled after we had taken it is no longer unsettled
    if let Some(u) = fin.split("unsettled=[").nth(1) {
        let tags: Vec<u32> = u.trim_end_matches(|c| c == ']' || c == ' ').split(',').filter_map(|x| x.parse().ok()).collect();
        for d in settled_after_recv {
            if tags.contains(&d) && !faulty {
                let class = if settled_early.contains(&d) { "c02-receiver-retained-overtaken" } else { "c02-receiver-retained" };
                v.push(format!("{}: delivery {} is still in the receiver's unsettled map after the sender settled it", class, d));
            }
        }
    }
    v
}

// ---------- messages and generation ----------

pub fn message_bytes(k: u32) -> Vec<u8> {
    use fe2o3_amqp::types::messaging::{Header, Properties};
    let body: Value = match k % 4 {
        0 => Value::String(format!("message-{}", k)),
        1 => Value::Binary(serde_amqp::primitives::Binary::from((0..(k % 37 + 3) as u8).map(|i| i.wrapping_mul(7).wrapping_add(k as u8)).collect::<Vec<u8>>())),
        2 => Value::Long(k as i64 * 1_000_003),
        _ => Value::String("x".repeat((k % 90) as usize + 1)),
    };
    let mut b = Message::builder();
    let m = if k % 3 == 0 {
        b = b.header(Header { durable: true, ..Default::default() });
        b.properties(Properties::builder().message_id(k as u64).build()).value(body).build()
    } else if k % 3 == 1 {
        b.properties(Properties::builder().message_id(k as u64).build()).value(body).build()
    } else {
        b.value(body).build()
    };
    serde_amqp::to_vec(&fe2o3_amqp::types::messaging::message::__private::Serializable(&m)).unwrap()
}

fn tline(did: Option<u32>, tag: Option<u32>, fmt: Option<u32>, set: Option<bool>, more: bool, rsm: Option<bool>, ab: bool, pay: &[u8]) -> String {
    let o = |v: Option<u32>| v.map(|x| x.to_string()).unwrap_or("-".into());
    let ob = |v: Option<bool>| v.map(|x| (x as u8).to_string()).unwrap_or("-".into());
    format!("t did={} tag={} fmt={} set={} more={} rsm={} ab={} pay={}", o(did), o(tag), o(fmt), ob(set), more as u8, ob(rsm), ab as u8, hex(pay))
}

/// the frames of one delivery: payload split at random offsets, optional fields repeated or omitted on continuation
fn delivery_frames(r: &mut Rng, did: u32, settled: Option<bool>, rsm: Option<bool>, faults: bool) -> Vec<String> {
    let bytes = message_bytes(did);
    let nfr = match r.below(10) {
        0..=4 => 1,
        5..=7 => 2,
        8 => 3,
        _ => r.range(4, 7) as usize,
    };
    let mut cuts: Vec<usize> = (0..nfr - 1).map(|_| r.below(bytes.len() as u64 + 1) as usize).collect();
    cuts.sort();
    let mut frames = Vec::new();
    let mut prev = 0;
    let abort_at = if faults && r.below(12) == 0 { Some(r.below(nfr as u64) as usize) } else { None };
    let contradict = if faults && nfr > 1 && r.below(14) == 0 { Some(r.range(1, nfr as u64 - 1) as usize) } else { None };
    for i in 0..nfr {
        let end = if i == nfr - 1 { bytes.len() } else { cuts[i] };
        let chunk = &bytes[prev..end];
        prev = end;
        let first = i == 0;
        // continuation: 0 omit all, 1 repeat all, 2 repeat some; after a contradictory frame the rest omits everything
        // (the receiver has dropped the delivery: what follows is a delivery without id, an error - no decoding involved)
        let rep = if contradict.map(|c| i > c).unwrap_or(false) { 0 } else { r.below(3) };
        let mut d = if first || rep == 1 || (rep == 2 && r.below(2) == 0) { Some(did) } else { None };
        let mut t = if first || rep == 1 || (rep == 2 && r.below(2) == 0) { Some(did) } else { None };
        let f = if first || rep == 1 { Some(0) } else { None };
        if contradict == Some(i) {
            if r.below(2) == 0 {
                d = Some(did.wrapping_add(1));
            } else {
                t = Some(did.wrapping_add(1));
            }
        }
        // a later frame may settle a delivery whose first frame did not (a later `true` overrides)
        let set = if first {
            settled
        } else if settled != Some(true) && r.below(6) == 0 {
            Some(true)
        } else if r.below(2) == 0 {
            settled
        } else {
            None
        };
        if abort_at == Some(i) {
            frames.push(tline(d, t, f, set, r.below(2) == 0, rsm, true, if r.below(2) == 0 { chunk } else { &[] }));
            return frames;
        }
        frames.push(tline(d, t, f, set, i != nfr - 1, if first { rsm } else { None }, false, chunk));
    }
    frames
}

pub fn gen_case(r: &mut Rng, thorough: bool) -> String {
    let mode = match r.below(6) {
        0 => "manual".to_string(),
        1 => "auto:1".to_string(),
        2 => "auto:2".to_string(),
        3 => "auto:3".to_string(),
        4 => "auto:5".to_string(),
        _ => format!("auto:{}", r.range(4, 12)),
    };
    let second = r.below(3) == 0;
    let idc: u32 = match r.below(4) {
        0 => 0,
        1 => u32::MAX - r.below(4) as u32,
        2 => r.below(1000) as u32,
        _ => u32::MAX / 2 + r.below(3) as u32,
    };
    let mut did: u32 = match r.below(3) {
        0 => 0,
        1 => u32::MAX - r.below(3) as u32,
        _ => r.below(100) as u32,
    };
    let mut evs: Vec<String> = Vec::new();
    if mode.starts_with("auto") && r.below(6) == 0 {
        // a stream: a sender that respects credit sends as long as it has credit; the application takes and accepts
        // every delivery (one by one or in batches); all deliveries of one stream are settled the same way
        let max: u64 = mode[5..].parse().unwrap_or(1);
        let settled = match r.below(3) { 0 => Some(true), 1 => Some(false), _ => None };
        let total = max * 2 + r.range(1, if thorough { 40 } else { 12 });
        let batch = r.range(1, max.max(1)) as usize;
        let mut pending = 0usize;
        for k in 0..total {
            for f in delivery_frames(r, did, settled, None, false) {
                evs.push(f);
            }
            did = did.wrapping_add(1);
            evs.push("recv".into());
            pending += 1;
            if pending >= batch || k == total - 1 {
                evs.push(if pending == 1 { "acc".into() } else { "accall".into() });
                pending = 0;
            }
        }
        return format!("rx mode={} second={} idc={} | {}", mode, if second { 1 } else { 0 }, idc, evs.join(" ; "));
    }
    let n = r.range(3, if thorough { 30 } else { 16 });
    let faults = r.below(3) == 0;
    let mut dc_peer = idc; // what an honest sender would report
    for _ in 0..n {
        match r.below(20) {
            0..=7 => {
                let settled = match r.below(5) { 0 => Some(true), 1 => Some(false), _ => None };
                let rsm = if r.below(6) == 0 { Some(r.below(2) == 0) } else { None };
                let fr = delivery_frames(r, did, settled, rsm, faults);
                evs.extend(fr);
                did = did.wrapping_add(1);
                dc_peer = dc_peer.wrapping_add(1);
            }
            8..=10 => evs.push("recv".into()),
            11 => evs.push(if r.below(2) == 0 { "rcancel".into() } else { "recv".into() }),
            12 => evs.push(format!("cred {}", r.below(6))),
            13 => evs.push("drain".into()),
            14 => {
                // the sender reports its delivery-count: truthful, or advanced (drain completed / credit used up)
                let dc = match r.below(4) { 0 => "-".to_string(), 1 => dc_peer.to_string(), _ => { dc_peer = dc_peer.wrapping_add(r.below(4) as u32); dc_peer.to_string() } };
                evs.push(format!("pflow dc={} echo={}", dc, r.below(2)));
            }
            15..=16 => evs.push("acc".into()),
            17 => evs.push("accn".into()),
            18 => evs.push("accall".into()),
            _ => {
                let f = did.wrapping_sub(r.range(1, 4) as u32);
                evs.push(format!("pset {} {}", f, f.wrapping_add(r.below(3) as u32)));
            }
        }
    }
    format!("rx mode={} second={} idc={} | {}", mode, second as u8, idc, evs.join(" ; "))
}

pub fn run(seed: u64, n: u64, thorough: bool, corpus: &[String], dir: &str) {
    crate::codec::quiet_panics();
    let mut out = Outputs::new(dir);
    let mut r = Rng::new(seed);
    let mut lines: Vec<String> = Vec::new();
    for l in corpus {
        if l.starts_with("rx ") {
            out.count("corpus_cases");
            lines.push(l.clone());
        }
    }
    for _ in 0..n {
        lines.push(gen_case(&mut r, thorough));
    }
    for line in lines {
        let t = match std::panic::catch_unwind(|| run_case(&line)) {
            Ok(t) => t,
            Err(_) => "HARNESS-PANIC".to_string(),
        };
        out.count(&format!("mode_{}", line.split_whitespace().nth(1).unwrap_or("?").split(':').next().unwrap_or("?")));
        out.add("deliveries_received", t.matches("recv=ok").count() as u64);
        out.add("recv_errors", t.matches("recv=err").count() as u64);
        out.add("multi_frame_first_frames", line.matches("more=1").count() as u64);
        if t.matches("recv=ok").count() >= 2 {
            out.nontrivial(&line);
        }
        for vv in direct_oracle(&line, &t) {
            let class = vv.split(':').next().unwrap_or("?").to_string();
            out.violation(&class, &format!("{} | `{}` -> {}", vv, line, t), &line);
        }
        if t.contains("PANIC") {
            out.violation("c15-panic", &format!("c15-panic: {} -> {}", line, t), &line);
        }
        out.case(&line, &t);
    }
    out.finish(dir);
}
