//! Value codec sub-harness (C03, C04, C05, C20): `enc <value>` and `dec <hex>` cases.
use crate::out::*;
use crate::rng::Rng;
use crate::val::*;
use serde_amqp::Value;
use std::panic::{catch_unwind, AssertUnwindSafe};

pub fn quiet_panics() {
    std::panic::set_hook(Box::new(|_| {}));
}

pub fn impl_enc(v: &Value) -> String {
    match catch_unwind(AssertUnwindSafe(|| serde_amqp::to_vec(v))) {
        Ok(Ok(b)) => format!("OK {}", hex(&b)),
        Ok(Err(_)) => "ERR".to_string(),
        Err(_) => "PANIC".to_string(),
    }
}

pub fn impl_dec(b: &[u8]) -> String {
    let owned = b.to_vec();
    // a decoder that does not return is a finding of its own (SPIN), not a hang of the harness
    match crate::out::guarded(10, move || match catch_unwind(AssertUnwindSafe(|| serde_amqp::from_slice::<Value>(&owned))) {
        Ok(Ok(v)) => format!("OK {}", text(&v)),
        Ok(Err(_)) => "ERR".to_string(),
        Err(_) => "PANIC".to_string(),
    }) {
        Some(r) => r,
        None => "SPIN".to_string(),
    }
}

/// structure-aware corruption of a valid encoding
pub fn mutate(r: &mut Rng, b: &[u8]) -> Vec<u8> {
    let mut v = b.to_vec();
    if v.is_empty() {
        return vec![r.next() as u8];
    }
    match r.below(8) {
        0 => {
            let n = r.below(v.len() as u64) as usize;
            v.truncate(n);
        }
        1 => {
            let i = r.below(v.len() as u64) as usize;
            v[i] = *r.pick(&[0u8, 1, 2, 0xff, 0x7f, 0x80, 0xfe]);
        }
        2 => {
            let i = r.below(v.len() as u64) as usize;
            v[i] = v[i].wrapping_add(1);
        }
        3 => {
            let i = r.below(v.len() as u64) as usize;
            v[i] = v[i].wrapping_sub(1);
        }
        4 => {
            let i = r.below(v.len() as u64) as usize;
            v[i] = r.next() as u8;
        }
        5 => {
            let i = r.below(v.len() as u64 + 1) as usize;
            v.insert(i, r.next() as u8);
        }
        6 => {
            let i = r.below(v.len() as u64) as usize;
            v.remove(i);
        }
        _ => {
            // replace a constructor by another known code
            let i = r.below(v.len() as u64) as usize;
            v[i] = *r.pick(&[0x00u8, 0x40, 0x41, 0x45, 0x56, 0x70, 0x80, 0xa0, 0xa1, 0xa3, 0xb0, 0xb1, 0xc0, 0xc1, 0xd0, 0xd1, 0xe0, 0xf0]);
        }
    }
    v
}

/// hand-written hostile inputs (former panics, huge lengths, odd counts, nesting)
pub fn catalogue() -> Vec<Vec<u8>> {
    let mut v: Vec<Vec<u8>> = vec![
        vec![0xc0, 0x00, 0x00],
        vec![0xc1, 0x00, 0x00],
        vec![0xd0, 0, 0, 0, 0, 0, 0, 0, 0],
        vec![0xd1, 0, 0, 0, 0, 0, 0, 0, 0],
        vec![0xe0, 0x01, 0x01, 0x40],
        vec![0xf0, 0, 0, 0, 1, 0, 0, 0, 1, 0x40],
        vec![0xc1, 0x02, 0x01, 0x40],
        vec![0xc1, 0x04, 0x03, 0x40, 0x40, 0x40],
        vec![0xb0, 0xff, 0xff, 0xff, 0xf0],
        vec![0xb1, 0xff, 0xff, 0xff, 0xff],
        vec![0xb3, 0x7f, 0xff, 0xff, 0xff, 0x41],
        vec![0xa0, 0xff],
        vec![0xd0, 0xff, 0xff, 0xff, 0xff, 0x00, 0x01, 0x00, 0x00, 0x40],
        vec![0xd0, 0x00, 0x00, 0x00, 0x04, 0xff, 0xff, 0xff, 0xff],
        vec![0xf0, 0xff, 0xff, 0xff, 0xff, 0x00, 0x01, 0x00, 0x00, 0x40],
        vec![0xe0, 0xff, 0xff, 0x41],
        vec![0x00],
        vec![0x00, 0x00],
        vec![0x00, 0x53],
        vec![0x00, 0xa3, 0xff],
        vec![0x00, 0x53, 0x10],
        vec![0x00, 0x53, 0x10, 0xd0, 0x00, 0x00, 0x00, 0x04, 0xff, 0xff, 0xff, 0xff],
        vec![0x00, 0x80, 0, 0, 0, 0, 0, 0, 0, 0x10, 0xc0, 0x01, 0xff],
        vec![0x73, 0x00, 0x00, 0xd8, 0x00],
        vec![0x73, 0x00, 0x11, 0x00, 0x00],
        vec![0xa1, 0x02, 0xc3, 0x28],
        vec![0xa1, 0x03, 0xed, 0xa0, 0x80],
        vec![0xa1, 0x02, 0xc0, 0x80],
        vec![0x56, 0x02],
        // empty arrays whose size field promises far more than the input holds (with and without an element constructor)
        vec![0xf0, 0xff, 0xff, 0xff, 0xff, 0x00, 0x00, 0x00, 0x00],
        vec![0xf0, 0xff, 0xff, 0xff, 0xff, 0x00, 0x00, 0x00, 0x00, 0xa3],
        vec![0xf0, 0x7f, 0xff, 0xff, 0xff, 0x00, 0x00, 0x00, 0x00, 0x70],
        vec![0xf0, 0x00, 0x00, 0x00, 0x05, 0x00, 0x00, 0x00, 0x00, 0xa3],
        vec![0xf0, 0x00, 0x00, 0x00, 0x04, 0x00, 0x00, 0x00, 0x00],
        vec![0xe0, 0xff, 0x00],
        vec![0xe0, 0xff, 0x00, 0x50],
        vec![0xe0, 0x02, 0x00, 0x50],
        vec![0xe0, 0x01, 0x00],
        // lists and maps of count 0 with a size field beyond the input
        vec![0xd0, 0xff, 0xff, 0xff, 0xff, 0x00, 0x00, 0x00, 0x00],
        vec![0xd1, 0xff, 0xff, 0xff, 0xff, 0x00, 0x00, 0x00, 0x00],
        vec![0xc0, 0xff, 0x00],
    ];
    // nesting
    for n in [10usize, 100, 400] {
        let mut b = Vec::new();
        for _ in 0..n {
            b.extend_from_slice(&[0xd0, 0, 0, 0xff, 0xff, 0, 0, 0, 1]);
        }
        b.push(0x40);
        v.push(b);
        let mut b = Vec::new();
        for _ in 0..n {
            b.extend_from_slice(&[0x00, 0x53, 0x10]);
        }
        b.push(0x40);
        v.push(b);
    }
    v
}

/// does the byte string contain an array header whose element constructor has no data?
pub fn has_zero_width_array(b: &[u8]) -> bool {
    let zw = |c: u8| matches!(c, 0x40 | 0x41 | 0x42 | 0x43 | 0x44 | 0x45);
    for i in 0..b.len() {
        if b[i] == 0xe0 && i + 3 < b.len() && zw(b[i + 3]) {
            return true;
        }
        if b[i] == 0xf0 && i + 9 < b.len() && zw(b[i + 9]) {
            return true;
        }
    }
    false
}

/// `n` nested list32 headers around a null: valid, 9n+1 bytes
pub fn nest(n: usize) -> Vec<u8> {
    let mut b = Vec::with_capacity(9 * n + 1);
    for _ in 0..n {
        b.extend_from_slice(&[0xd0, 0, 0, 0xff, 0xff, 0, 0, 0, 1]);
    }
    b.push(0x40);
    b
}

/// Child-process entry: decode `nest(n)` on a thread with the default 2 MiB stack of a
/// spawned thread (what a tokio worker has) and report; a stack overflow kills the child.
pub fn deep_child(n: usize) {
    let h = std::thread::spawn(move || {
        let b = nest(n);
        let r = serde_amqp::from_slice::<Value>(&b);
        r.is_ok()
    });
    match h.join() {
        Ok(ok) => println!("deep {} {}", n, if ok { "ok" } else { "err" }),
        Err(_) => println!("deep {} panic", n),
    }
}

/// Parent side: run the child for increasing depths; returns the first depth that kills it
pub fn deep_probe(depths: &[usize]) -> Vec<(usize, String)> {
    let exe = std::env::current_exe().unwrap();
    let mut res = Vec::new();
    for &d in depths {
        let o = std::process::Command::new(&exe).arg("deepchild").arg(d.to_string()).output();
        let s = match o {
            Ok(o) if o.status.success() => String::from_utf8_lossy(&o.stdout).trim().to_string(),
            Ok(o) => format!("deep {} killed({:?})", d, o.status.code()),
            Err(e) => format!("deep {} spawn-error {}", d, e),
        };
        res.push((d, s));
    }
    res
}

pub fn run(seed: u64, n: u64, thorough: bool, corpus: &[String], dir: &str) {
    quiet_panics();
    let mut out = Outputs::new(dir);
    let mut r = Rng::new(seed);

    let do_enc = |v: &Value, out: &mut Outputs, r: &mut Rng, dec_inputs: &mut Vec<Vec<u8>>| {
        let line = format!("enc {}", text(v));
        let res = impl_enc(v);
        let known = has_unsupported_array(v);
        let capped = exceeds_count_cap(v);
        out.count(&format!("enc_kind_{}", kind(v)));
        if known {
            out.count("enc_known_class_values");
        }
        if res == "PANIC" {
            out.violation("c03-encode-panic", &format!("c03-encode-panic: to_vec panicked on {}", text(v)), &line);
        }
        if let Some(h) = res.strip_prefix("OK ") {
            let bytes = unhex(h).unwrap();
            // C20: size
            match catch_unwind(AssertUnwindSafe(|| serde_amqp::serialized_size(v))) {
                Ok(Ok(sz)) if sz == bytes.len() => {}
                other => {
                    let class = if has_described_array_elem(v) { "c20-size-described-array-elems" } else { "c20-size" };
                    out.violation(class, &format!("{}: serialized_size = {:?}, to_vec length = {}", class, other.map(|x| x.ok()), bytes.len()), &line);
                }
            }
            // C03: round trip
            let back = catch_unwind(AssertUnwindSafe(|| serde_amqp::from_slice::<Value>(&bytes)));
            let ok = matches!(&back, Ok(Ok(b)) if b == v);
            if !ok && !capped {
                let class = if known { "c03-roundtrip-array-of-null-compound-described" } else { "c03-roundtrip" };
                let got = match &back {
                    Ok(Ok(b)) => format!("decoded {}", text(b)),
                    Ok(Err(e)) => format!("decode error {:?}", e),
                    Err(_) => "decode panicked".to_string(),
                };
                out.violation(class, &format!("{}: {} -> {} -> {}", class, text(v), h, got), &line);
            }
            if ok && !known {
                out.nontrivial(&line);
            }
            dec_inputs.push(bytes.clone());
            // a few corruptions of this encoding
            for _ in 0..2 {
                dec_inputs.push(mutate(r, &bytes));
            }
        }
        // the model comparison is skipped for the known-finding class (its encoding is not claimed)
        if !known {
            out.case(&line, &res);
        }
    };

    let mut dec_inputs: Vec<Vec<u8>> = Vec::new();
    for l in corpus {
        if let Some(t) = l.strip_prefix("enc ") {
            if let Some(v) = parse_text(t) {
                out.count("corpus_cases");
                do_enc(&v, &mut out, &mut r, &mut dec_inputs);
            }
        } else if let Some(h) = l.strip_prefix("dec ") {
            if let Some(b) = unhex(h.trim()) {
                out.count("corpus_cases");
                dec_inputs.push(b);
            }
        }
    }
    let depth = if thorough { 5 } else { 3 };
    for _ in 0..n {
        let v = gen_value(&mut r, depth, 10);
        do_enc(&v, &mut out, &mut r, &mut dec_inputs);
    }
    for b in catalogue() {
        dec_inputs.push(b);
    }
    // short byte strings: all of length <= 1 (and <= 2 in thorough), random of length 2..6
    for a in 0..=255u8 {
        dec_inputs.push(vec![a]);
    }
    if thorough {
        for a in 0..=255u8 {
            for b in 0..=255u8 {
                dec_inputs.push(vec![a, b]);
            }
        }
    }
    for _ in 0..(n / 2) {
        let len = r.range(2, 6) as usize;
        let mut b = r.bytes(len);
        b[0] = *r.pick(&[0x00u8, 0x40, 0x45, 0x56, 0x52, 0x54, 0x70, 0x80, 0xa0, 0xa1, 0xa3, 0xb0, 0xc0, 0xc1, 0xd0, 0xd1, 0xe0, 0xf0]);
        dec_inputs.push(b);
    }
    for b in dec_inputs {
        let line = format!("dec {}", hex(&b));
        let base = crate::alloc::reset_peak();
        let t0 = std::time::Instant::now();
        let res = impl_dec(&b);
        let took = t0.elapsed();
        let peak = crate::alloc::peak_since(base);
        // C04: work in proportion to the input - these inputs are at most a few kilobytes and decode in microseconds
        if res != "SPIN" && took > std::time::Duration::from_secs(2) {
            out.violation(
                "c04-spin",
                &format!("c04-spin: from_slice::<Value> took {} ms on the {} bytes {} (work out of proportion to the input)", took.as_millis(), b.len(), &hex(&b)[..hex(&b).len().min(80)]),
                &line,
            );
        }
        // C04: memory in proportion to the input.  The bound is generous (the decoded value
        // tree is larger than its encoding by a constant factor); zero-width array elements
        // (null/true/false/uint0/ulong0/list0 constructors) are the known-finding class.
        if peak > 16 * 1024 + 512 * b.len() {
            let zero_width_array = has_zero_width_array(&b);
            let class = if zero_width_array { "c04-alloc-zero-width-array" } else { "c04-alloc" };
            out.violation(class, &format!("{}: decoding {} bytes ({}...) allocated {} bytes", class, b.len(), &hex(&b)[..hex(&b).len().min(40)], peak), &line);
        }
        out.add("dec_peak_alloc_total", peak as u64);
        if res == "SPIN" {
            out.violation("c04-spin", &format!("c04-spin: from_slice::<Value> had not returned after 10 s on the {} bytes {} (work out of proportion to the input, or a loop that consumes nothing)", b.len(), hex(&b)), &line);
            out.count("dec_spin");
        } else if res == "PANIC" {
            out.violation("c04-panic", &format!("c04-panic: from_slice::<Value> panicked on {}", hex(&b)), &line);
            out.count("dec_panic");
        } else if let Some(t) = res.strip_prefix("OK ") {
            out.count("dec_ok");
            // C04: re-encode and decode again gives the same value (for values outside the known class)
            if let Some(v) = parse_text(t) {
                if !has_unsupported_array(&v) {
                    let again = catch_unwind(AssertUnwindSafe(|| {
                        serde_amqp::to_vec(&v).ok().and_then(|e| serde_amqp::from_slice::<Value>(&e).ok())
                    }));
                    if !matches!(&again, Ok(Some(w)) if *w == v) {
                        out.violation("c04-redecode", &format!("c04-redecode: decoding {} gives {} which does not survive re-encoding", hex(&b), t), &line);
                    }
                }
            }
        } else {
            out.count("dec_err");
        }
        out.case(&line, &res);
    }
    // C04: recursion depth.  Valid inputs of growing nesting depth are decoded in a child process.
    let depths: &[usize] = if thorough { &[10, 100, 1000, 5000, 20000, 100000] } else { &[10, 100, 1000, 7000] };
    for (d, s) in deep_probe(depths) {
        let line = format!("deep {}", d);
        out.count("deep_probes");
        if s.contains("killed") || s.contains("panic") {
            out.violation(
                "c04-stack-depth",
                &format!("c04-stack-depth: {} nested list32 headers ({} bytes) exhaust the stack of a worker thread: {}", d, 9 * d + 1, s),
                &line,
            );
        }
    }
    // deterministic sweeps (boundaries, truncation, forged lengths, reader consumption, value trees)
    crate::sweeps::sweeps(&mut out, thorough);
    out.finish(dir);
}
