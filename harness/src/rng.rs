/// splitmix64-seeded xoshiro256**; deterministic and dependency-free
#[derive(Clone, Debug)]
pub struct Rng {
    s: [u64; 4],
}

impl Rng {
    pub fn new(seed: u64) -> Self {
        let mut z = seed.wrapping_add(0x9E3779B97F4A7C15);
        let mut s = [0u64; 4];
        for x in s.iter_mut() {
            z = z.wrapping_add(0x9E3779B97F4A7C15);
            let mut y = z;
            y = (y ^ (y >> 30)).wrapping_mul(0xBF58476D1CE4E5B9);
            y = (y ^ (y >> 27)).wrapping_mul(0x94D049BB133111EB);
            *x = y ^ (y >> 31);
        }
        Self { s }
    }
    pub fn next(&mut self) -> u64 {
        let r = self.s[1].wrapping_mul(5).rotate_left(7).wrapping_mul(9);
        let t = self.s[1] << 17;
        self.s[2] ^= self.s[0];
        self.s[3] ^= self.s[1];
        self.s[1] ^= self.s[2];
        self.s[0] ^= self.s[3];
        self.s[2] ^= t;
        self.s[3] = self.s[3].rotate_left(45);
        r
    }
    /// uniform in 0..n (n > 0)
    pub fn below(&mut self, n: u64) -> u64 {
        self.next() % n
    }
    pub fn range(&mut self, lo: u64, hi_incl: u64) -> u64 {
        lo + self.below(hi_incl - lo + 1)
    }
    pub fn chance(&mut self, num: u64, den: u64) -> bool {
        self.below(den) < num
    }
    pub fn pick<'a, T>(&mut self, xs: &'a [T]) -> &'a T {
        &xs[self.below(xs.len() as u64) as usize]
    }
    pub fn bytes(&mut self, n: usize) -> Vec<u8> {
        (0..n).map(|_| self.next() as u8).collect()
    }
}
