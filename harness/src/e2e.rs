//! C01 end-to-end delivery: a REAL fe2o3-amqp client talking to a REAL in-process fe2o3-amqp
//! listener (`fe2o3_amqp::acceptor`) through an in-memory pipe with a byte-chopping relay in
//! the middle.
//!
//! ```text
//!   client endpoint <--duplex--> relay (c>s task, s>c task) <--duplex--> listener endpoint
//! ```
//!
//! The relay forwards the byte stream of each direction in chunks whose sizes come from the
//! case's PRNG (1 .. 4096 bytes, frame headers get split), parses everything that crosses with
//! `eng::Parser` and an exact size-prefix scanner (frame sizes against the max-frame-size the
//! receiving side advertised in its `open`).
//!
//! Case line (every number explicit, `seed` drives the message shapes, the per-message choices,
//! the chunk sizes and the receiver's sleeps):
//!
//! `e2e rt=<p|m> dir=<cs|sc> cmf= lmf= ciw= cow= liw= low= cr=<aN|mK.T> ssm=<s|u|m> rsm=<1|2>
//!      aa=<0|1> lag= cb= sb= lb= lcb= lsb= pipe= ch=<t|s|m|l|x> net=<0|1|2> n= msz= slow= pend= seed=`
//!
//! * `rt`   p = current-thread runtime with paused clock (deterministic), m = multi-thread, 4 workers
//! * `dir`  cs = client `Sender` -> listener-side `Receiver`; sc = listener-side `Sender` -> client `Receiver`
//! * `cmf/lmf` max-frame-size of client / listener; `ciw/cow/liw/low` session windows
//! * `cr`   `aN` = `CreditMode::Auto(N)`, `mK.T` = manual: `set_credit(K)` at start and again after every T deliveries
//! * `ssm`  sender settle mode settled/unsettled/mixed (mixed: per-message `settled` from the PRNG), `rsm` first/second
//! * `aa`   receiver auto-accept; `lag` (aa=0): deliveries are handed to a disposer task that accepts them
//!          `lag` at a time (or when nothing came for 50 ms); lag=0: `Receiver::accept` right after `recv`
//! * `cb/sb/lb` client connection / session / link buffer sizes, `lcb/lsb` listener connection / session
//! * `pipe` capacity of the four duplex halves, `ch` chunk-size mode, `net` relay scheduling mode
//! * `n` number of messages, `msz` largest body size, `slow` receiver sleeps (ms), `pend` max pending
//!   `send_batchable` futures (0: always `send` and await the outcome)
#![allow(unexpected_cfgs)]
use crate::eng::{Parser, Wire};
use crate::out::Outputs;
use crate::rng::Rng;
use fe2o3_amqp::acceptor::{ConnectionAcceptor, LinkAcceptor, LinkEndpoint, SessionAcceptor};
use fe2o3_amqp::link::delivery::DeliveryInfo;
use fe2o3_amqp::link::receiver::CreditMode;
use fe2o3_amqp::types::definitions::{ReceiverSettleMode, SenderSettleMode};
use fe2o3_amqp::types::messaging::annotations::{Annotations, OwnedKey};
use fe2o3_amqp::types::messaging::message::__private::{Deserializable, Serializable};
use fe2o3_amqp::types::messaging::{
    AmqpSequence, AmqpValue, Batch, Body, Data, DeliveryAnnotations, Footer, Message, MessageAnnotations, MessageId, Outcome,
};
use fe2o3_amqp::types::performatives::Performative;
use fe2o3_amqp::types::primitives::{OrderedMap, Symbol, Value};
use fe2o3_amqp::{Connection, Receiver, Sendable, Sender, Session};
use std::sync::atomic::{AtomicU64, Ordering};
use std::sync::{Arc, Mutex};
use std::time::Duration;
use tokio::io::{AsyncReadExt, AsyncWriteExt, DuplexStream, ReadHalf, WriteHalf};

type Msg = Message<Body<Value>>;

/* ------------------------------------------------------------------------------------- */
/* panic bookkeeping: a panic in a task the library spawned never reaches the harness     */
/* ------------------------------------------------------------------------------------- */

/// per running case (key): number of panics and the first location. The key of a panic is the
/// thread-local key of the thread that runs the case (paused runtime: everything runs there) or
/// the key embedded in the name of the runtime's worker threads (multi-thread runtime).
static PANICS: Mutex<Option<std::collections::HashMap<u64, (u64, String)>>> = Mutex::new(None);
static NEXT_KEY: AtomicU64 = AtomicU64::new(1);
thread_local! {
    static CASE_KEY: std::cell::Cell<u64> = const { std::cell::Cell::new(0) };
}
const WORKER_PREFIX: &str = "e2ew-";

fn set_hook() {
    std::panic::set_hook(Box::new(|info| {
        let mut key = CASE_KEY.with(|k| k.get());
        if key == 0 {
            if let Some(n) = std::thread::current().name() {
                if let Some(k) = n.strip_prefix(WORKER_PREFIX) {
                    key = k.parse().unwrap_or(0);
                }
            }
        }
        let loc = info.location().map(|l| format!("{}:{}", l.file().rsplit('/').next().unwrap_or("?"), l.line())).unwrap_or_default();
        if let Ok(mut g) = PANICS.lock() {
            let e = g.get_or_insert_with(Default::default).entry(key).or_insert((0, String::new()));
            e.0 += 1;
            if e.1.is_empty() {
                e.1 = loc;
            }
        }
    }));
}

fn install_hook() {
    static ONCE: std::sync::Once = std::sync::Once::new();
    ONCE.call_once(set_hook);
}

fn take_panics(key: u64) -> (u64, String) {
    PANICS.lock().ok().and_then(|mut g| g.as_mut().and_then(|m| m.remove(&key))).unwrap_or((0, String::new()))
}

/* ------------------------------------------------------------------------------------- */
/* configuration                                                                          */
/* ------------------------------------------------------------------------------------- */

#[derive(Clone, Debug)]
pub struct Cfg {
    pub rt: char,
    pub dir_cs: bool,
    pub cmf: u32,
    pub lmf: u32,
    pub ciw: u32,
    pub cow: u32,
    pub liw: u32,
    pub low: u32,
    /// Auto(n) when `Some`
    pub auto: Option<u32>,
    pub man_k: u32,
    pub man_t: u32,
    pub ssm: char,
    pub rsm2: bool,
    pub aa: bool,
    pub lag: u32,
    pub cb: usize,
    pub sb: usize,
    pub lb: usize,
    pub lcb: usize,
    pub lsb: usize,
    pub pipe: usize,
    pub ch: char,
    pub net: u32,
    pub n: usize,
    pub msz: usize,
    pub slow: u64,
    pub pend: usize,
    pub seed: u64,
    /// next-outgoing-id both sessions start from (optional key `noi`, default 0)
    pub noi: u32,
    /// sizes sweep downwards from `msz` one octet per message, plain data bodies (optional key `sw`)
    pub sweep: bool,
}

fn kv<'a>(w: &'a [&'a str], k: &str) -> &'a str {
    for x in w {
        if let Some(v) = x.strip_prefix(k) {
            if let Some(v) = v.strip_prefix('=') {
                return v;
            }
        }
    }
    panic!("e2e: missing field {}", k)
}

pub fn parse(line: &str) -> Cfg {
    let w: Vec<&str> = line.split_whitespace().collect();
    assert_eq!(w[0], "e2e");
    let num = |k: &str| -> u64 { kv(&w, k).parse().unwrap() };
    let cr = kv(&w, "cr");
    let (auto, man_k, man_t) = if let Some(n) = cr.strip_prefix('a') {
        (Some(n.parse::<u32>().unwrap().max(1)), 0, 0)
    } else {
        let (k, t) = cr[1..].split_once('.').unwrap();
        let k: u32 = k.parse::<u32>().unwrap().max(1);
        let t: u32 = t.parse::<u32>().unwrap().clamp(1, k);
        (None, k, t)
    };
    Cfg {
        rt: kv(&w, "rt").chars().next().unwrap(),
        dir_cs: kv(&w, "dir") == "cs",
        cmf: num("cmf") as u32,
        lmf: num("lmf") as u32,
        ciw: num("ciw") as u32,
        cow: num("cow") as u32,
        liw: num("liw") as u32,
        low: num("low") as u32,
        auto,
        man_k,
        man_t,
        ssm: kv(&w, "ssm").chars().next().unwrap(),
        rsm2: kv(&w, "rsm") == "2",
        aa: kv(&w, "aa") == "1",
        lag: num("lag") as u32,
        cb: (num("cb") as usize).max(1),
        sb: (num("sb") as usize).max(1),
        lb: (num("lb") as usize).max(1),
        lcb: (num("lcb") as usize).max(1),
        lsb: (num("lsb") as usize).max(1),
        pipe: (num("pipe") as usize).max(1),
        ch: kv(&w, "ch").chars().next().unwrap(),
        net: num("net") as u32,
        n: num("n") as usize,
        msz: num("msz") as usize,
        slow: num("slow"),
        pend: num("pend") as usize,
        seed: num("seed"),
        noi: w.iter().find_map(|x| x.strip_prefix("noi=")).and_then(|x| x.parse().ok()).unwrap_or(0),
        sweep: w.iter().any(|x| *x == "sw=1"),
    }
}

pub fn line_of(c: &Cfg) -> String {
    format!(
        "e2e rt={} dir={} cmf={} lmf={} ciw={} cow={} liw={} low={} cr={} ssm={} rsm={} aa={} lag={} cb={} sb={} lb={} lcb={} lsb={} pipe={} ch={} net={} n={} msz={} slow={} pend={} seed={}",
        c.rt,
        if c.dir_cs { "cs" } else { "sc" },
        c.cmf,
        c.lmf,
        c.ciw,
        c.cow,
        c.liw,
        c.low,
        match c.auto {
            Some(n) => format!("a{}", n),
            None => format!("m{}.{}", c.man_k, c.man_t),
        },
        c.ssm,
        if c.rsm2 { 2 } else { 1 },
        c.aa as u8,
        c.lag,
        c.cb,
        c.sb,
        c.lb,
        c.lcb,
        c.lsb,
        c.pipe,
        c.ch,
        c.net,
        c.n,
        c.msz,
        c.slow,
        c.pend,
        c.seed
    ) + &(if c.noi != 0 { format!(" noi={}", c.noi) } else { String::new() })
        + if c.sweep { " sw=1" } else { "" }
}

/* ------------------------------------------------------------------------------------- */
/* messages (pure function of the configuration)                                          */
/* ------------------------------------------------------------------------------------- */

#[derive(Clone, Debug)]
pub struct Spec {
    pub msg: Msg,
    pub fmt: u32,
    pub settled: Option<bool>,
    /// true: `send_batchable` and await the future later; false: `send` (awaits the outcome)
    pub batch: bool,
    pub kind: &'static str,
    pub size: usize,
}

const KINDS: [&str; 12] = ["vstr", "vbin", "vlong", "vlist", "vmap", "vnull", "data1", "dataN", "seq1", "seqN", "empty", "vsym"];

fn elem(r: &mut Rng, depth: u32) -> Value {
    if depth > 0 && r.chance(1, 8) {
        let k = r.below(4);
        return Value::List((0..k).map(|_| elem(r, depth - 1)).collect());
    }
    let k = r.range(1, 20) as u32;
    crate::val::gen_scalar_of_kind(r, k)
}

fn ascii(r: &mut Rng, idx: usize, size: usize) -> String {
    let mut s = format!("#{}:", idx);
    if s.len() > size {
        s.truncate(size);
        return s;
    }
    const A: &[u8] = b"abcdefghijklmnopqrstuvwxyzABCDEFGHIJKLMNOPQRSTUVWXYZ0123456789 -_/";
    let utf = r.chance(1, 4);
    while s.len() < size {
        if utf && s.len() + 3 <= size && r.chance(1, 16) {
            s.push(*r.pick(&['\u{e9}', '\u{20ac}', '\u{df}']));
        } else {
            s.push(A[r.below(A.len() as u64) as usize] as char);
        }
    }
    s
}

fn est(v: &Value) -> usize {
    match v {
        Value::String(s) => s.len() + 5,
        Value::Symbol(s) => s.0.len() + 5,
        Value::Binary(b) => b.len() + 5,
        Value::List(l) => 9 + l.iter().map(est).sum::<usize>(),
        _ => 9,
    }
}

fn values_upto(r: &mut Rng, size: usize) -> Vec<Value> {
    let mut out = Vec::new();
    let mut acc = 0usize;
    while acc < size {
        let v = if size - acc > 600 && r.chance(1, 3) {
            let n = r.range(100, 500) as usize;
            if r.chance(1, 2) {
                Value::String(ascii(r, out.len(), n))
            } else {
                Value::Binary(r.bytes(n).into())
            }
        } else {
            elem(r, 1)
        };
        acc += est(&v);
        out.push(v);
    }
    out
}

fn annotations(r: &mut Rng, tag: &str) -> Annotations {
    let mut m = OrderedMap::new();
    for i in 0..r.below(4) {
        let k = if r.chance(3, 4) { OwnedKey::Symbol(Symbol::from(format!("x-opt-{}-{}", tag, i))) } else { OwnedKey::Ulong(r.below(1 << 40) + i) };
        m.insert(k, elem(r, 1));
    }
    m
}

fn body_of(r: &mut Rng, kind: &str, idx: usize, size: usize) -> Body<Value> {
    match kind {
        "vstr" => Body::Value(AmqpValue(Value::String(ascii(r, idx, size)))),
        "vsym" => Body::Value(AmqpValue(Value::Symbol(Symbol::from(ascii(r, idx, size.min(300)).replace(|c: char| !c.is_ascii(), "x"))))),
        "vbin" => Body::Value(AmqpValue(Value::Binary(r.bytes(size).into()))),
        "vlong" => Body::Value(AmqpValue(Value::Long(r.next() as i64 >> r.below(64)))),
        "vnull" => Body::Value(AmqpValue(Value::Null)),
        "vlist" => Body::Value(AmqpValue(Value::List(values_upto(r, size)))),
        "vmap" => {
            let mut m: OrderedMap<Value, Value> = OrderedMap::new();
            for (i, v) in values_upto(r, size).into_iter().enumerate() {
                let k = match r.below(4) {
                    0 => Value::String(format!("k{}", i)),
                    1 => Value::Symbol(Symbol::from(format!("s{}", i))),
                    2 => Value::Long(i as i64 - 3),
                    _ => Value::Uint(i as u32),
                };
                m.insert(k, v);
            }
            Body::Value(AmqpValue(Value::Map(m)))
        }
        "data1" => Body::Data(Batch::new(vec![Data(r.bytes(size).into())])),
        "dataN" => {
            let k = r.range(2, 4) as usize;
            let mut left = size;
            let mut v = Vec::new();
            for i in 0..k {
                let n = if i + 1 == k { left } else { r.below(left as u64 + 1) as usize };
                left -= n;
                v.push(Data(r.bytes(n).into()));
            }
            Body::Data(Batch::new(v))
        }
        "seq1" => Body::Sequence(Batch::new(vec![AmqpSequence(values_upto(r, size))])),
        "seqN" => {
            let k = r.range(2, 4) as usize;
            let v: Vec<AmqpSequence<Value>> = (0..k).map(|_| AmqpSequence(values_upto(r, size / k))).collect();
            Body::Sequence(Batch::new(v))
        }
        _ => Body::Empty,
    }
}

pub fn gen_msgs(c: &Cfg) -> Vec<Spec> {
    let mut r = Rng::new(c.seed ^ 0x6d73_6773);
    let refmf = c.cmf.min(c.lmf) as usize;
    let mut out = Vec::with_capacity(c.n);
    for idx in 0..c.n {
        let kind = *r.pick(&KINDS);
        let size = match r.below(10) {
            0 => 0,
            1 => r.range(1, 64) as usize,
            2 | 3 => {
                // around a multiple of the frame size: the boundary of the frame splitting
                let k = r.range(1, 3) as usize;
                (refmf * k + 24).saturating_sub(r.below(120) as usize)
            }
            4 => r.below(300) as usize,
            _ => r.below(c.msz as u64 + 1) as usize,
        }
        .min(c.msz);
        let (kind, size) = if c.sweep { ("data1", c.msz.saturating_sub(idx)) } else { (kind, size) };
        let sections = match r.below(6) {
            0 => 0,
            1 => 63,
            _ => r.below(64),
        };
        let sections = if c.sweep { 0 } else { sections };
        let mut props = if sections & 8 != 0 { Some(crate::typed::gen_properties(&mut r)) } else { None };
        if let Some(p) = props.as_mut() {
            if r.chance(3, 4) {
                p.message_id = Some(MessageId::Ulong(idx as u64));
            }
        }
        let msg = Message {
            header: if sections & 1 != 0 { Some(crate::typed::gen_header(&mut r)) } else { None },
            delivery_annotations: if sections & 2 != 0 { Some(DeliveryAnnotations(annotations(&mut r, "d"))) } else { None },
            message_annotations: if sections & 4 != 0 { Some(MessageAnnotations(annotations(&mut r, "m"))) } else { None },
            properties: props,
            application_properties: if sections & 16 != 0 { Some(crate::typed::gen_application_properties(&mut r)) } else { None },
            body: body_of(&mut r, kind, idx, size),
            footer: if sections & 32 != 0 { Some(Footer(annotations(&mut r, "f"))) } else { None },
        };
        let fmt = match r.below(5) {
            0 => *r.pick(&[1u32, 255, 256, 0x8000_0000, u32::MAX]),
            1 => r.next() as u32,
            _ => 0,
        };
        let settled = match c.ssm {
            'm' => *r.pick(&[None, Some(true), Some(false), Some(false)]),
            _ => *r.pick(&[None, None, Some(true), Some(false)]),
        };
        let batch = c.pend > 0 && r.chance(2, 3);
        out.push(Spec { msg, fmt, settled, batch, kind, size });
    }
    out
}

/// whether the delivery goes out pre-settled
fn presettled(c: &Cfg, s: &Spec) -> bool {
    match c.ssm {
        's' => true,
        'u' => false,
        _ => s.settled.unwrap_or(false),
    }
}

pub fn encode(m: &Msg) -> Vec<u8> {
    serde_amqp::to_vec(&Serializable(m)).unwrap_or_else(|e| format!("ENCODE-ERROR {:?}", e).into_bytes())
}

fn fnv(fmt: u32, b: &[u8]) -> u64 {
    let mut h: u64 = 0xcbf29ce484222325;
    for x in fmt.to_be_bytes().iter().chain(b.iter()) {
        h ^= *x as u64;
        h = h.wrapping_mul(0x100000001b3);
    }
    h
}
fn short(h: u64) -> String {
    format!("{:010x}", h & 0xff_ffff_ffff)
}

/* ------------------------------------------------------------------------------------- */
/* the relay                                                                              */
/* ------------------------------------------------------------------------------------- */

struct DirLog {
    parser: Parser,
    // exact frame size scanner
    skip: usize,
    need: usize,
    szbuf: [u8; 4],
    szn: usize,
    bad: bool,
    frames: u64,
    bytes: u64,
    chunks: u64,
    max_frame: u32,
    open_mfs: Option<u32>,
    transfers: u64,
    /// transfer frames that start a delivery (carry a delivery-id)
    firsts: u64,
    flows: u64,
    disps: u64,
    garbage: u64,
    closes: u64,
    ends: u64,
    detaches: u64,
    /// debugging aid (`E2E_DEBUG=1`): every frame as a token, with the virtual time in ms
    dbg: Option<(&'static str, tokio::time::Instant)>,
}

impl DirLog {
    fn new() -> Self {
        Self {
            parser: Parser::new(),
            skip: 8,
            need: 0,
            szbuf: [0; 4],
            szn: 0,
            bad: false,
            frames: 0,
            bytes: 0,
            chunks: 0,
            max_frame: 0,
            open_mfs: None,
            transfers: 0,
            firsts: 0,
            flows: 0,
            disps: 0,
            garbage: 0,
            closes: 0,
            ends: 0,
            detaches: 0,
            dbg: None,
        }
    }
    fn feed(&mut self, mut b: &[u8]) {
        self.bytes += b.len() as u64;
        self.chunks += 1;
        for w in self.parser.feed(b) {
            if let Some((name, t0)) = &self.dbg {
                let extra = match &w {
                    Wire::Frame { perf: Performative::Flow(f), .. } => format!(
                        " nii={:?} iw={} noi={} ow={} dc={:?} cr={:?}",
                        f.next_incoming_id, f.incoming_window, f.next_outgoing_id, f.outgoing_window, f.delivery_count, f.link_credit
                    ),
                    _ => String::new(),
                };
                eprintln!("[{:>7}ms] {} {}{}", tokio::time::Instant::now().saturating_duration_since(*t0).as_millis(), name, crate::eng::wire_token(&w), extra);
            }
            match w {
                Wire::Frame { perf, .. } => match perf {
                    Performative::Open(o) => self.open_mfs = Some(o.max_frame_size.0),
                    Performative::Transfer(t) => {
                        self.transfers += 1;
                        if t.delivery_id.is_some() {
                            self.firsts += 1;
                        }
                    }
                    Performative::Flow(_) => self.flows += 1,
                    Performative::Disposition(_) => self.disps += 1,
                    Performative::Close(_) => self.closes += 1,
                    Performative::End(_) => self.ends += 1,
                    Performative::Detach(_) => self.detaches += 1,
                    _ => {}
                },
                Wire::Garbage(_) => self.garbage += 1,
                _ => {}
            }
        }
        while !b.is_empty() && !self.bad {
            if self.skip > 0 {
                let k = self.skip.min(b.len());
                self.skip -= k;
                b = &b[k..];
            } else if self.need > 0 {
                let k = self.need.min(b.len());
                self.need -= k;
                b = &b[k..];
            } else {
                self.szbuf[self.szn] = b[0];
                self.szn += 1;
                b = &b[1..];
                if self.szn == 4 {
                    self.szn = 0;
                    let size = u32::from_be_bytes(self.szbuf);
                    if size < 8 {
                        self.bad = true;
                    } else {
                        self.frames += 1;
                        self.max_frame = self.max_frame.max(size);
                        self.need = size as usize - 4;
                    }
                }
            }
        }
    }
}

fn chunk(r: &mut Rng, mode: char) -> usize {
    let m = if mode == 'x' { *r.pick(&['t', 's', 'm', 'l']) } else { mode };
    match m {
        't' => r.range(1, 8) as usize,
        's' => r.range(1, 64) as usize,
        'l' => r.range(1024, 4096) as usize,
        _ => {
            // log-uniform 1..4096
            let bits = r.range(0, 12);
            let lo = 1u64 << bits;
            (lo + r.below(lo)).min(4096) as usize
        }
    }
}

async fn relay(mut rd: ReadHalf<DuplexStream>, mut wr: WriteHalf<DuplexStream>, mut rng: Rng, mode: char, net: u32, paused: bool, log: Arc<Mutex<DirLog>>) {
    let mut buf = vec![0u8; 4096];
    loop {
        let k = chunk(&mut rng, mode);
        match rd.read(&mut buf[..k]).await {
            Ok(0) | Err(_) => break,
            Ok(n) => {
                log.lock().unwrap().feed(&buf[..n]);
                if wr.write_all(&buf[..n]).await.is_err() {
                    break;
                }
                match net {
                    0 => {}
                    1 => {
                        if rng.chance(1, 2) {
                            tokio::task::yield_now().await;
                        }
                    }
                    _ => match rng.below(24) {
                        0 if paused => tokio::time::sleep(Duration::from_micros(10)).await,
                        0..=15 => tokio::task::yield_now().await,
                        _ => {}
                    },
                }
            }
        }
    }
    let _ = wr.shutdown().await;
}

/* ------------------------------------------------------------------------------------- */
/* one case                                                                               */
/* ------------------------------------------------------------------------------------- */

#[derive(Default, Debug)]
struct Obs {
    setup_err: Option<String>,
    /// outcome per sent message: A accepted, R rejected, L released, M modified, E error
    outcomes: Vec<char>,
    send_err: Option<String>,
    sent: usize,
    /// (message_format, encoding) in order of arrival
    received: Vec<(Option<u32>, Vec<u8>)>,
    recv_err: Option<String>,
    hang: Option<String>,
    up_after: Option<bool>,
    teardown: String,
    t_sender_ms: u64,
    c2s: Option<DirStat>,
    s2c: Option<DirStat>,
    task_panic: Option<String>,
}

#[derive(Debug, Clone)]
struct DirStat {
    frames: u64,
    bytes: u64,
    chunks: u64,
    max_frame: u32,
    open_mfs: Option<u32>,
    transfers: u64,
    firsts: u64,
    flows: u64,
    disps: u64,
    garbage: u64,
    bad: bool,
}

fn stat(l: &Arc<Mutex<DirLog>>) -> DirStat {
    let g = l.lock().unwrap();
    DirStat {
        frames: g.frames,
        bytes: g.bytes,
        chunks: g.chunks,
        max_frame: g.max_frame,
        open_mfs: g.open_mfs,
        transfers: g.transfers,
        firsts: g.firsts,
        flows: g.flows,
        disps: g.disps,
        garbage: g.garbage,
        bad: g.bad,
    }
}

fn ename<E: std::fmt::Debug>(e: E) -> String {
    let s = format!("{:?}", e);
    let mut t: String = s.chars().take(90).collect();
    t.retain(|c| c != ' ' && c != '\n' && c != ';' && c != '|');
    t
}

struct RxShared {
    received: Vec<(Option<u32>, Vec<u8>)>,
    err: Option<String>,
}

async fn receiver_task(mut rcv: Receiver, c: Cfg, shared: Arc<Mutex<RxShared>>, count_tx: tokio::sync::watch::Sender<usize>) {
    let mut r = Rng::new(c.seed ^ 0x7263_7672);
    let paused = c.rt == 'p';
    // the disposer path: deliveries are accepted by another task, `lag` at a time
    let mut disp_tx: Option<tokio::sync::mpsc::UnboundedSender<DeliveryInfo>> = None;
    if !c.aa && c.lag > 0 {
        let (tx, mut rx) = tokio::sync::mpsc::unbounded_channel::<DeliveryInfo>();
        let disposer = rcv.disposer();
        let lag = c.lag as usize;
        let sh = shared.clone();
        tokio::spawn(async move {
            let mut held: Vec<DeliveryInfo> = Vec::new();
            loop {
                let got = tokio::time::timeout(Duration::from_millis(50), rx.recv()).await;
                let flush = match got {
                    Ok(Some(i)) => {
                        held.push(i);
                        held.len() >= lag
                    }
                    Ok(None) => {
                        break;
                    }
                    Err(_) => true,
                };
                if flush {
                    for i in held.drain(..) {
                        if let Err(e) = disposer.accept(i).await {
                            let mut g = sh.lock().unwrap();
                            if g.err.is_none() {
                                g.err = Some(format!("disposer.accept:{}", ename(e)));
                            }
                            return;
                        }
                    }
                }
            }
        });
        disp_tx = Some(tx);
    }
    let mut since_refill = 0u32;
    loop {
        if c.slow > 0 && r.chance(1, 3) {
            let ms = r.range(1, c.slow);
            tokio::time::sleep(if paused { Duration::from_millis(ms) } else { Duration::from_micros(ms * 100) }).await;
        }
        match rcv.recv::<Body<Value>>().await {
            Ok(d) => {
                if std::env::var("E2E_DEBUG").is_ok() {
                    eprintln!("   receiver: got delivery id={}", d.delivery_id());
                }
                let bytes = encode(d.message());
                let fmt = *d.message_format();
                {
                    let mut g = shared.lock().unwrap();
                    g.received.push((fmt, bytes));
                    let _ = count_tx.send(g.received.len());
                }
                if !c.aa {
                    if let Some(tx) = &disp_tx {
                        let _ = tx.send(DeliveryInfo::from(&d));
                    } else if let Err(e) = rcv.accept(&d).await {
                        shared.lock().unwrap().err = Some(format!("accept:{}", ename(e)));
                        break;
                    }
                }
                if c.auto.is_none() {
                    since_refill += 1;
                    if since_refill >= c.man_t {
                        since_refill = 0;
                        if let Err(e) = rcv.set_credit(c.man_k).await {
                            shared.lock().unwrap().err = Some(format!("set_credit:{}", ename(e)));
                            break;
                        }
                    }
                }
            }
            Err(e) => {
                if std::env::var("E2E_DEBUG").is_ok() {
                    eprintln!("   receiver: recv error {:?}", e);
                }
                let mut g = shared.lock().unwrap();
                if g.err.is_none() {
                    g.err = Some(format!("recv:{}", ename(e)));
                }
                break;
            }
        }
    }
    // keep the link (and thereby the disposer's channel) alive until the harness drops the task
    drop(disp_tx);
    let _ = rcv;
}

struct TxDone {
    sender: Sender,
    outcomes: Vec<char>,
    err: Option<String>,
    sent: usize,
}

fn oc(o: &Outcome) -> char {
    match o {
        Outcome::Accepted(_) => 'A',
        Outcome::Rejected(_) => 'R',
        Outcome::Released(_) => 'L',
        Outcome::Modified(_) => 'M',
        #[allow(unreachable_patterns)]
        _ => 'D',
    }
}

async fn sender_task(mut snd: Sender, c: Cfg, specs: Vec<Spec>, progress: Arc<AtomicU64>) -> TxDone {
    let mut outcomes: Vec<char> = vec!['-'; specs.len()];
    let mut pending: std::collections::VecDeque<(usize, _)> = Default::default();
    let mut err = None;
    let mut sent = 0usize;
    let dbg = std::env::var("E2E_DEBUG").is_ok();
    'outer: for (i, s) in specs.into_iter().enumerate() {
        if dbg {
            eprintln!("   sender: #{} kind={} size={} enc={} batch={} settled={:?}", i, s.kind, s.size, encode(&s.msg).len(), s.batch, s.settled);
        }
        let sendable = Sendable { message: s.msg, message_format: s.fmt, settled: s.settled };
        if s.batch {
            match snd.send_batchable(sendable).await {
                Ok(f) => pending.push_back((i, f)),
                Err(e) => {
                    outcomes[i] = 'E';
                    err = Some(format!("send_batchable#{}:{}", i, ename(e)));
                    break 'outer;
                }
            }
        } else {
            match snd.send(sendable).await {
                Ok(o) => outcomes[i] = oc(&o),
                Err(e) => {
                    outcomes[i] = 'E';
                    err = Some(format!("send#{}:{}", i, ename(e)));
                    break 'outer;
                }
            }
        }
        sent += 1;
        progress.store(sent as u64, Ordering::SeqCst);
        while pending.len() > c.pend {
            let (j, f) = pending.pop_front().unwrap();
            match f.await {
                Ok(o) => outcomes[j] = oc(&o),
                Err(e) => {
                    outcomes[j] = 'E';
                    if err.is_none() {
                        err = Some(format!("fut#{}:{}", j, ename(e)));
                    }
                }
            }
        }
    }
    while let Some((j, f)) = pending.pop_front() {
        match f.await {
            Ok(o) => outcomes[j] = oc(&o),
            Err(e) => {
                outcomes[j] = 'E';
                if err.is_none() {
                    err = Some(format!("fut#{}:{}", j, ename(e)));
                }
            }
        }
    }
    TxDone { sender: snd, outcomes, err, sent }
}

fn ssm_of(c: &Cfg) -> SenderSettleMode {
    match c.ssm {
        's' => SenderSettleMode::Settled,
        'u' => SenderSettleMode::Unsettled,
        _ => SenderSettleMode::Mixed,
    }
}
fn rsm_of(c: &Cfg) -> ReceiverSettleMode {
    if c.rsm2 {
        ReceiverSettleMode::Second
    } else {
        ReceiverSettleMode::First
    }
}

async fn run_async(c: Cfg, specs: Vec<Spec>) -> Obs {
    let mut obs = Obs::default();
    let paused = c.rt == 'p';
    let t0 = tokio::time::Instant::now();
    // generous bounds: virtual time is free, real time is not
    let step = if paused { Duration::from_secs(60) } else { Duration::from_secs(4) };
    let send_bound = if paused { Duration::from_secs(600) } else { Duration::from_secs(6) };
    let settle = if paused { Duration::from_millis(5) } else { Duration::from_millis(30) };

    let (c_io, rc) = tokio::io::duplex(c.pipe);
    let (rs, s_io) = tokio::io::duplex(c.pipe);
    let (rc_r, rc_w) = tokio::io::split(rc);
    let (rs_r, rs_w) = tokio::io::split(rs);
    let log_cs = Arc::new(Mutex::new(DirLog::new()));
    let log_sc = Arc::new(Mutex::new(DirLog::new()));
    if std::env::var("E2E_DEBUG").is_ok() {
        log_cs.lock().unwrap().dbg = Some(("c>s", t0));
        log_sc.lock().unwrap().dbg = Some(("s>c", t0));
    }
    let relay1 = tokio::spawn(relay(rc_r, rs_w, Rng::new(c.seed ^ 0x6332_73), c.ch, c.net, paused, log_cs.clone()));
    let relay2 = tokio::spawn(relay(rs_r, rc_w, Rng::new(c.seed ^ 0x7332_63), c.ch, c.net, paused, log_sc.clone()));

    macro_rules! fail {
        ($($a:tt)*) => {{
            obs.setup_err = Some(format!($($a)*));
            obs.c2s = Some(stat(&log_cs));
            obs.s2c = Some(stat(&log_sc));
            relay1.abort();
            relay2.abort();
            return obs;
        }};
    }

    // ---- connection ----
    let acceptor = ConnectionAcceptor::builder().container_id("L").max_frame_size(c.lmf).buffer_size(c.lcb).build();
    let lt = tokio::spawn(async move { acceptor.accept(s_io).await });
    let copen = Connection::builder().container_id("C").max_frame_size(c.cmf).buffer_size(c.cb).open_with_stream(c_io);
    let mut cconn = match tokio::time::timeout(step, copen).await {
        Ok(Ok(x)) => x,
        Ok(Err(e)) => fail!("open:{}", ename(e)),
        Err(_) => fail!("open:timeout"),
    };
    let mut lconn = match tokio::time::timeout(step, lt).await {
        Ok(Ok(Ok(x))) => x,
        Ok(Ok(Err(e))) => fail!("accept-conn:{}", ename(e)),
        Ok(Err(_)) => fail!("accept-conn:panic"),
        Err(_) => fail!("accept-conn:timeout"),
    };
    // ---- session ----
    let sacc = SessionAcceptor::builder().incoming_window(c.liw).outgoing_window(c.low).buffer_size(c.lsb).next_outgoing_id(c.noi).build();
    let both = async {
        tokio::join!(
            sacc.accept(&mut lconn),
            Session::builder().incoming_window(c.ciw).outgoing_window(c.cow).buffer_size(c.sb).next_outgoing_id(c.noi).begin(&mut cconn)
        )
    };
    let (mut lsess, mut csess) = match tokio::time::timeout(step, both).await {
        Ok((Ok(l), Ok(s))) => (l, s),
        Ok((l, s)) => fail!("session:{}/{}", l.err().map(ename).unwrap_or_default(), s.err().map(ename).unwrap_or_default()),
        Err(_) => fail!("session:timeout"),
    };
    // ---- link ----
    let lacc = LinkAcceptor::builder().build();
    let cm = match c.auto {
        Some(n) => CreditMode::Auto(n),
        None => CreditMode::Manual,
    };
    let (sender, mut receiver): (Sender, Receiver) = if c.dir_cs {
        let mut b = Sender::builder().name("lk").target("q").sender_settle_mode(ssm_of(&c)).receiver_settle_mode(rsm_of(&c));
        b.buffer_size = c.lb;
        let both = async { tokio::join!(lacc.accept(&mut lsess), b.attach(&mut csess)) };
        match tokio::time::timeout(step, both).await {
            Ok((Ok(LinkEndpoint::Receiver(r)), Ok(s))) => (s, r),
            Ok((Ok(LinkEndpoint::Sender(_)), _)) => fail!("link:wrong-role"),
            Ok((l, s)) => fail!("link:{}/{}", l.err().map(ename).unwrap_or_default(), s.err().map(ename).unwrap_or_default()),
            Err(_) => fail!("link:timeout"),
        }
    } else {
        let mut b = Receiver::builder()
            .name("lk")
            .source("q")
            .credit_mode(cm.clone())
            .auto_accept(c.aa)
            .sender_settle_mode(ssm_of(&c))
            .receiver_settle_mode(rsm_of(&c));
        b.buffer_size = c.lb;
        let both = async { tokio::join!(lacc.accept(&mut lsess), b.attach(&mut csess)) };
        match tokio::time::timeout(step, both).await {
            Ok((Ok(LinkEndpoint::Sender(s)), Ok(r))) => (s, r),
            Ok((Ok(LinkEndpoint::Receiver(_)), _)) => fail!("link:wrong-role"),
            Ok((l, s)) => fail!("link:{}/{}", l.err().map(ename).unwrap_or_default(), s.err().map(ename).unwrap_or_default()),
            Err(_) => fail!("link:timeout"),
        }
    };
    if c.dir_cs {
        // the link acceptor exposes neither credit mode nor auto-accept: the accepted receiver
        // starts as Auto(200), manual accept, and is reconfigured here
        receiver.set_auto_accept(c.aa);
        receiver.set_credit_mode(cm.clone());
        let first = match c.auto {
            Some(n) => n,
            None => c.man_k,
        };
        if let Err(e) = receiver.set_credit(first).await {
            fail!("set_credit:{}", ename(e));
        }
    } else if c.auto.is_none() {
        if let Err(e) = receiver.set_credit(c.man_k).await {
            fail!("set_credit:{}", ename(e));
        }
    }
    // let the flow reach the sender before it starts (a credit reduction that races with
    // transfers already in flight is outside this property)
    tokio::time::sleep(settle).await;

    // ---- traffic ----
    let n = specs.len();
    let shared = Arc::new(Mutex::new(RxShared { received: Vec::new(), err: None }));
    let (count_tx, mut count_rx) = tokio::sync::watch::channel(0usize);
    let progress = Arc::new(AtomicU64::new(0));
    let rt = tokio::spawn(receiver_task(receiver, c.clone(), shared.clone(), count_tx));
    let mut st = tokio::spawn(sender_task(sender, c.clone(), specs, progress.clone()));
    let mut sender_back: Option<Sender> = None;
    match tokio::time::timeout(send_bound, &mut st).await {
        Ok(Ok(d)) => {
            obs.outcomes = d.outcomes;
            obs.send_err = d.err;
            obs.sent = d.sent;
            sender_back = Some(d.sender);
        }
        Ok(Err(e)) => {
            obs.task_panic = Some(format!("sender-task:{}", if e.is_panic() { "panic" } else { "cancelled" }));
        }
        Err(_) => {
            st.abort();
            obs.sent = progress.load(Ordering::SeqCst) as usize;
            let got = shared.lock().unwrap().received.len();
            // dispositions that came back towards the sender (triage help)
            let back = stat(if c.dir_cs { &log_sc } else { &log_cs }).disps;
            obs.hang = Some(format!("sender-pending(sent={},received={},dispositions-back={})", obs.sent, got, back));
        }
    }
    obs.t_sender_ms = tokio::time::Instant::now().saturating_duration_since(t0).as_millis() as u64;
    if obs.hang.is_none() && obs.task_panic.is_none() {
        // everything that was sent must arrive: generous bound after the sender has finished
        let want = obs.sent.min(n);
        let _ = tokio::time::timeout(step, async {
            loop {
                if *count_rx.borrow() >= want || shared.lock().unwrap().err.is_some() {
                    break;
                }
                if count_rx.changed().await.is_err() {
                    break;
                }
            }
        })
        .await;
        // grace period: anything beyond (a duplicate) would show up here
        tokio::time::sleep(if paused { Duration::from_secs(2) } else { Duration::from_millis(40) }).await;
    }
    obs.up_after = Some(!cconn.is_closed() && !lconn.is_closed() && !csess.is_ended() && !lsess.is_ended());
    {
        let g = shared.lock().unwrap();
        obs.received = g.received.clone();
        obs.recv_err = g.err.clone();
    }
    // ---- teardown (informative only) ----
    let mut td = String::new();
    if let Some(s) = sender_back {
        td.push_str(&match tokio::time::timeout(step, s.close()).await {
            Ok(Ok(())) => "link=ok".to_string(),
            Ok(Err(e)) => format!("link={}", ename(e)),
            Err(_) => "link=timeout".to_string(),
        });
        // the receiver task ends with RemoteClosed
        let _ = tokio::time::timeout(step, rt).await;
    } else {
        rt.abort();
    }
    td.push_str(&match tokio::time::timeout(step, csess.end()).await {
        Ok(Ok(())) => ",sess=ok".to_string(),
        Ok(Err(e)) => format!(",sess={}", ename(e)),
        Err(_) => ",sess=timeout".to_string(),
    });
    td.push_str(&match tokio::time::timeout(step, cconn.close()).await {
        Ok(Ok(())) => ",conn=ok".to_string(),
        Ok(Err(e)) => format!(",conn={}", ename(e)),
        Err(_) => ",conn=timeout".to_string(),
    });
    drop(lsess);
    drop(lconn);
    let _ = tokio::time::timeout(step, async {
        let _ = relay1.await;
        let _ = relay2.await;
    })
    .await;
    obs.teardown = td;
    {
        // a duplicate delivered during teardown still counts
        let g = shared.lock().unwrap();
        if g.received.len() > obs.received.len() {
            obs.received = g.received.clone();
        }
    }
    obs.c2s = Some(stat(&log_cs));
    obs.s2c = Some(stat(&log_sc));
    obs
}

#[allow(unexpected_cfgs)]
fn build_rt(c: &Cfg, key: u64) -> tokio::runtime::Runtime {
    if c.rt == 'p' {
        let mut b = tokio::runtime::Builder::new_current_thread();
        b.enable_all().start_paused(true);
        // `select!` picks its first branch from the runtime's PRNG: seed it when tokio lets us
        #[cfg(tokio_unstable)]
        b.rng_seed(tokio::runtime::RngSeed::from_bytes(&c.seed.to_le_bytes()));
        b.build().unwrap()
    } else {
        tokio::runtime::Builder::new_multi_thread().worker_threads(4).thread_name(format!("{}{}", WORKER_PREFIX, key)).enable_all().build().unwrap()
    }
}

fn dir_tr(d: &Option<DirStat>, full: bool) -> String {
    match d {
        None => "-".into(),
        Some(s) => {
            let mut t = format!("T{},D{},max{},mfs{}", s.transfers, s.firsts, s.max_frame, s.open_mfs.map(|v| v.to_string()).unwrap_or("-".into()));
            if s.garbage > 0 || s.bad {
                t.push_str(&format!(",garbage{}", s.garbage.max(1)));
            }
            if full {
                t.push_str(&format!(",F{},P{},fr{},by{}", s.flows, s.disps, s.frames, s.bytes));
                // how the byte stream got cut depends on which `select!` branch the engines take
                // first: only reproducible when the runtime's PRNG is seeded (tokio_unstable)
                if cfg!(tokio_unstable) {
                    t.push_str(&format!(",ch{}", s.chunks));
                }
            }
            t
        }
    }
}

pub fn run_case(line: &str) -> String {
    install_hook();
    let c = parse(line);
    let specs = gen_msgs(&c);
    let key = NEXT_KEY.fetch_add(1, Ordering::SeqCst);
    let prev_key = CASE_KEY.with(|k| k.replace(key));
    let c2 = c.clone();
    let res = std::panic::catch_unwind(std::panic::AssertUnwindSafe(move || {
        let rt = build_rt(&c2, key);
        let obs = rt.block_on(run_async(c2.clone(), specs));
        if c2.rt == 'p' {
            drop(rt);
        } else {
            rt.shutdown_background();
        }
        obs
    }));
    CASE_KEY.with(|k| k.set(prev_key));
    let (panics, at) = take_panics(key);
    let obs = match res {
        Ok(o) => o,
        Err(_) => return format!("PANIC(block_on@{})", at),
    };
    let full = c.rt == 'p';
    let mut t = String::new();
    t.push_str(&format!(
        "cfg={}/{}/{}/{} n={} sent={} recv={}",
        c.rt,
        if c.dir_cs { "cs" } else { "sc" },
        c.cmf,
        c.lmf,
        c.n,
        obs.sent,
        obs.received.len()
    ));
    if let Some(e) = &obs.setup_err {
        t.push_str(&format!(" SETUP-FAILED({})", e));
    }
    let hashes: Vec<String> = obs.received.iter().map(|(f, b)| short(fnv(f.unwrap_or(0), b))).collect();
    t.push_str(&format!(" | h={}", if hashes.is_empty() { "-".to_string() } else { hashes.join(",") }));
    t.push_str(&format!(" | oc={}", if obs.outcomes.is_empty() { "-".to_string() } else { obs.outcomes.iter().collect::<String>() }));
    t.push_str(&format!(" | c>s={} s>c={}", dir_tr(&obs.c2s, full), dir_tr(&obs.s2c, full)));
    t.push_str(&format!(" | up={}", match obs.up_after {
        Some(true) => "1",
        Some(false) => "0",
        None => "-",
    }));
    if let Some(e) = &obs.send_err {
        t.push_str(&format!(" SEND-ERR({})", e));
    }
    if let Some(e) = &obs.recv_err {
        // RemoteClosed after the sender closed the link is the regular end of the receiver task
        t.push_str(&format!(" RECV-END({})", e));
    }
    if let Some(h) = &obs.hang {
        t.push_str(&format!(" HANG({})", h));
    }
    if let Some(p) = &obs.task_panic {
        t.push_str(&format!(" PANIC({}@{})", p, at));
    } else if panics > 0 {
        t.push_str(&format!(" PANIC(task x{}@{})", panics, at));
    }
    if full {
        t.push_str(&format!(" | td={} t={}ms", if obs.teardown.is_empty() { "-" } else { &obs.teardown }, obs.t_sender_ms));
    }
    t
}

/* ------------------------------------------------------------------------------------- */
/* direct oracle: a function of the case line (which determines what was sent) and trace  */
/* ------------------------------------------------------------------------------------- */

fn section<'a>(trace: &'a str, key: &str) -> Option<&'a str> {
    for part in trace.split(" | ") {
        for w in part.split_whitespace() {
            if let Some(v) = w.strip_prefix(key) {
                return Some(v);
            }
        }
    }
    None
}

fn between<'a>(s: &'a str, open: &str) -> Option<&'a str> {
    let i = s.find(open)? + open.len();
    let mut depth = 1;
    for (j, ch) in s[i..].char_indices() {
        match ch {
            '(' => depth += 1,
            ')' => {
                depth -= 1;
                if depth == 0 {
                    return Some(&s[i..i + j]);
                }
            }
            _ => {}
        }
    }
    None
}

pub fn direct_oracle(case_line: &str, trace: &str) -> Vec<String> {
    let mut v = Vec::new();
    let c = parse(case_line);
    let specs = gen_msgs(&c);
    if trace.contains("PANIC(") {
        v.push(format!("c01-panic: a panic was raised while the case ran: {}", between(trace, "PANIC(").unwrap_or("?")));
    }
    if let Some(e) = between(trace, "SETUP-FAILED(") {
        if e.contains("timeout") {
            v.push(format!("c01-hang: connection/session/link establishment between two library endpoints did not complete: {}", e));
        } else {
            v.push(format!("c01-broken: connection/session/link establishment between two library endpoints failed: {}", e));
        }
        return v;
    }
    if let Some(h) = between(trace, "HANG(") {
        // triage help only: were there continuation transfer frames (multi-frame deliveries) before the stall?
        let data = section(trace, if c.dir_cs { "c>s=" } else { "s>c=" }).unwrap_or("");
        let num = |p: &str| -> u64 { data.split(',').find_map(|x| x.strip_prefix(p).and_then(|y| y.parse().ok())).unwrap_or(0) };
        v.push(format!(
            "c01-hang: the sending task did not finish within the bound although the receiver kept receiving and accepting: {} (transfer frames {}, deliveries started {})",
            h,
            num("T"),
            num("D")
        ));
    }
    // frame sizes against what the receiving side advertised
    let ds = |k: &str| -> (u32, Option<u32>, bool) {
        let s = section(trace, k).unwrap_or("");
        let mut max = 0;
        let mut mfs = None;
        let mut garbage = false;
        for f in s.split(',') {
            if let Some(x) = f.strip_prefix("max") {
                max = x.parse().unwrap_or(0);
            } else if let Some(x) = f.strip_prefix("mfs") {
                mfs = x.parse().ok();
            } else if f.starts_with("garbage") {
                garbage = true;
            }
        }
        (max, mfs, garbage)
    };
    let (cs_max, c_mfs, cs_g) = ds("c>s=");
    let (sc_max, l_mfs, sc_g) = ds("s>c=");
    if let Some(m) = l_mfs {
        if cs_max > m {
            v.push(format!("c06-frame-too-large: client wrote a frame of {} bytes, listener advertised max-frame-size {}", cs_max, m));
        }
    }
    if let Some(m) = c_mfs {
        if sc_max > m {
            v.push(format!("c06-frame-too-large: listener wrote a frame of {} bytes, client advertised max-frame-size {}", sc_max, m));
        }
    }
    if cs_g || sc_g {
        v.push(format!("c06-garbage: unparseable bytes on the wire (c>s garbage={}, s>c garbage={})", cs_g, sc_g));
    }
    if c_mfs.map(|m| m != c.cmf).unwrap_or(false) || l_mfs.map(|m| m != c.lmf).unwrap_or(false) {
        v.push(format!(
            "c06-advertised-mfs: the max-frame-size in the open frame differs from the configured one (client {:?} vs {}, listener {:?} vs {})",
            c_mfs, c.cmf, l_mfs, c.lmf
        ));
    }
    // what was sent
    let sent_n: usize = section(trace, "sent=").and_then(|s| s.parse().ok()).unwrap_or(0);
    let sent: Vec<(u64, usize)> = specs.iter().map(|s| fnv(s.fmt, &encode(&s.msg))).enumerate().map(|(i, h)| (h, i)).collect();
    let sent_short: Vec<String> = sent.iter().map(|(h, _)| short(*h)).collect();
    let recv: Vec<String> = match section(trace, "h=") {
        Some("-") | None => vec![],
        Some(s) => s.split(',').map(|x| x.to_string()).collect(),
    };
    let up = section(trace, "up=") == Some("1");
    let hang = trace.contains("HANG(");
    let send_err = between(trace, "SEND-ERR(");
    let recv_end = between(trace, "RECV-END(");
    let recv_broken = recv_end.map(|e| !e.contains("RemoteClosed")).unwrap_or(false);
    if let Some(e) = send_err {
        v.push(format!("c01-send-outcome: a send failed although nobody closed anything: {}", e));
    }
    if recv_broken {
        v.push(format!("c01-broken: the receiving link failed although nobody closed anything: {}", recv_end.unwrap_or("")));
    }
    if !up && !trace.contains("up=-") {
        v.push("c01-broken: connection or session stopped by itself during the exchange".to_string());
    }
    // exactly once, in order, unaltered
    use std::collections::HashMap;
    let all_sent: std::collections::HashSet<&str> = sent_short.iter().map(|s| s.as_str()).collect();
    let mut altered = 0usize;
    let mut dup = Vec::new();
    let mut matched: Vec<usize> = Vec::new();
    let mut have: HashMap<&str, i64> = HashMap::new();
    for (j, h) in recv.iter().enumerate() {
        if !all_sent.contains(h.as_str()) {
            altered += 1;
            let orig = sent_short.get(j).cloned().unwrap_or_default();
            let codec = specs.get(j).map(|s| codec_roundtrip_alters(&s.msg)).unwrap_or(false);
            v.push(format!(
                "c01-altered: received #{} has hash {} which is not the hash of any sent message (sent #{}: {} kind={} size={}; local decode/re-encode alters it: {})",
                j,
                h,
                j,
                orig,
                specs.get(j).map(|s| s.kind).unwrap_or("?"),
                specs.get(j).map(|s| s.size).unwrap_or(0),
                codec
            ));
            continue;
        }
        let k = have.entry(h.as_str()).or_insert(0);
        *k += 1;
        if *k > sent_short.iter().filter(|s| *s == h).count() as i64 {
            dup.push(j);
        } else {
            // index of the k-th sent message with that hash
            let idx = sent_short.iter().enumerate().filter(|(_, s)| *s == h).nth((*k - 1) as usize).map(|(i, _)| i).unwrap_or(0);
            matched.push(idx);
        }
    }
    for j in &dup {
        v.push(format!("c01-duplicated: received #{} (hash {}) was handed to the application more often than it was sent", j, recv[*j]));
    }
    if matched.windows(2).any(|w| w[0] > w[1]) {
        v.push(format!("c01-reordered: order of arrival (indices of the sent messages) {:?}", matched));
    }
    if !hang && send_err.is_none() && !recv_broken && up {
        let missing: Vec<usize> = (0..sent_n.min(sent_short.len())).filter(|i| !matched.contains(i)).collect();
        if missing.len() > altered {
            v.push(format!(
                "c01-lost: {} sent, {} received; sent messages that never arrived although connection, session and link stayed up: {:?}",
                sent_n,
                recv.len(),
                missing
            ));
        }
    }
    // outcomes of unsettled sends: the receiver accepts everything
    if let Some(ocs) = section(trace, "oc=") {
        if ocs != "-" {
            for (i, ch) in ocs.chars().enumerate() {
                if i >= specs.len() {
                    break;
                }
                let pre = presettled(&c, &specs[i]);
                if !pre && ch != 'A' && ch != '-' && ch != 'E' {
                    v.push(format!("c01-send-outcome: unsettled send #{} completed with outcome {} but the receiver applied Accepted", i, ch));
                }
                if !pre && ch == '-' && i < sent_n && !hang && send_err.is_none() {
                    v.push(format!("c01-send-outcome: unsettled send #{} never got an outcome", i));
                }
            }
        }
    }
    v
}

/// debugging aid: the messages of a case and whether they survive a local decode
pub fn dump_msgs(line: &str) {
    let c = parse(line);
    for (i, s) in gen_msgs(&c).iter().enumerate() {
        let b = encode(&s.msg);
        let r = serde_amqp::from_slice::<Deserializable<Msg>>(&b);
        println!(
            "#{} kind={} size={} enc={} fmt={} local-decode={} reencode-equal={}",
            i,
            s.kind,
            s.size,
            b.len(),
            s.fmt,
            match &r {
                Ok(_) => "ok".to_string(),
                Err(e) => format!("ERR {:?}", e),
            },
            r.as_ref().map(|d| encode(&d.0) == b).unwrap_or(false)
        );
        let rr = serde_amqp::from_reader::<Deserializable<Msg>>(&b[..]);
        if let Err(e) = &rr {
            println!("    from_reader: ERR {:?}", e);
        }
        if r.is_err() || std::env::var("E2E_DEBUG").is_ok() {
            println!("    {:?}", s.msg);
            println!("    {}", crate::val::hex(&b));
        }
    }
}

/// triage help: does a purely local decode + re-encode already change the bytes?
fn codec_roundtrip_alters(m: &Msg) -> bool {
    let b = encode(m);
    match serde_amqp::from_slice::<Deserializable<Msg>>(&b) {
        Ok(d) => encode(&d.0) != b,
        Err(_) => true,
    }
}

/* ------------------------------------------------------------------------------------- */
/* generator and driver                                                                   */
/* ------------------------------------------------------------------------------------- */

fn win(r: &mut Rng) -> u32 {
    match r.below(8) {
        0 => 1,
        1 => 2,
        2 => r.range(3, 8) as u32,
        3 => r.range(9, 64) as u32,
        4 => 5000,
        5 => r.range(65, 5000) as u32,
        _ => r.range(1, 16) as u32,
    }
}
fn bufsz(r: &mut Rng) -> usize {
    match r.below(6) {
        0 => 1,
        1 => 2,
        2 => r.range(3, 8) as usize,
        3 => r.range(9, 128) as usize,
        _ => 65535,
    }
}
fn mfs(r: &mut Rng) -> u32 {
    match r.below(10) {
        0 | 1 => 512,
        2 => r.range(513, 600) as u32,
        3 => 1024,
        4 => r.range(600, 4096) as u32,
        5 => 4096,
        6 => r.range(4097, 16384) as u32,
        7 => 65536,
        8 => r.range(16385, 65536) as u32,
        _ => r.range(512, 2048) as u32,
    }
}

pub fn gen_case(r: &mut Rng, thorough: bool) -> String {
    // one case in ten runs under the multi-thread runtime
    let rt = if r.chance(1, 10) { 'm' } else { 'p' };
    // profiles: 0..3 unrestricted; 4..6 every message fits into one frame (large frames, bodies
    // up to 4 KiB); 7..9 one-frame messages and channel buffers of at least 16
    let profile = r.below(10);
    let one_frame = profile >= 4;
    let big_buffers = profile >= 7;
    let (cmf, lmf) = if one_frame { (r.range(16384, 65536) as u32, r.range(16384, 65536) as u32) } else { (mfs(r), mfs(r)) };
    let refmf = cmf.min(lmf) as usize;
    let ch = *r.pick(&['t', 's', 'm', 'm', 'l', 'x', 'x']);
    // byte budget of the case: tiny chunks are expensive
    let budget: usize = match ch {
        't' => 12_000,
        's' => 60_000,
        'x' => 80_000,
        _ => 400_000,
    } * if thorough { 3 } else { 1 };
    let mut n = match r.below(6) {
        0 => 1,
        1 => r.range(2, 5) as usize,
        2 => 40,
        _ => r.range(1, 40) as usize,
    };
    let mut msz = match r.below(5) {
        0 => r.range(0, 200) as usize,
        1 => refmf + 64,
        2 => 3 * refmf,
        _ => r.range(0, 3 * refmf as u64) as usize,
    };
    if one_frame {
        msz = r.range(0, 4096) as usize;
    }
    // average size is about msz/2 * 0.6 + overhead
    while n * (msz / 3 + 150) > budget {
        if n > 6 && r.chance(1, 2) {
            n = n * 2 / 3;
        } else {
            msz = msz * 2 / 3;
        }
    }
    let auto = r.chance(3, 5);
    let (cr_a, k, t) = if auto {
        (Some(*r.pick(&[1u32, 1, 2, 3, 5, 10, 50, 200, 1000])), 0, 0)
    } else {
        let k = *r.pick(&[1u32, 1, 2, 3, 4, 7, 20, 100]);
        (None, k, r.range(1, k as u64) as u32)
    };
    let aa = r.chance(1, 3);
    let c = Cfg {
        rt,
        dir_cs: r.chance(1, 2),
        cmf,
        lmf,
        ciw: win(r),
        cow: win(r),
        liw: win(r),
        low: win(r),
        auto: cr_a,
        man_k: k,
        man_t: t,
        ssm: *r.pick(&['s', 'u', 'u', 'm', 'm']),
        rsm2: r.chance(1, 3),
        aa,
        lag: if aa || r.chance(1, 2) { 0 } else { r.range(1, 5) as u32 },
        cb: bufsz(r).max(if big_buffers { 16 } else { 1 }),
        sb: bufsz(r).max(if big_buffers { 16 } else { 1 }),
        lb: bufsz(r).max(if big_buffers { 16 } else { 1 }),
        lcb: bufsz(r).max(if big_buffers { 16 } else { 1 }),
        lsb: bufsz(r).max(if big_buffers { 16 } else { 1 }),
        pipe: *r.pick(&[4096usize, 4096, 16384, 65536, 1 << 20]),
        ch,
        net: r.below(3) as u32,
        n,
        msz,
        slow: if rt == 'm' { *r.pick(&[0u64, 0, 3]) } else { *r.pick(&[0u64, 0, 2, 20, 200]) },
        pend: *r.pick(&[0usize, 0, 1, 3, 8, 64]),
        seed: r.below(1 << 32),
        noi: match r.below(6) {
            0 => u32::MAX - r.below(40) as u32,
            1 => u32::MAX / 2 - r.below(20) as u32,
            _ => 0,
        },
        sweep: false,
    };
    line_of(&c)
}

/// hand-written corner configurations, run before the random ones
fn seeds() -> Vec<String> {
    let base = "e2e rt=p dir=cs cmf=512 lmf=512 ciw=1 cow=1 liw=1 low=1 cr=a1 ssm=u rsm=1 aa=0 lag=0 cb=1 sb=1 lb=1 lcb=1 lsb=1 pipe=4096 ch=t net=2 n=6 msz=1536 slow=0 pend=0 seed=1";
    let mut v = vec![base.to_string()];
    v.push(base.replace("dir=cs", "dir=sc"));
    v.push(base.replace("rsm=1", "rsm=2").replace("pend=0", "pend=3"));
    v.push(base.replace("cr=a1", "cr=m1.1").replace("ssm=u", "ssm=m"));
    v.push(base.replace("cr=a1", "cr=m3.2").replace("dir=cs", "dir=sc").replace("aa=0 lag=0", "aa=0 lag=2"));
    v.push("e2e rt=p dir=cs cmf=65536 lmf=512 ciw=5000 cow=5000 liw=2 low=5000 cr=a200 ssm=s rsm=1 aa=1 lag=0 cb=65535 sb=65535 lb=65535 lcb=65535 lsb=65535 pipe=65536 ch=l net=0 n=40 msz=1536 slow=0 pend=64 seed=2".to_string());
    v.push("e2e rt=p dir=sc cmf=512 lmf=65536 ciw=2 cow=5000 liw=5000 low=3 cr=a2 ssm=m rsm=2 aa=0 lag=3 cb=2 sb=2 lb=2 lcb=2 lsb=2 pipe=4096 ch=x net=1 n=25 msz=1536 slow=20 pend=8 seed=3".to_string());
    v.push("e2e rt=m dir=cs cmf=1024 lmf=2048 ciw=3 cow=2 liw=2 low=3 cr=a3 ssm=m rsm=1 aa=0 lag=2 cb=2 sb=2 lb=2 lcb=2 lsb=2 pipe=4096 ch=m net=1 n=20 msz=3000 slow=0 pend=3 seed=4".to_string());
    // a multi-frame delivery followed by a flow, everything else roomy
    v.push("e2e rt=p dir=cs cmf=512 lmf=512 ciw=5000 cow=5000 liw=5000 low=5000 cr=a2 ssm=u rsm=1 aa=1 lag=0 cb=65535 sb=65535 lb=65535 lcb=65535 lsb=65535 pipe=65536 ch=l net=0 n=3 msz=1536 slow=0 pend=0 seed=3".to_string());
    // the library's defaults (frames of 64 KiB, windows 5000, Auto(200), default buffers) and more than 100 deliveries
    v.push("e2e rt=p dir=cs cmf=65536 lmf=65536 ciw=5000 cow=5000 liw=5000 low=5000 cr=a200 ssm=u rsm=1 aa=1 lag=0 cb=65535 sb=65535 lb=65535 lcb=65535 lsb=65535 pipe=1048576 ch=l net=0 n=150 msz=200000 slow=0 pend=0 seed=7".to_string());
    // one-frame messages, small channel buffers on the receiving side / on the sending side
    v.push("e2e rt=p dir=sc cmf=1033 lmf=36311 ciw=57 cow=13 liw=5000 low=1 cr=a5 ssm=u rsm=2 aa=1 lag=0 cb=4 sb=1 lb=2 lcb=73 lsb=65535 pipe=4096 ch=m net=2 n=27 msz=136 slow=3 pend=8 seed=4279817143".to_string());
    v.push("e2e rt=p dir=cs cmf=46068 lmf=19705 ciw=4273 cow=38 liw=2 low=53 cr=a5 ssm=u rsm=2 aa=1 lag=0 cb=2 sb=1 lb=65535 lcb=2 lsb=2 pipe=4096 ch=m net=2 n=40 msz=2166 slow=200 pend=8 seed=80209512".to_string());
    v.push("e2e rt=m dir=sc cmf=4096 lmf=600 ciw=1 cow=1 liw=1 low=1 cr=m2.1 ssm=u rsm=2 aa=1 lag=0 cb=1 sb=1 lb=1 lcb=1 lsb=1 pipe=4096 ch=x net=1 n=12 msz=1800 slow=3 pend=1 seed=5".to_string());
    // every body size in the band just under the frame limit, one octet apart (where a transfer stops fitting one frame),
    // with delivery-ids below and above 255, in both directions, followed by further traffic
    let sweep = "e2e rt=p dir=cs cmf=512 lmf=512 ciw=5000 cow=5000 liw=5000 low=5000 cr=a10 ssm=u rsm=1 aa=1 lag=0 cb=65535 sb=65535 lb=65535 lcb=65535 lsb=65535 pipe=65536 ch=l net=0 n=110 msz=520 slow=0 pend=0 seed=11 sw=1";
    v.push(sweep.to_string());
    v.push(sweep.replace("dir=cs", "dir=sc"));
    v.push(sweep.replace("seed=11", "seed=12 noi=250"));
    v.push(sweep.replace("cmf=512 lmf=512", "cmf=1024 lmf=700").replace("msz=520", "msz=720").replace("seed=11", "seed=13 noi=4294967200"));
    // a receiving link whose buffer (16, 32) is smaller than the credit it grants, a pipelining sender and a slow consumer:
    // the session must wait for room in the link's buffer, not drop what does not fit
    v.push("e2e rt=p dir=sc cmf=4096 lmf=4096 ciw=5000 cow=5000 liw=5000 low=5000 cr=a64 ssm=u rsm=1 aa=1 lag=0 cb=65535 sb=65535 lb=16 lcb=65535 lsb=65535 pipe=65536 ch=l net=0 n=80 msz=120 slow=20 pend=64 seed=21".to_string());
    v.push("e2e rt=p dir=sc cmf=512 lmf=512 ciw=5000 cow=5000 liw=5000 low=5000 cr=a200 ssm=s rsm=1 aa=1 lag=0 cb=65535 sb=65535 lb=32 lcb=65535 lsb=65535 pipe=65536 ch=l net=0 n=60 msz=1500 slow=20 pend=64 seed=22".to_string());
    // transfer-ids crossing the 2^32 wrap
    v.push("e2e rt=p dir=cs cmf=4096 lmf=4096 ciw=5000 cow=5000 liw=5000 low=5000 cr=a10 ssm=u rsm=1 aa=1 lag=0 cb=65535 sb=65535 lb=65535 lcb=65535 lsb=65535 pipe=65536 ch=l net=0 n=40 msz=300 slow=0 pend=0 seed=14 noi=4294967290".to_string());
    v.push("e2e rt=p dir=sc cmf=512 lmf=512 ciw=3 cow=4 liw=5 low=2 cr=a3 ssm=m rsm=2 aa=1 lag=0 cb=16 sb=16 lb=16 lcb=16 lsb=16 pipe=4096 ch=m net=1 n=40 msz=1500 slow=0 pend=3 seed=15 noi=4294967280".to_string());
    v
}

pub fn run(seed: u64, n: u64, thorough: bool, corpus: &[String], dir: &str) {
    crate::codec::quiet_panics();
    // a quiet hook that also counts: a panic inside a task spawned by the library is invisible otherwise
    set_hook();
    let mut out = Outputs::new(dir);
    let mut r = Rng::new(seed);
    let mut lines: Vec<String> = Vec::new();
    for l in corpus {
        if l.starts_with("e2e ") {
            out.count("corpus_cases");
            lines.push(l.clone());
        }
    }
    for l in seeds() {
        out.count("seed_cases");
        lines.push(l);
    }
    for _ in 0..n {
        lines.push(gen_case(&mut r, thorough));
    }
    // the multi-thread cases run in real time: four of them at a time on helper threads while
    // the paused-clock cases run here
    let traces: Vec<Mutex<Option<String>>> = lines.iter().map(|_| Mutex::new(None)).collect();
    let next_m = AtomicU64::new(0);
    let m_idx: Vec<usize> = lines.iter().enumerate().filter(|(_, l)| l.contains(" rt=m ")).map(|(i, _)| i).collect();
    let one = |line: &str| -> String {
        match std::panic::catch_unwind(|| run_case(line)) {
            Ok(t) => t,
            Err(_) => "PANIC(harness)".to_string(),
        }
    };
    std::thread::scope(|sc| {
        for _ in 0..4 {
            sc.spawn(|| loop {
                let k = next_m.fetch_add(1, Ordering::SeqCst) as usize;
                if k >= m_idx.len() {
                    break;
                }
                let i = m_idx[k];
                *traces[i].lock().unwrap() = Some(one(&lines[i]));
            });
        }
        for (i, l) in lines.iter().enumerate() {
            if !l.contains(" rt=m ") {
                *traces[i].lock().unwrap() = Some(one(l));
            }
        }
    });
    for (i, line) in lines.iter().enumerate() {
        let line = line.clone();
        let t = traces[i].lock().unwrap().take().unwrap_or_else(|| "PANIC(harness-missing)".to_string());
        let c = parse(&line);
        let specs = gen_msgs(&c);
        out.count(&format!("rt_{}", c.rt));
        out.count(&format!("dir_{}", if c.dir_cs { "cs" } else { "sc" }));
        out.count(&format!("credit_{}", if c.auto.is_some() { "auto" } else { "manual" }));
        out.count(&format!("ssm_{}", c.ssm));
        out.count(&format!("rsm_{}", if c.rsm2 { "second" } else { "first" }));
        out.count(&format!("accept_{}", if c.aa { "auto" } else if c.lag > 0 { "disposer" } else { "direct" }));
        out.count(&format!("chunk_{}", c.ch));
        out.count(&format!("net_{}", c.net));
        out.count(&format!("mfs_min_{}", match c.cmf.min(c.lmf) {
            512 => "512",
            513..=1024 => "le1k",
            1025..=4096 => "le4k",
            4097..=16384 => "le16k",
            _ => "le64k",
        }));
        if c.ciw.min(c.cow).min(c.liw).min(c.low) == 1 {
            out.count("some_window_1");
        }
        if [c.cb, c.sb, c.lb, c.lcb, c.lsb].iter().any(|b| *b == 1) {
            out.count("some_buffer_1");
        }
        if c.pipe <= 64 {
            out.count("pipe_le_64");
        }
        if c.slow > 0 {
            out.count("slow_receiver");
        }
        out.add("messages", specs.len() as u64);
        let refmf = c.cmf.min(c.lmf) as usize;
        for s in &specs {
            out.count(&format!("body_{}", s.kind));
            let len = encode(&s.msg).len();
            out.add("message_bytes", len as u64);
            if len + 64 > refmf {
                out.count("msgs_multi_frame");
            }
            if len > 2 * refmf {
                out.count("msgs_over_2_frames");
            }
            if s.msg.body.is_empty() || s.size == 0 {
                out.count("msgs_size_0");
            }
            if s.fmt != 0 {
                out.count("msgs_format_nonzero");
            }
            if s.batch {
                out.count("msgs_send_batchable");
            }
            if presettled(&c, s) {
                out.count("msgs_presettled");
            }
            let secs = [
                s.msg.header.is_some(),
                s.msg.delivery_annotations.is_some(),
                s.msg.message_annotations.is_some(),
                s.msg.properties.is_some(),
                s.msg.application_properties.is_some(),
                s.msg.footer.is_some(),
            ];
            for (nm, p) in ["header", "delivery_annotations", "message_annotations", "properties", "application_properties", "footer"].iter().zip(secs.iter()) {
                if *p {
                    out.count(&format!("section_{}", nm));
                }
            }
        }
        let g = |k: &str, f: &str| -> u64 {
            section(&t, k).and_then(|s| s.split(',').find_map(|x| x.strip_prefix(f)).and_then(|x| x.parse().ok())).unwrap_or(0)
        };
        out.add("deliveries_received", section(&t, "recv=").and_then(|s| s.parse().ok()).unwrap_or(0));
        out.add("transfer_frames", g("c>s=", "T") + g("s>c=", "T"));
        out.add("relay_chunks", g("c>s=", "ch") + g("s>c=", "ch"));
        out.add("wire_bytes", g("c>s=", "by") + g("s>c=", "by"));
        if t.contains("td=link=ok,sess=ok,conn=ok") {
            out.count("clean_teardown");
        }
        if section(&t, "recv=").and_then(|s| s.parse::<u64>().ok()).unwrap_or(0) >= 2 && specs.iter().any(|s| encode(&s.msg).len() + 64 > refmf) {
            out.nontrivial(&line);
        }
        for vv in direct_oracle(&line, &t) {
            let mut class = vv.split(':').next().unwrap_or("?").to_string();
            // a stall or loss with a channel buffer below 8 somewhere is the cyclic wait on bounded channels (a recorded finding);
            // with ordinary buffer sizes it is something else
            let small = line.split_whitespace().any(|w| {
                ["cb=", "sb=", "lb=", "lcb=", "lsb="].iter().any(|k| w.strip_prefix(k).and_then(|v| v.parse::<u64>().ok()).map(|v| v < 8).unwrap_or(false))
            });
            if small && (class == "c01-hang" || class == "c01-lost") {
                class.push_str("-small-buffers");
            }
            out.violation(&class, &format!("{} | `{}` -> {}", vv, line, t), &line);
        }
        out.case(&line, &t);
    }
    out.finish(dir);
}
