//! `sfr` sub-harness (C19, C15): the SASL frame codec (`frames/sasl.rs` FrameCodec) and a PLAIN listener driven by the bytes
//! of one frame, against the Coq models `coq/Frame/SaslFrame.v` and `coq/Auth/SaslWire.v` (+ `coq/Auth/Plain.v`).
//!
//! Case lines
//!   `sfr enc code=<64..68> fields=<hex,..>` : a generated SASL frame written by the real FrameCodec and read back by it; trace
//!        `enc=<hex> dec=<result>`; the model runs enc_sasl_frame and dec_sasl_frame;
//!   `sfr dec <hex>` : bytes built here (another header, cut short, descriptor by name, unknown descriptor, trailing bytes,
//!        random bytes) through the real decoder and dec_sasl_frame; trace `<result>`;
//!   `sfr plw u=<hex> p=<hex> exp=<grant|fail|?> <hex>` : a real listener with SaslPlainMechanism(u, p) has exchanged the SASL
//!        header and written its mechanisms; the bytes are sent as one frame (size field added); trace = what the listener
//!        writes (`OutOk`, `OutFail`, `H`) and whether accept() has returned; the model runs plain_on_frame_bytes.
//!   result = `ok code=<c> fields=<..>` | `err` | `PANIC`
//! Direct oracle: no panic (c15-sasl-frame-decoder-panic); a written frame is read back (c19-sasl-frame-roundtrip); a frame
//! built with other credentials, of another kind, or malformed is never granted (c19-plain-granted-bad-frame) and the
//! configured credentials are (c19-valid-login-refused).
use crate::eng::*;
use crate::out::*;
use crate::rng::Rng;
use crate::typed;
use crate::val::{hex, unhex};
use bytes::BytesMut;
use fe2o3_amqp::acceptor::{ConnectionAcceptor, SaslPlainMechanism};
use fe2o3_amqp::frames::sasl::{Frame, FrameCodec};
use fe2o3_amqp_types::sasl::{SaslChallenge, SaslInit, SaslResponse};
use serde_amqp::primitives::Symbol;
use serde_bytes::ByteBuf;
use std::panic::{catch_unwind, AssertUnwindSafe};
use std::time::Duration;
use tokio_util::codec::{Decoder, Encoder};

fn join(v: &[Vec<u8>]) -> String {
    if v.is_empty() {
        return "-".into();
    }
    v.iter().map(|f| hex(f)).collect::<Vec<_>>().join(",")
}

fn optv<T: serde::Serialize>(o: &Option<T>) -> Vec<u8> {
    match o {
        Some(x) => serde_amqp::to_vec(x).unwrap(),
        None => vec![0x40],
    }
}

fn frame_fields(f: &Frame) -> (u64, Vec<Vec<u8>>) {
    match f {
        Frame::Mechanisms(m) => (64, vec![serde_amqp::to_vec(&m.sasl_server_mechanisms).unwrap()]),
        Frame::Init(i) => (65, vec![serde_amqp::to_vec(&i.mechanism).unwrap(), optv(&i.initial_response), optv(&i.hostname)]),
        Frame::Challenge(c) => (66, vec![serde_amqp::to_vec(&c.challenge).unwrap()]),
        Frame::Response(c) => (67, vec![serde_amqp::to_vec(&c.response).unwrap()]),
        Frame::Outcome(o) => (68, vec![serde_amqp::to_vec(&o.code).unwrap(), optv(&o.additional_data)]),
    }
}

fn show(f: &Frame) -> String {
    let (code, fields) = frame_fields(f);
    format!("ok code={} fields={}", code, join(&fields))
}

pub fn decode(bytes: &[u8]) -> String {
    let owned = bytes.to_vec();
    let r = crate::out::guarded(10, move || {
        let r = catch_unwind(AssertUnwindSafe(|| {
            let mut src = BytesMut::from(&owned[..]);
            FrameCodec {}.decode(&mut src)
        }));
        match r {
            Ok(Ok(Some(f))) => show(&f),
            Ok(Ok(None)) => "none".into(),
            Ok(Err(_)) => "err".into(),
            Err(_) => "PANIC".into(),
        }
    });
    r.unwrap_or_else(|| "SPIN".to_string())
}

fn encode(f: Frame) -> Result<Vec<u8>, String> {
    let r = catch_unwind(AssertUnwindSafe(|| {
        let mut dst = BytesMut::new();
        FrameCodec {}.encode(f, &mut dst).map(|_| dst.to_vec())
    }));
    match r {
        Ok(Ok(b)) => Ok(b),
        Ok(Err(_)) => Err("ERR".into()),
        Err(_) => Err("PANIC".into()),
    }
}

fn gen_frame(r: &mut Rng) -> Frame {
    match r.below(5) {
        0 => Frame::Mechanisms(typed::gen_sasl_mechanisms(r)),
        1 => Frame::Init(typed::gen_sasl_init(r)),
        2 => {
            let n = *r.pick(&[0usize, 1, 5, 255, 256]);
            Frame::Challenge(SaslChallenge { challenge: ByteBuf::from(r.bytes(n)) })
        }
        3 => {
            let n = *r.pick(&[0usize, 1, 5, 255, 256]);
            Frame::Response(SaslResponse { response: ByteBuf::from(r.bytes(n)) })
        }
        _ => Frame::Outcome(typed::gen_sasl_outcome(r)),
    }
}

fn name_of(code: u64) -> &'static str {
    match code {
        64 => "amqp:sasl-mechanisms:list",
        65 => "amqp:sasl-init:list",
        66 => "amqp:sasl-challenge:list",
        67 => "amqp:sasl-response:list",
        _ => "amqp:sasl-outcome:list",
    }
}

fn dec_line(bytes: &[u8]) -> String {
    format!("sfr dec {}", hex(bytes))
}

fn run_dec(line: &str, what: &str, out: &mut Outputs) {
    let hx = line.split_whitespace().nth(2).unwrap_or("");
    let bytes = unhex(hx).unwrap_or_default();
    let res = decode(&bytes);
    if res == "PANIC" {
        out.violation("c15-sasl-frame-decoder-panic", &format!("the SASL frame decoder panics ({})", what), line);
        out.violation("c19-sasl-frame-decoder-panic", &format!("the SASL frame decoder panics ({})", what), line);
    }
    if res == "SPIN" && !out.violations.iter().any(|v| v.0 == "c15-sasl-frame-decoder-spin") {
        out.violation("c15-sasl-frame-decoder-spin", &format!("the SASL frame decoder had not returned after 10 s on a frame of {} bytes ({})", bytes.len(), what), line);
        out.violation("c19-hang-or-panic", &format!("the SASL frame decoder had not returned after 10 s on a frame of {} bytes ({})", bytes.len(), what), line);
    }
    out.count(&format!("dec: {}", what));
    if res.starts_with("ok") {
        out.nontrivial(line);
    }
    out.case(line, &res);
}

/// variants of the bytes of one written frame
fn variants(r: &mut Rng, code: u64, enc: &[u8], out: &mut Outputs) {
    let body = &enc[4..];
    for (doff, ty) in [(0u8, 1u8), (1, 1), (3, 1), (255, 1), (2, 0), (2, 2), (2, 255)] {
        if r.chance(1, 3) {
            let mut b = vec![doff, ty, 0, 0];
            b.extend(body);
            run_dec(&dec_line(&b), "other doff / type", out);
        }
    }
    if r.chance(1, 2) {
        // bytes 6 and 7 of the header are ignored
        let mut b = vec![2u8, 1, r.next() as u8, r.next() as u8];
        b.extend(body);
        run_dec(&dec_line(&b), "ignored header bytes set", out);
    }
    for _ in 0..2 {
        let k = r.below(enc.len() as u64) as usize;
        run_dec(&dec_line(&enc[..k]), "cut short", out);
    }
    if body.len() > 3 && body[0] == 0 && body[1] == 0x53 {
        let rest = &body[3..];
        let name = name_of(code);
        let hdr = vec![2u8, 1, 0, 0];
        let vs: Vec<(Vec<u8>, &str)> = vec![
            ([vec![0x00, 0xa3, name.len() as u8], name.as_bytes().to_vec()].concat(), "descriptor by name (sym8)"),
            ([vec![0x00, 0xb3], (name.len() as u32).to_be_bytes().to_vec(), name.as_bytes().to_vec()].concat(), "descriptor by name (sym32)"),
            ([vec![0x00, 0x80], code.to_be_bytes().to_vec()].concat(), "descriptor as ulong"),
            (vec![0x00, 0x53, 0x45], "unknown descriptor"),
            (vec![0x00, 0x53, 0x10], "an AMQP performative in a SASL frame"),
            ([vec![0x00, 0xa3, 9], b"amqp:nope".to_vec()].concat(), "unknown descriptor name"),
        ];
        for (d, what) in vs {
            if r.chance(1, 2) {
                let b = [hdr.clone(), d, rest.to_vec()].concat();
                run_dec(&dec_line(&b), what, out);
            }
        }
        if r.chance(1, 2) {
            let k = 1 + r.below(6) as usize;
            let b = [enc.to_vec(), r.bytes(k)].concat();
            run_dec(&dec_line(&b), "trailing bytes", out);
        }
    }
}

fn run_enc(line: &str, f: Frame, out: &mut Outputs) -> Option<Vec<u8>> {
    let (code, fields) = frame_fields(&f);
    match encode(f) {
        Ok(enc) => {
            let dec = decode(&enc);
            let expect = format!("ok code={} fields={}", code, join(&fields));
            out.count(&format!("enc: code {}", code));
            out.nontrivial(line);
            if dec != expect {
                out.violation("c19-sasl-frame-roundtrip", &format!("the SASL frame is read back as `{}`", &dec[..dec.len().min(300)]), line);
            }
            out.case(line, &format!("enc={} dec={}", hex(&enc), dec));
            Some(enc)
        }
        Err(e) => {
            if e == "PANIC" {
                out.violation("c15-sasl-frame-decoder-panic", "the SASL frame encoder panics", line);
            }
            out.case(line, &format!("enc={}", e));
            None
        }
    }
}

/* ---- the PLAIN listener on the bytes of one frame ---- */

fn plw(user: &[u8], pass: &[u8], frame: &[u8]) -> String {
    let user = String::from_utf8_lossy(user).to_string();
    let pass = String::from_utf8_lossy(pass).to_string();
    let frame = frame.to_vec();
    let r = catch_unwind(AssertUnwindSafe(|| {
        paused_rt().block_on(async move {
            let (a, b) = tokio::io::duplex(1 << 16);
            let acceptor = ConnectionAcceptor::builder().container_id("l").sasl_acceptor(SaslPlainMechanism::new(user, pass)).build();
            let app = tokio::spawn(async move { acceptor.accept(a).await.map(|_h| ()).map_err(|e| format!("{:?}", e)) });
            let mut peer = Peer::new(b);
            peer.parser.expect_headers = 2;
            peer.write(&SASL_HEADER).await;
            barrier().await;
            let first = peer.drain().await;
            if !first.iter().any(|w| matches!(w, Wire::Sasl(_))) {
                return "NO-MECHANISMS".to_string();
            }
            let mut bytes = ((frame.len() + 4) as u32).to_be_bytes().to_vec();
            bytes.extend(&frame);
            peer.write(&bytes).await;
            barrier().await;
            let mut ws = peer.drain().await;
            tokio::time::sleep(Duration::from_secs(2)).await;
            ws.extend(peer.drain().await);
            let toks: Vec<String> = ws
                .iter()
                .map(|w| match w {
                    Wire::Sasl(b) => match serde_amqp::from_slice::<fe2o3_amqp_types::sasl::SaslOutcome>(b) {
                        Ok(o) => {
                            if matches!(o.code, fe2o3_amqp_types::sasl::SaslCode::Ok) {
                                "OutOk".to_string()
                            } else {
                                "OutFail".to_string()
                            }
                        }
                        Err(_) => "S?".to_string(),
                    },
                    other => wire_token(other),
                })
                .collect();
            let acc = if app.is_finished() {
                match app.await {
                    Ok(Ok(())) => "accept=ok",
                    Ok(Err(_)) => "accept=err",
                    Err(_) => "accept=PANIC",
                }
            } else {
                app.abort();
                "accept=pending"
            };
            format!("{} | {}", if toks.is_empty() { "-".to_string() } else { toks.join(",") }, acc)
        })
    }));
    r.unwrap_or_else(|_| "PANIC".to_string())
}

fn kvh(line: &str, key: &str) -> Vec<u8> {
    line.split_whitespace().find_map(|w| w.strip_prefix(key)).and_then(|h| if h == "-" { Some(vec![]) } else { unhex(h) }).unwrap_or_default()
}

fn run_plw(line: &str, out: &mut Outputs) {
    let u = kvh(line, "u=");
    let p = kvh(line, "p=");
    let exp = line.split_whitespace().find_map(|w| w.strip_prefix("exp=")).unwrap_or("?").to_string();
    let hx = line.split_whitespace().last().unwrap_or("");
    let frame = if hx.contains('=') { vec![] } else { unhex(hx).unwrap_or_default() };
    let t = plw(&u, &p, &frame);
    let granted = t.contains("OutOk") || t.contains("H") && !t.contains("Hs") || t.contains("accept=ok");
    out.count(&format!("plw: exp={} -> {}", exp, if granted { "granted" } else { "refused" }));
    if granted {
        out.nontrivial(line);
    }
    if t.contains("PANIC") {
        out.violation("c19-hang-or-panic", &format!("the listener panics on a SASL frame: {}", t), line);
    }
    if exp == "fail" && granted {
        out.violation(
            "c19-plain-granted-bad-frame",
            &format!("a PLAIN listener granted the negotiation for a frame that does not carry the configured user and password: {}", t),
            line,
        );
    }
    if exp == "fail" && t.contains("accept=pending") {
        out.violation("c19-no-failure-reported", &format!("accept() has not returned after a frame that cannot authenticate anybody: {}", t), line);
    }
    if exp == "grant" && !granted {
        out.violation("c19-valid-login-refused", &format!("the configured user and password are refused: {}", t), line);
    }
    out.case(line, &t);
}

fn init_frame(mech: &str, resp: Option<Vec<u8>>, host: Option<&str>) -> Vec<u8> {
    let f = Frame::Init(SaslInit { mechanism: Symbol::from(mech), initial_response: resp.map(ByteBuf::from), hostname: host.map(|h| h.to_string()) });
    encode(f).unwrap_or_default()
}

fn plw_cases(r: &mut Rng, n: u64, lines: &mut Vec<String>) {
    let creds: [(&str, &str); 4] = [("alice", "secret"), ("u", "p"), ("bob", "pass word"), ("x", "")];
    let j = |parts: &[&[u8]]| -> Vec<u8> { parts.join(&0u8) };
    for i in 0..n {
        let (u, p) = creds[(i % 4) as usize];
        let (ub, pb) = (u.as_bytes(), p.as_bytes());
        let mut px = pb.to_vec();
        px.push(b'x');
        let cut = &pb[..pb.len().saturating_sub(1)];
        let (resp, exp): (Option<Vec<u8>>, &str) = match r.below(16) {
            0 | 1 | 2 => (Some(j(&[b"", ub, pb])), "grant"),
            3 => (Some(j(&[b"zid", ub, pb])), "grant"),
            4 => (Some(j(&[b"", ub, &px])), "fail"),
            5 => (Some(j(&[b"", ub, cut])), if cut == pb { "grant" } else { "fail" }),
            6 => (Some(j(&[b"", b"nobody", pb])), "fail"),
            7 => (Some(j(&[ub, pb])), "fail"),
            8 => (Some([ub, pb].concat()), "fail"),
            9 => (None, "fail"),
            10 => (Some(j(&[b"", ub, pb, b""])), "fail"),
            11 => (Some(j(&[b"", b"", ub, pb])), "fail"),
            12 => (Some(j(&[b"", pb, ub])), if ub == pb { "grant" } else { "fail" }),
            13 => (Some(vec![]), "fail"),
            14 => (Some(j(&[b"", ub, b""])), if pb.is_empty() { "grant" } else { "fail" }),
            _ => (Some(r.bytes(6)), "?"),
        };
        let mech = *r.pick(&["PLAIN", "PLAIN", "ANONYMOUS", ""]);
        let host = if r.chance(1, 3) { Some("h") } else { None };
        let good = init_frame(mech, resp, host);
        if good.is_empty() {
            continue;
        }
        let head = format!("sfr plw u={} p={}", hex(ub), if pb.is_empty() { "-".to_string() } else { hex(pb) });
        match r.below(10) {
            0..=4 => lines.push(format!("{} exp={} {}", head, exp, hex(&good))),
            5 => {
                // another header: never a SASL frame
                let (doff, ty) = *r.pick(&[(3u8, 1u8), (2, 0), (2, 2), (0, 1), (1, 1)]);
                let mut b = vec![doff, ty, 0, 0];
                b.extend(&good[4..]);
                lines.push(format!("{} exp=fail {}", head, hex(&b)));
            }
            6 => {
                let k = r.below(good.len() as u64) as usize;
                lines.push(format!("{} exp=fail {}", head, hex(&good[..k])));
            }
            7 => {
                // the same fields under the descriptor of another SASL frame or by name
                let mut b = good.clone();
                if r.chance(1, 2) {
                    b[6] = *r.pick(&[0x40u8, 0x42, 0x43, 0x44, 0x45]);
                    lines.push(format!("{} exp=fail {}", head, hex(&b)));
                } else {
                    let name = "amqp:sasl-init:list";
                    let nb = [vec![2u8, 1, 0, 0, 0x00, 0xa3, name.len() as u8], name.as_bytes().to_vec(), good[7..].to_vec()].concat();
                    lines.push(format!("{} exp={} {}", head, exp, hex(&nb)));
                }
            }
            8 => {
                // a frame only a server sends, a response before the init
                let f = match r.below(3) {
                    0 => Frame::Response(SaslResponse { response: ByteBuf::from(j(&[b"", ub, pb])) }),
                    1 => Frame::Challenge(SaslChallenge { challenge: ByteBuf::from(j(&[b"", ub, pb])) }),
                    _ => Frame::Outcome(fe2o3_amqp_types::sasl::SaslOutcome { code: fe2o3_amqp_types::sasl::SaslCode::Ok, additional_data: None }),
                };
                lines.push(format!("{} exp=fail {}", head, hex(&encode(f).unwrap_or_default())));
            }
            _ => {
                let k = 4 + r.below(16) as usize;
                let mut b = r.bytes(k);
                b[0] = 2;
                b[1] = 1;
                lines.push(format!("{} exp=fail {}", head, hex(&b)));
            }
        }
    }
}

pub fn run(seed: u64, n: u64, thorough: bool, corpus: &[String], dir: &str) {
    crate::codec::quiet_panics();
    let mut out = Outputs::new(dir);
    let mut r = Rng::new(seed ^ 0x736672);
    for line in corpus {
        let l = line.trim();
        if l.starts_with("sfr dec") {
            run_dec(l, "corpus", &mut out);
        } else if l.starts_with("sfr plw") {
            run_plw(l, &mut out);
        }
    }
    for b in [
        vec![],
        vec![2],
        vec![2, 1, 0],
        vec![2, 1, 0, 0],
        vec![2, 0, 0, 0],
        vec![3, 1, 0, 0, 0, 0x53, 0x41, 0x45],
        vec![2, 1, 0, 0, 0x40],
        vec![2, 1, 0, 0, 0x00, 0x53],
        vec![2, 1, 0, 0, 0x00, 0x53, 0x41],
        vec![2, 1, 0, 0, 0x00, 0x53, 0x41, 0x45],
        vec![2, 1, 0, 0, 0x00, 0x53, 0x41, 0xc0, 0x01, 0x00],
        vec![2, 1, 0, 0, 0x00, 0x53, 0x41, 0xc0, 0x02, 0x01, 0x40],
        vec![2, 1, 0, 0, 0x00, 0x53, 0x41, 0xc0, 0x04, 0x01, 0xa3, 0x01, 0x58],
        vec![2, 1, 0, 0, 0x00, 0x53, 0x44, 0xc0, 0x03, 0x01, 0x50, 0x00],
        vec![2, 1, 0, 0, 0x00, 0x53, 0x44, 0xc0, 0x03, 0x01, 0x50, 0x04],
        vec![2, 1, 0, 0, 0x00, 0x53, 0x44, 0x45],
        vec![2, 1, 0, 0, 0x00, 0x53, 0x43, 0xc0, 0x03, 0x01, 0xa0, 0x00],
        vec![2, 1, 0, 0, 0x00, 0x53, 0x42, 0xc0, 0x01, 0x00],
    ] {
        run_dec(&dec_line(&b), "fixed", &mut out);
    }
    let n_codec = if n == 0 { 0 } else { n };
    for _ in 0..n_codec {
        let f = gen_frame(&mut r);
        let (code, fields) = frame_fields(&f);
        let line = format!("sfr enc code={} fields={}", code, join(&fields));
        if let Some(enc) = run_enc(&line, f, &mut out) {
            variants(&mut r, code, &enc, &mut out);
        }
        if r.chance(1, 5) {
            let k = r.below(24) as usize;
            let mut b = r.bytes(k);
            if k >= 2 && r.chance(2, 3) {
                b[0] = 2;
                b[1] = 1;
            }
            run_dec(&dec_line(&b), "random bytes", &mut out);
        }
    }
    let mut lines = Vec::new();
    plw_cases(&mut r, if n == 0 { 0 } else if thorough { n / 2 } else { n / 3 }, &mut lines);
    lines.sort();
    lines.dedup();
    for l in lines {
        run_plw(&l, &mut out);
    }
    out.finish(dir);
}
