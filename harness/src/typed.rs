//! Typed protocol item sub-harness (C03, C04, C20 on the *typed* layer): structure-aware
//! generator for the performatives, SASL frames bodies, delivery states, termini, message
//! sections and complete messages of `fe2o3_amqp_types`, checked directly on the real
//! implementation.
//!
//! For every generated item `x : T`:
//!  (1) `from_slice::<T>(to_vec(x)) == x`                                   c03-typed-roundtrip
//!  (2) `serialized_size(x) == to_vec(x).len()`                             c20-typed-size
//!  (3) `from_value::<T>(to_value(x)) == x`                                 c20-value-tree
//!      `to_vec(to_value(x)) == to_vec(x)`                                  c20-value-tree-bytes
//!  (4) `from_reader::<T>(..)` (whole cursor, and 1/2/3/7 bytes per read)
//!      agrees with `from_slice::<T>`                                       c20-io-reader
//!  any panic in any of the above                                           c04-typed-panic
//!
//! Case line: `typed <TypeName> <hex of to_vec bytes>`; impl line `ok` or the failure tags.
use crate::out::*;
use crate::rng::Rng;
use crate::val::{gen_scalar_of_kind, gen_value, hex};
use fe2o3_amqp_types::definitions::{
    self, AmqpError, ConnectionError, ErrorCondition, Fields, Handle, LinkError, ReceiverSettleMode, Role, SenderSettleMode,
    SessionError,
};
use fe2o3_amqp_types::messaging::annotations::{Annotations, OwnedKey};
use fe2o3_amqp_types::messaging::message::__private::{Deserializable, Serializable};
use fe2o3_amqp_types::messaging::{
    Accepted, AmqpSequence, AmqpValue, ApplicationProperties, Batch, Body, Data, DeliveryAnnotations, DeliveryState,
    DistributionMode, Footer, Header, Message, MessageAnnotations, MessageId, Modified, Outcome, Priority, Properties,
    Received, Rejected, Released, Source, Target, TargetArchetype, TerminusDurability, TerminusExpiryPolicy,
};
use fe2o3_amqp_types::performatives::{
    Attach, Begin, ChannelMax, Close, Detach, Disposition, End, Flow, MaxFrameSize, Open, Performative, Transfer,
};
use fe2o3_amqp_types::primitives::SimpleValue;
use fe2o3_amqp_types::sasl::{SaslChallenge, SaslCode, SaslInit, SaslMechanisms, SaslOutcome, SaslResponse};
use fe2o3_amqp_types::transaction::{Coordinator, Declared, TransactionError, TransactionalState, TxnCapability};
use serde_amqp::described::Described;
use serde_amqp::descriptor::Descriptor;
use serde_amqp::primitives::{Array, OrderedMap, Symbol, Timestamp, Uuid};
use serde_amqp::Value;
use serde_bytes::ByteBuf;
use std::convert::TryFrom;
use std::panic::{catch_unwind, AssertUnwindSafe};

pub type Msg = Message<Body<Value>>;

/* ------------------------------------------------------------------------------------- */
/* uniform access to the codec entry points                                              */
/* ------------------------------------------------------------------------------------- */

fn es<E: std::fmt::Debug>(e: E) -> String {
    format!("{:?}", e)
}

/// One typed item: how to push it through each codec entry point, and how to compare.
pub trait Item: Sized + std::fmt::Debug {
    fn enc(&self) -> Result<Vec<u8>, String>;
    fn size(&self) -> Result<usize, String>;
    fn to_val(&self) -> Result<Value, String>;
    fn from_bytes(b: &[u8]) -> Result<Self, String>;
    fn from_rd<R: std::io::Read>(r: R) -> Result<Self, String>;
    fn from_val(v: Value) -> Result<Self, String>;
    fn same(&self, o: &Self) -> bool;
}

/// types that are directly Serialize + DeserializeOwned; `$cmp` decides equality
macro_rules! item_impl {
    ($t:ty, $a:ident, $b:ident, $cmp:expr) => {
        impl Item for $t {
            fn enc(&self) -> Result<Vec<u8>, String> {
                serde_amqp::to_vec(self).map_err(es)
            }
            fn size(&self) -> Result<usize, String> {
                serde_amqp::serialized_size(self).map_err(es)
            }
            fn to_val(&self) -> Result<Value, String> {
                serde_amqp::to_value(self).map_err(es)
            }
            fn from_bytes(b: &[u8]) -> Result<Self, String> {
                serde_amqp::from_slice::<$t>(b).map_err(es)
            }
            fn from_rd<R: std::io::Read>(r: R) -> Result<Self, String> {
                serde_amqp::from_reader::<$t>(r).map_err(es)
            }
            fn from_val(v: Value) -> Result<Self, String> {
                serde_amqp::from_value::<$t>(v).map_err(es)
            }
            fn same(&self, o: &Self) -> bool {
                let $a = self;
                let $b = o;
                $cmp
            }
        }
    };
}
/// PartialEq is derived
macro_rules! item_eq {
    ($($t:ty),*) => { $( item_impl!($t, a, b, a == b); )* };
}
/// no PartialEq on the type: compare the Debug output
macro_rules! item_dbg {
    ($($t:ty),*) => { $( item_impl!($t, a, b, format!("{:?}", a) == format!("{:?}", b)); )* };
}

item_eq!(
    Open,
    Begin,
    Attach,
    Flow,
    Transfer,
    Disposition,
    Detach,
    End,
    Close,
    Performative,
    DeliveryState,
    Outcome,
    definitions::Error,
    Source,
    Target,
    TargetArchetype,
    Coordinator,
    Header,
    DeliveryAnnotations,
    MessageAnnotations,
    Properties,
    ApplicationProperties,
    Footer
);
// the SASL frame bodies derive only Debug and Clone
item_dbg!(SaslMechanisms, SaslInit, SaslChallenge, SaslResponse, SaslOutcome);

/// `Message` is not Serialize/Deserialize itself: the link code wraps it in
/// `__private::Serializable` (sender.rs) and `__private::Deserializable` (DecodeIntoMessage).
impl Item for Msg {
    fn enc(&self) -> Result<Vec<u8>, String> {
        serde_amqp::to_vec(&Serializable(self)).map_err(es)
    }
    fn size(&self) -> Result<usize, String> {
        serde_amqp::serialized_size(&Serializable(self)).map_err(es)
    }
    fn to_val(&self) -> Result<Value, String> {
        serde_amqp::to_value(&Serializable(self)).map_err(es)
    }
    fn from_bytes(b: &[u8]) -> Result<Self, String> {
        serde_amqp::from_slice::<Deserializable<Msg>>(b).map(|d| d.0).map_err(es)
    }
    fn from_rd<R: std::io::Read>(r: R) -> Result<Self, String> {
        serde_amqp::from_reader::<Deserializable<Msg>>(r).map(|d| d.0).map_err(es)
    }
    fn from_val(v: Value) -> Result<Self, String> {
        serde_amqp::from_value::<Deserializable<Msg>>(v).map(|d| d.0).map_err(es)
    }
    fn same(&self, o: &Self) -> bool {
        self == o
    }
}

pub fn encode_message(m: &Msg) -> Vec<u8> {
    serde_amqp::to_vec(&Serializable(m)).expect("message encodes")
}

pub fn decode_message(b: &[u8]) -> Result<Msg, String> {
    match catch_unwind(AssertUnwindSafe(|| <Msg as Item>::from_bytes(b))) {
        Ok(r) => r,
        Err(e) => Err(format!("PANIC {}", panic_msg(&e))),
    }
}

/* ------------------------------------------------------------------------------------- */
/* the checks                                                                            */
/* ------------------------------------------------------------------------------------- */

/// a reader that hands out at most `k` bytes per `read` call
struct Chunked<'a> {
    b: &'a [u8],
    pos: usize,
    k: usize,
}
impl std::io::Read for Chunked<'_> {
    fn read(&mut self, buf: &mut [u8]) -> std::io::Result<usize> {
        let n = self.k.min(buf.len()).min(self.b.len() - self.pos);
        buf[..n].copy_from_slice(&self.b[self.pos..self.pos + n]);
        self.pos += n;
        Ok(n)
    }
}

fn panic_msg(e: &Box<dyn std::any::Any + Send>) -> String {
    if let Some(s) = e.downcast_ref::<&str>() {
        s.to_string()
    } else if let Some(s) = e.downcast_ref::<String>() {
        s.clone()
    } else {
        "<non-string panic payload>".to_string()
    }
}

/// Err = the closure panicked (with the panic message)
fn guarded<R>(f: impl FnOnce() -> R) -> Result<R, String> {
    catch_unwind(AssertUnwindSafe(f)).map_err(|e| panic_msg(&e))
}

fn trunc(mut s: String) -> String {
    if s.len() > 1500 {
        let mut n = 1500;
        while !s.is_char_boundary(n) {
            n -= 1;
        }
        s.truncate(n);
        s.push_str("...");
    }
    s
}

fn show<T: std::fmt::Debug>(r: &Result<T, String>) -> String {
    match r {
        Ok(v) => trunc(format!("Ok({:?})", v)),
        Err(e) => trunc(format!("Err({})", e)),
    }
}

pub fn check_item<T: Item>(name: &str, x: &T, out: &mut Outputs) {
    out.count(&format!("type_{name}"));
    let dbg = trunc(format!("{:?}", x));
    let mut fails: Vec<(&'static str, &'static str, String)> = Vec::new(); // (class, tag, what)

    let bytes = match guarded(|| x.enc()) {
        Err(p) => {
            let line = format!("typed {name} !enc-panic {dbg}");
            out.violation("c04-typed-panic", &format!("c04-typed-panic: to_vec panicked ({p}) on {name} {dbg}"), &line);
            out.count("viol_c04-typed-panic");
            out.case(&line, "panic-enc");
            return;
        }
        Ok(Err(e)) => {
            let line = format!("typed {name} !enc-error {dbg}");
            out.violation("c03-typed-roundtrip", &format!("c03-typed-roundtrip: to_vec failed ({e}) on generated {name} {dbg}"), &line);
            out.count("viol_c03-typed-roundtrip");
            out.case(&line, "enc-error");
            return;
        }
        Ok(Ok(b)) => b,
    };
    let h = hex(&bytes);
    let line = format!("typed {name} {h}");

    // (1) round trip through the slice decoder
    let sliced: Option<Result<T, String>> = match guarded(|| T::from_bytes(&bytes)) {
        Err(p) => {
            fails.push(("c04-typed-panic", "panic-from_slice", format!("from_slice::<{name}> panicked ({p})")));
            None
        }
        Ok(res) => {
            match &res {
                Ok(y) if x.same(y) => {
                    // equal by PartialEq/Debug: the decoded item must also re-encode to the same bytes
                    match guarded(|| y.enc()) {
                        Err(p) => fails.push(("c04-typed-panic", "panic-reenc", format!("to_vec of the decoded item panicked ({p})"))),
                        Ok(Ok(b2)) if b2 == bytes => {}
                        Ok(other) => fails.push((
                            "c03-typed-roundtrip",
                            "reencode",
                            format!("decoded item compares equal but re-encodes differently: {}", show(&other.map(|b| hex(&b)))),
                        )),
                    }
                }
                _ => fails.push(("c03-typed-roundtrip", "roundtrip", format!("from_slice gives {}", show(&res)))),
            }
            Some(res)
        }
    };

    // (2) size
    match guarded(|| x.size()) {
        Err(p) => fails.push(("c04-typed-panic", "panic-size", format!("serialized_size panicked ({p})"))),
        Ok(Ok(sz)) if sz == bytes.len() => {}
        Ok(other) => fails.push(("c20-typed-size", "size", format!("serialized_size = {:?}, to_vec length = {}", other, bytes.len()))),
    }

    // (3) value tree
    match guarded(|| x.to_val()) {
        Err(p) => fails.push(("c04-typed-panic", "panic-to_value", format!("to_value panicked ({p})"))),
        Ok(Err(e)) => fails.push(("c20-value-tree", "to_value", format!("to_value failed: {e}"))),
        Ok(Ok(v)) => {
            match guarded(|| T::from_val(v.clone())) {
                Err(p) => fails.push(("c04-typed-panic", "panic-from_value", format!("from_value panicked ({p}) on {:?}", v))),
                Ok(Ok(y)) if x.same(&y) => {}
                Ok(other) => fails.push((
                    "c20-value-tree",
                    "value-tree",
                    format!("to_value = {}, from_value gives {}", trunc(format!("{:?}", v)), show(&other)),
                )),
            }
            match guarded(|| serde_amqp::to_vec(&v)) {
                Err(p) => fails.push(("c04-typed-panic", "panic-value-to_vec", format!("to_vec(to_value) panicked ({p})"))),
                Ok(Ok(b2)) if b2 == bytes => {}
                Ok(other) => fails.push((
                    "c20-value-tree-bytes",
                    "value-tree-bytes",
                    format!(
                        "to_value = {}, to_vec(to_value) = {}",
                        trunc(format!("{:?}", v)),
                        show(&other.map(|b| hex(&b)).map_err(es))
                    ),
                )),
            }
        }
    }

    // (4) io reader, whole and in small chunks, must agree with the slice decoder
    if let Some(sl) = &sliced {
        for k in [usize::MAX, 1, 2, 3, 7] {
            let res = if k == usize::MAX {
                guarded(|| T::from_rd(std::io::Cursor::new(bytes.clone())))
            } else {
                guarded(|| T::from_rd(Chunked { b: &bytes, pos: 0, k }))
            };
            let how = if k == usize::MAX { "Cursor".to_string() } else { format!("{k} bytes per read") };
            match res {
                Err(p) => fails.push(("c04-typed-panic", "panic-from_reader", format!("from_reader ({how}) panicked ({p})"))),
                Ok(rd) => {
                    let agree = match (sl, &rd) {
                        (Ok(a), Ok(b)) => a.same(b),
                        (Err(_), Err(_)) => true,
                        _ => false,
                    };
                    if !agree {
                        fails.push((
                            "c20-io-reader",
                            "io-reader",
                            format!("from_reader ({how}) gives {} but from_slice gives {}", show(&rd), show(sl)),
                        ));
                    }
                }
            }
        }
    }

    if bytes.len() > 3 {
        out.nontrivial(&line);
    }
    if fails.is_empty() {
        out.case(&line, "ok");
    } else {
        let mut tags: Vec<&str> = fails.iter().map(|f| f.1).collect();
        tags.dedup();
        out.case(&line, &tags.join(","));
        let mut seen: Vec<(&str, &str)> = Vec::new();
        for (class, tag, what) in &fails {
            // one violation per (class, tag) and item: the four chunk sizes do not multiply the report
            if seen.contains(&(*class, *tag)) {
                continue;
            }
            seen.push((*class, *tag));
            // specific signatures of the recorded findings (anything else keeps the generic class)
            let full = format!("{:?}", x);
            let class: &str = if *class == "c03-typed-roundtrip" && *tag == "roundtrip" && name == "Message" && full.contains("body: Empty") {
                "c03-typed-roundtrip-message-body-empty"
            } else if *class == "c20-value-tree" && *tag == "value-tree" && what.contains("to_value = Described") && what.contains("InvalidValue") {
                "c20-value-tree-from-value-described"
            } else if *class == "c20-value-tree-bytes" && name == "Message" {
                "c20-value-tree-bytes-message-sections"
            } else if *class == "c20-value-tree" && *tag == "value-tree" && name == "Message" {
                "c20-value-tree-bytes-message-sections"
            } else {
                class
            };
            out.count(&format!("viol_{class}"));
            out.violation(class, &format!("{class}: {name} {dbg} -> {h}: {what}"), &line);
        }
    }
}

/* ------------------------------------------------------------------------------------- */
/* generators                                                                            */
/* ------------------------------------------------------------------------------------- */

fn opt<T>(r: &mut Rng, f: impl FnOnce(&mut Rng) -> T) -> Option<T> {
    if r.chance(1, 2) {
        Some(f(r))
    } else {
        None
    }
}

fn edge_u8(r: &mut Rng) -> u8 {
    match r.below(6) {
        0 => 0,
        1 => 1,
        2 => 4,
        3 => 127,
        4 => 255,
        _ => r.next() as u8,
    }
}
fn edge_u16(r: &mut Rng) -> u16 {
    match r.below(8) {
        0 => 0,
        1 => 1,
        2 => 255,
        3 => 256,
        4 => u16::MAX,
        5 => u16::MAX - 1,
        _ => r.next() as u16,
    }
}
fn edge_u32(r: &mut Rng) -> u32 {
    match r.below(11) {
        0 => 0,
        1 => 1,
        2 => 255,
        3 => 256,
        4 => 65535,
        5 => 65536,
        6 => u32::MAX,
        7 => u32::MAX - 1,
        8 => 0x8000_0000,
        _ => r.next() as u32,
    }
}
fn edge_u64(r: &mut Rng) -> u64 {
    match r.below(11) {
        0 => 0,
        1 => 1,
        2 => 255,
        3 => 256,
        4 => u32::MAX as u64,
        5 => u32::MAX as u64 + 1,
        6 => u64::MAX,
        7 => i64::MAX as u64,
        8 => i64::MAX as u64 + 1,
        _ => r.next(),
    }
}

/// strings: empty, short, non-ASCII (2, 3 and 4 byte UTF-8), and around the str8/str32 boundary
fn gen_str(r: &mut Rng) -> String {
    const ALPHA: [char; 12] = ['a', 'Z', '0', '-', ' ', '/', '\u{e9}', '\u{df}', '\u{20ac}', '\u{4e2d}', '\u{1f600}', '\u{10ffff}'];
    let n = match r.below(12) {
        0 => 0,
        1 => 1,
        2 => 255,
        3 => 256,
        _ => r.range(1, 14) as usize,
    };
    let ascii = r.chance(1, 2);
    let mut s = String::new();
    while s.len() < n {
        let c = if ascii { *r.pick(&ALPHA[..6]) } else { *r.pick(&ALPHA) };
        if s.len() + c.len_utf8() > n {
            s.push('x'); // land exactly on the boundary length
        } else {
            s.push(c);
        }
    }
    s
}

/// symbols are seven bit ASCII by the specification: only ASCII is generated
fn gen_sym(r: &mut Rng) -> Symbol {
    const WORDS: [&str; 10] = [
        "x-opt-key",
        "amqp:accepted:list",
        "ANONYMOUS",
        "PLAIN",
        "en-US",
        "a",
        "queue",
        "topic",
        "com.example:thing",
        "x-custom-capability",
    ];
    match r.below(12) {
        0 => Symbol::from(""),
        1 => Symbol::from("s".repeat(255)),
        2 => Symbol::from("t".repeat(256)),
        3 => Symbol::from(format!("sym-{}", r.below(1000))),
        _ => Symbol::from(*r.pick(&WORDS)),
    }
}

/// `multiple` fields (`#[amqp_contract(multiple)]`): the types crate documents (open.rs test
/// `zero_length_multiple_field_decodes_as_none`, and the spec, 1.4) that an empty array is an
/// absence of a value and decodes as `None`. So `Some(empty)` is not a value that is expected
/// to round trip: only `None` and non-empty arrays (1..3 symbols) are generated.
fn gen_multiple(r: &mut Rng) -> Option<Array<Symbol>> {
    opt(r, |r| {
        let n = r.range(1, 3);
        Array((0..n).map(|_| gen_sym(r)).collect())
    })
}

fn gen_bin(r: &mut Rng) -> ByteBuf {
    let n = match r.below(10) {
        0 => 0,
        1 => 1,
        2 => 255,
        3 => 256,
        _ => r.below(20) as usize,
    };
    ByteBuf::from(r.bytes(n))
}

/// delivery tags: 0..32 bytes
fn gen_tag(r: &mut Rng) -> ByteBuf {
    let n = match r.below(6) {
        0 => 0,
        1 => 1,
        2 => 32,
        _ => r.range(0, 32) as usize,
    };
    ByteBuf::from(r.bytes(n))
}

/// a value for maps and bodies: scalar when `deep == 0`, otherwise a tree of that depth
/// (arrays of null/compound/described elements, the known finding of the value codec, are excluded)
fn gen_val(r: &mut Rng, deep: u32) -> Value {
    if deep == 0 {
        let k = r.range(1, 21) as u32;
        gen_scalar_of_kind(r, k)
    } else {
        gen_value(r, deep, 0)
    }
}

/// `Fields`: 0..3 entries
fn gen_fields(r: &mut Rng, deep: u32) -> Fields {
    let mut m = OrderedMap::new();
    for _ in 0..r.below(4) {
        let k = gen_sym(r);
        let v = gen_val(r, deep);
        m.insert(k, v);
    }
    m
}

fn gen_annotations(r: &mut Rng, deep: u32) -> Annotations {
    let mut m = OrderedMap::new();
    for _ in 0..r.below(4) {
        let k = if r.chance(2, 3) { OwnedKey::Symbol(gen_sym(r)) } else { OwnedKey::Ulong(edge_u64(r)) };
        let v = gen_val(r, deep);
        m.insert(k, v);
    }
    m
}

fn gen_role(r: &mut Rng) -> Role {
    if r.chance(1, 2) {
        Role::Sender
    } else {
        Role::Receiver
    }
}
fn gen_snd_mode(r: &mut Rng) -> SenderSettleMode {
    match r.below(3) {
        0 => SenderSettleMode::Unsettled,
        1 => SenderSettleMode::Settled,
        _ => SenderSettleMode::Mixed,
    }
}
fn gen_rcv_mode(r: &mut Rng) -> ReceiverSettleMode {
    if r.chance(1, 2) {
        ReceiverSettleMode::First
    } else {
        ReceiverSettleMode::Second
    }
}

pub const AMQP_ERRORS: [AmqpError; 13] = [
    AmqpError::InternalError,
    AmqpError::NotFound,
    AmqpError::UnauthorizedAccess,
    AmqpError::DecodeError,
    AmqpError::ResourceLimitExceeded,
    AmqpError::NotAllowed,
    AmqpError::InvalidField,
    AmqpError::NotImplemented,
    AmqpError::ResourceLocked,
    AmqpError::PreconditionFailed,
    AmqpError::ResourceDeleted,
    AmqpError::IllegalState,
    AmqpError::FrameSizeTooSmall,
];
pub const CONN_ERRORS: [ConnectionError; 3] = [ConnectionError::ConnectionForced, ConnectionError::FramingError, ConnectionError::Redirect];
pub const SESSION_ERRORS: [SessionError; 4] =
    [SessionError::WindowViolation, SessionError::ErrantLink, SessionError::HandleInUse, SessionError::UnattachedHandle];
pub const LINK_ERRORS: [LinkError; 5] =
    [LinkError::DetachForced, LinkError::TransferLimitExceeded, LinkError::MessageSizeExceeded, LinkError::Redirect, LinkError::Stolen];
pub const TXN_ERRORS: [TransactionError; 3] = [TransactionError::UnknownId, TransactionError::Rollback, TransactionError::Timeout];

fn all_conditions() -> Vec<ErrorCondition> {
    let mut v = Vec::new();
    v.extend(AMQP_ERRORS.iter().cloned().map(ErrorCondition::AmqpError));
    v.extend(CONN_ERRORS.iter().cloned().map(ErrorCondition::ConnectionError));
    v.extend(SESSION_ERRORS.iter().cloned().map(ErrorCondition::SessionError));
    v.extend(LINK_ERRORS.iter().cloned().map(ErrorCondition::LinkError));
    v.extend(TXN_ERRORS.iter().cloned().map(ErrorCondition::TransactionError));
    // custom symbols (none of them collides with a standard condition symbol)
    for s in ["x-custom:error", "com.example:failure", "", "amqp:made-up", "amqp:connection:made-up"] {
        v.push(ErrorCondition::Custom(Symbol::from(s)));
    }
    v
}

fn gen_condition(r: &mut Rng) -> ErrorCondition {
    match r.below(6) {
        0 => ErrorCondition::AmqpError(r.pick(&AMQP_ERRORS).clone()),
        1 => ErrorCondition::ConnectionError(r.pick(&CONN_ERRORS).clone()),
        2 => ErrorCondition::SessionError(r.pick(&SESSION_ERRORS).clone()),
        3 => ErrorCondition::LinkError(r.pick(&LINK_ERRORS).clone()),
        4 => ErrorCondition::TransactionError(r.pick(&TXN_ERRORS).clone()),
        _ => ErrorCondition::Custom(Symbol::from(*r.pick(&["x-custom:error", "com.example:failure", "", "amqp:made-up", "X"]))),
    }
}

pub fn gen_error(r: &mut Rng, deep: u32) -> definitions::Error {
    definitions::Error {
        condition: gen_condition(r),
        description: opt(r, gen_str),
        info: opt(r, |r| Box::new(gen_fields(r, deep))),
    }
}

pub fn gen_modified(r: &mut Rng, deep: u32) -> Modified {
    Modified {
        delivery_failed: opt(r, |r| r.chance(1, 2)),
        undeliverable_here: opt(r, |r| r.chance(1, 2)),
        message_annotations: opt(r, |r| gen_fields(r, deep)),
    }
}

pub fn gen_outcome(r: &mut Rng, deep: u32) -> Outcome {
    match r.below(5) {
        0 => Outcome::Accepted(Accepted {}),
        1 => Outcome::Rejected(Rejected { error: opt(r, |r| gen_error(r, deep)) }),
        2 => Outcome::Released(Released {}),
        3 => Outcome::Modified(gen_modified(r, deep)),
        _ => Outcome::Declared(Declared { txn_id: gen_bin(r) }),
    }
}

pub fn gen_delivery_state(r: &mut Rng, deep: u32) -> DeliveryState {
    match r.below(7) {
        0 => DeliveryState::Received(Received { section_number: edge_u32(r), section_offset: edge_u64(r) }),
        1 => DeliveryState::Accepted(Accepted {}),
        2 => DeliveryState::Rejected(Rejected { error: opt(r, |r| gen_error(r, deep)) }),
        3 => DeliveryState::Released(Released {}),
        4 => DeliveryState::Modified(gen_modified(r, deep)),
        5 => DeliveryState::Declared(Declared { txn_id: gen_bin(r) }),
        // with feature "transaction" the transactional state is a DeliveryState variant
        _ => DeliveryState::TransactionalState(TransactionalState { txn_id: gen_bin(r), outcome: opt(r, |r| gen_outcome(r, deep)) }),
    }
}

fn gen_durability(r: &mut Rng) -> TerminusDurability {
    match r.below(3) {
        0 => TerminusDurability::None,
        1 => TerminusDurability::Configuration,
        _ => TerminusDurability::UnsettledState,
    }
}
fn gen_expiry(r: &mut Rng) -> TerminusExpiryPolicy {
    match r.below(4) {
        0 => TerminusExpiryPolicy::LinkDetach,
        1 => TerminusExpiryPolicy::SessionEnd,
        2 => TerminusExpiryPolicy::ConnectionClose,
        _ => TerminusExpiryPolicy::Never,
    }
}

/// filter sets: legacy plain values and the described form
fn gen_filter(r: &mut Rng, deep: u32) -> OrderedMap<Symbol, Value> {
    let mut m = OrderedMap::new();
    for _ in 0..r.below(4) {
        let k = gen_sym(r);
        let v = if r.chance(1, 2) {
            let descriptor = if r.chance(1, 2) {
                Descriptor::Code(edge_u64(r))
            } else {
                Descriptor::Name(Symbol::from("apache.org:selector-filter:string"))
            };
            Value::Described(Box::new(Described { descriptor, value: gen_val(r, deep) }))
        } else {
            gen_val(r, deep)
        };
        m.insert(k, v);
    }
    m
}

pub fn gen_source(r: &mut Rng, deep: u32) -> Source {
    Source {
        address: opt(r, gen_str),
        durable: gen_durability(r),
        expiry_policy: gen_expiry(r),
        timeout: edge_u32(r),
        dynamic: r.chance(1, 2),
        dynamic_node_properties: opt(r, |r| gen_fields(r, deep)),
        distribution_mode: opt(r, |r| if r.chance(1, 2) { DistributionMode::Move } else { DistributionMode::Copy }),
        filter: opt(r, |r| gen_filter(r, deep)),
        default_outcome: opt(r, |r| gen_outcome(r, deep)),
        outcomes: opt(r, |r| {
            let all = ["amqp:accepted:list", "amqp:rejected:list", "amqp:released:list", "amqp:modified:list"];
            let n = r.range(1, 4) as usize;
            Array(all[..n].iter().map(|s| Symbol::from(*s)).collect())
        }),
        capabilities: gen_multiple(r),
    }
}

pub fn gen_target(r: &mut Rng, deep: u32) -> Target {
    Target {
        address: opt(r, gen_str),
        durable: gen_durability(r),
        expiry_policy: gen_expiry(r),
        timeout: edge_u32(r),
        dynamic: r.chance(1, 2),
        dynamic_node_properties: opt(r, |r| gen_fields(r, deep)),
        capabilities: gen_multiple(r),
    }
}

const TXN_CAPS: [TxnCapability; 5] = [
    TxnCapability::LocalTransactions,
    TxnCapability::DistributedTransactions,
    TxnCapability::PromotableTransactions,
    TxnCapability::MultiTxnsPerSsn,
    TxnCapability::MultiSsnsPerTxn,
];

/// `capabilities` is a `multiple` field: `None` or a non-empty array (see `gen_multiple`)
pub fn gen_coordinator(r: &mut Rng) -> Coordinator {
    Coordinator {
        capabilities: opt(r, |r| {
            let n = r.range(1, 5);
            Array((0..n).map(|_| r.pick(&TXN_CAPS).clone()).collect())
        }),
    }
}

fn gen_target_archetype(r: &mut Rng, deep: u32) -> TargetArchetype {
    if r.chance(2, 3) {
        TargetArchetype::Target(gen_target(r, deep))
    } else {
        TargetArchetype::Coordinator(gen_coordinator(r))
    }
}

pub fn gen_open(r: &mut Rng, deep: u32) -> Open {
    Open {
        container_id: gen_str(r),
        hostname: opt(r, gen_str),
        max_frame_size: MaxFrameSize(edge_u32(r)),
        channel_max: ChannelMax(edge_u16(r)),
        idle_time_out: opt(r, edge_u32),
        outgoing_locales: gen_multiple(r),
        incoming_locales: gen_multiple(r),
        offered_capabilities: gen_multiple(r),
        desired_capabilities: gen_multiple(r),
        properties: opt(r, |r| gen_fields(r, deep)),
    }
}

pub fn gen_begin(r: &mut Rng, deep: u32) -> Begin {
    Begin {
        remote_channel: opt(r, edge_u16),
        next_outgoing_id: edge_u32(r),
        incoming_window: edge_u32(r),
        outgoing_window: edge_u32(r),
        handle_max: Handle(edge_u32(r)),
        offered_capabilities: gen_multiple(r),
        desired_capabilities: gen_multiple(r),
        properties: opt(r, |r| gen_fields(r, deep)),
    }
}

pub fn gen_attach(r: &mut Rng, deep: u32) -> Attach {
    Attach {
        name: gen_str(r),
        handle: Handle(edge_u32(r)),
        role: gen_role(r),
        snd_settle_mode: gen_snd_mode(r),
        rcv_settle_mode: gen_rcv_mode(r),
        source: opt(r, |r| Box::new(gen_source(r, deep))),
        target: opt(r, |r| Box::new(gen_target_archetype(r, deep))),
        unsettled: opt(r, |r| {
            let mut m = OrderedMap::new();
            for _ in 0..r.below(4) {
                let k = gen_tag(r);
                let v = opt(r, |r| gen_delivery_state(r, deep));
                m.insert(k, v);
            }
            m
        }),
        incomplete_unsettled: r.chance(1, 2),
        initial_delivery_count: opt(r, edge_u32),
        max_message_size: opt(r, edge_u64),
        offered_capabilities: gen_multiple(r),
        desired_capabilities: gen_multiple(r),
        properties: opt(r, |r| gen_fields(r, deep)),
    }
}

pub fn gen_flow(r: &mut Rng, deep: u32) -> Flow {
    Flow {
        next_incoming_id: opt(r, edge_u32),
        incoming_window: edge_u32(r),
        next_outgoing_id: edge_u32(r),
        outgoing_window: edge_u32(r),
        handle: opt(r, |r| Handle(edge_u32(r))),
        delivery_count: opt(r, edge_u32),
        link_credit: opt(r, edge_u32),
        available: opt(r, edge_u32),
        drain: r.chance(1, 2),
        echo: r.chance(1, 2),
        properties: opt(r, |r| gen_fields(r, deep)),
    }
}

pub fn gen_transfer(r: &mut Rng, deep: u32) -> Transfer {
    Transfer {
        handle: Handle(edge_u32(r)),
        delivery_id: opt(r, edge_u32),
        delivery_tag: opt(r, gen_tag),
        message_format: opt(r, edge_u32),
        settled: opt(r, |r| r.chance(1, 2)),
        more: r.chance(1, 2),
        rcv_settle_mode: opt(r, gen_rcv_mode),
        state: opt(r, |r| gen_delivery_state(r, deep)),
        resume: r.chance(1, 2),
        aborted: r.chance(1, 2),
        batchable: r.chance(1, 2),
    }
}

pub fn gen_disposition(r: &mut Rng, deep: u32) -> Disposition {
    Disposition {
        role: gen_role(r),
        first: edge_u32(r),
        last: opt(r, edge_u32),
        settled: r.chance(1, 2),
        state: opt(r, |r| gen_delivery_state(r, deep)),
        batchable: r.chance(1, 2),
    }
}

pub fn gen_detach(r: &mut Rng, deep: u32) -> Detach {
    Detach { handle: Handle(edge_u32(r)), closed: r.chance(1, 2), error: opt(r, |r| gen_error(r, deep)) }
}
pub fn gen_end(r: &mut Rng, deep: u32) -> End {
    End { error: opt(r, |r| gen_error(r, deep)) }
}
pub fn gen_close(r: &mut Rng, deep: u32) -> Close {
    Close { error: opt(r, |r| gen_error(r, deep)) }
}

pub fn gen_performative(r: &mut Rng, deep: u32) -> Performative {
    match r.below(9) {
        0 => Performative::Open(gen_open(r, deep)),
        1 => Performative::Begin(gen_begin(r, deep)),
        2 => Performative::Attach(gen_attach(r, deep)),
        3 => Performative::Flow(gen_flow(r, deep)),
        4 => Performative::Transfer(gen_transfer(r, deep)),
        5 => Performative::Disposition(gen_disposition(r, deep)),
        6 => Performative::Detach(gen_detach(r, deep)),
        7 => Performative::End(gen_end(r, deep)),
        _ => Performative::Close(gen_close(r, deep)),
    }
}

/* SASL */

/// `sasl-server-mechanisms` is mandatory and multiple: at least one symbol
pub fn gen_sasl_mechanisms(r: &mut Rng) -> SaslMechanisms {
    let n = r.range(1, 4);
    SaslMechanisms {
        sasl_server_mechanisms: Array(
            (0..n).map(|_| Symbol::from(*r.pick(&["ANONYMOUS", "PLAIN", "SCRAM-SHA-1", "SCRAM-SHA-256", "SCRAM-SHA-512", "EXTERNAL", "X"]))).collect(),
        ),
    }
}
pub fn gen_sasl_init(r: &mut Rng) -> SaslInit {
    SaslInit {
        mechanism: Symbol::from(*r.pick(&["ANONYMOUS", "PLAIN", "SCRAM-SHA-256", ""])),
        initial_response: opt(r, gen_bin),
        hostname: opt(r, gen_str),
    }
}
const SASL_CODES: [SaslCode; 5] = [SaslCode::Ok, SaslCode::Auth, SaslCode::Sys, SaslCode::SysPerm, SaslCode::SysTemp];
pub fn gen_sasl_outcome(r: &mut Rng) -> SaslOutcome {
    SaslOutcome { code: r.pick(&SASL_CODES).clone(), additional_data: opt(r, gen_bin) }
}

/* message sections */

pub fn gen_header(r: &mut Rng) -> Header {
    Header {
        durable: r.chance(1, 2),
        priority: Priority(edge_u8(r)),
        ttl: opt(r, edge_u32),
        first_acquirer: r.chance(1, 2),
        delivery_count: edge_u32(r),
    }
}

fn gen_message_id(r: &mut Rng) -> MessageId {
    match r.below(4) {
        0 => MessageId::Ulong(edge_u64(r)),
        1 => MessageId::Uuid(Uuid::from(<[u8; 16]>::try_from(r.bytes(16)).unwrap())),
        2 => MessageId::Binary(gen_bin(r)),
        _ => MessageId::String(gen_str(r)),
    }
}

fn gen_timestamp(r: &mut Rng) -> Timestamp {
    let ms = match r.below(7) {
        0 => 0,
        1 => 1,
        2 => -1,
        3 => i64::MAX,
        4 => i64::MIN,
        5 => 1_700_000_000_000,
        _ => r.next() as i64,
    };
    Timestamp::from_milliseconds(ms)
}

pub fn gen_properties(r: &mut Rng) -> Properties {
    Properties {
        message_id: opt(r, gen_message_id),
        user_id: opt(r, gen_bin),
        to: opt(r, gen_str),
        subject: opt(r, gen_str),
        reply_to: opt(r, gen_str),
        correlation_id: opt(r, gen_message_id),
        content_type: opt(r, gen_sym),
        content_encoding: opt(r, gen_sym),
        absolute_expiry_time: opt(r, gen_timestamp),
        creation_time: opt(r, gen_timestamp),
        group_id: opt(r, gen_str),
        group_sequence: opt(r, edge_u32),
        reply_to_group_id: opt(r, gen_str),
    }
}

/// application properties: string keys (non-ASCII included), simple (scalar) values
pub fn gen_application_properties(r: &mut Rng) -> ApplicationProperties {
    let mut m = OrderedMap::new();
    for _ in 0..r.below(4) {
        let k = gen_str(r);
        let kind = r.range(1, 21) as u32;
        let v = SimpleValue::try_from(gen_scalar_of_kind(r, kind)).expect("scalar values are simple values");
        m.insert(k, v);
    }
    ApplicationProperties(m)
}

pub fn gen_body(r: &mut Rng, kind: u64, deep: u32) -> Body<Value> {
    match kind {
        0 => Body::Value(AmqpValue(gen_val(r, deep))),
        1 => {
            let n = r.range(1, 3);
            Body::Data(Batch::new((0..n).map(|_| Data(gen_bin(r))).collect::<Vec<_>>()))
        }
        2 => {
            let n = r.range(1, 3);
            Body::Sequence(Batch::new(
                (0..n)
                    .map(|_| {
                        let k = r.below(4);
                        AmqpSequence((0..k).map(|_| gen_val(r, deep)).collect())
                    })
                    .collect::<Vec<_>>(),
            ))
        }
        _ => Body::Empty,
    }
}

/// `sections`: bit 0 header, 1 delivery annotations, 2 message annotations, 3 properties,
/// 4 application properties, 5 footer; `body_kind`: 0 value, 1 data, 2 sequence, 3 empty
pub fn gen_message_with(r: &mut Rng, sections: u32, body_kind: u64, deep: u32) -> Msg {
    Message {
        header: if sections & 1 != 0 { Some(gen_header(r)) } else { None },
        delivery_annotations: if sections & 2 != 0 { Some(DeliveryAnnotations(gen_annotations(r, deep))) } else { None },
        message_annotations: if sections & 4 != 0 { Some(MessageAnnotations(gen_annotations(r, deep))) } else { None },
        properties: if sections & 8 != 0 { Some(gen_properties(r)) } else { None },
        application_properties: if sections & 16 != 0 { Some(gen_application_properties(r)) } else { None },
        body: gen_body(r, body_kind, deep),
        footer: if sections & 32 != 0 { Some(Footer(gen_annotations(r, deep))) } else { None },
    }
}

/// a random complete message: random subset of sections, random body kind, values of depth <= 2
pub fn gen_message(r: &mut Rng) -> Msg {
    let sections = r.below(64) as u32;
    let kind = r.below(4);
    let deep = r.below(3) as u32;
    gen_message_with(r, sections, kind, deep)
}

/* ------------------------------------------------------------------------------------- */
/* driver                                                                                */
/* ------------------------------------------------------------------------------------- */

const N_TYPES: u64 = 29;

fn one(r: &mut Rng, which: u64, deep: u32, out: &mut Outputs) {
    match which {
        0 => check_item("Open", &gen_open(r, deep), out),
        1 => check_item("Begin", &gen_begin(r, deep), out),
        2 => check_item("Attach", &gen_attach(r, deep), out),
        3 => check_item("Flow", &gen_flow(r, deep), out),
        4 => check_item("Transfer", &gen_transfer(r, deep), out),
        5 => check_item("Disposition", &gen_disposition(r, deep), out),
        6 => check_item("Detach", &gen_detach(r, deep), out),
        7 => check_item("End", &gen_end(r, deep), out),
        8 => check_item("Close", &gen_close(r, deep), out),
        9 => check_item("Performative", &gen_performative(r, deep), out),
        10 => check_item("SaslMechanisms", &gen_sasl_mechanisms(r), out),
        11 => check_item("SaslInit", &gen_sasl_init(r), out),
        12 => check_item("SaslChallenge", &SaslChallenge { challenge: gen_bin(r) }, out),
        13 => check_item("SaslResponse", &SaslResponse { response: gen_bin(r) }, out),
        14 => check_item("SaslOutcome", &gen_sasl_outcome(r), out),
        15 => check_item("DeliveryState", &gen_delivery_state(r, deep), out),
        16 => check_item("Outcome", &gen_outcome(r, deep), out),
        17 => check_item("Error", &gen_error(r, deep), out),
        18 => check_item("Source", &gen_source(r, deep), out),
        19 => check_item("Target", &gen_target(r, deep), out),
        20 => check_item("TargetArchetype", &gen_target_archetype(r, deep), out),
        21 => check_item("Coordinator", &gen_coordinator(r), out),
        22 => check_item("Header", &gen_header(r), out),
        23 => check_item("DeliveryAnnotations", &DeliveryAnnotations(gen_annotations(r, deep)), out),
        24 => check_item("MessageAnnotations", &MessageAnnotations(gen_annotations(r, deep)), out),
        25 => check_item("Properties", &gen_properties(r), out),
        26 => check_item("ApplicationProperties", &gen_application_properties(r), out),
        27 => check_item("Footer", &Footer(gen_annotations(r, deep)), out),
        _ => {
            let sections = r.below(64) as u32;
            let kind = r.below(4);
            let m = gen_message_with(r, sections, kind, deep);
            out.count(&format!("msg_body_kind_{kind}"));
            check_item("Message", &m, out)
        }
    }
}

/// exhaustive part: every enum variant / flag combination / section subset that is small enough
fn systematic(r: &mut Rng, deep: u32, out: &mut Outputs) {
    // every SASL code, with and without additional data
    for c in SASL_CODES.iter() {
        for d in [None, Some(ByteBuf::new()), Some(ByteBuf::from(vec![0u8, 1, 0xff]))] {
            check_item("SaslOutcome", &SaslOutcome { code: c.clone(), additional_data: d }, out);
        }
    }
    // every error condition, bare and with description + info
    for c in all_conditions() {
        check_item("Error", &definitions::Error { condition: c.clone(), description: None, info: None }, out);
        let e = definitions::Error { condition: c, description: Some(gen_str(r)), info: Some(Box::new(gen_fields(r, deep))) };
        check_item("Close", &Close { error: Some(e) }, out);
    }
    // Modified: all flag combinations x annotations absent / empty / non-empty, as delivery state and outcome
    let flags = [None, Some(false), Some(true)];
    for df in flags {
        for uh in flags {
            for ann in 0..3 {
                let message_annotations = match ann {
                    0 => None,
                    1 => Some(OrderedMap::new()),
                    _ => {
                        let mut m = OrderedMap::new();
                        m.insert(Symbol::from("x-opt-k"), gen_val(r, deep));
                        Some(m)
                    }
                };
                let m = Modified { delivery_failed: df, undeliverable_here: uh, message_annotations };
                check_item("DeliveryState", &DeliveryState::Modified(m.clone()), out);
                check_item("Outcome", &Outcome::Modified(m), out);
            }
        }
    }
    // the other delivery states / outcomes
    let with_err = Rejected { error: Some(gen_error(r, deep)) };
    let no_err = Rejected { error: None };
    for s in [
        DeliveryState::Accepted(Accepted {}),
        DeliveryState::Released(Released {}),
        DeliveryState::Rejected(no_err.clone()),
        DeliveryState::Rejected(with_err.clone()),
        DeliveryState::Received(Received { section_number: 0, section_offset: 0 }),
        DeliveryState::Received(Received { section_number: u32::MAX, section_offset: u64::MAX }),
        DeliveryState::Declared(Declared { txn_id: ByteBuf::from(vec![1u8, 2, 3]) }),
        DeliveryState::TransactionalState(TransactionalState { txn_id: ByteBuf::from(vec![1u8]), outcome: None }),
        DeliveryState::TransactionalState(TransactionalState { txn_id: ByteBuf::new(), outcome: Some(Outcome::Accepted(Accepted {})) }),
        DeliveryState::TransactionalState(TransactionalState { txn_id: ByteBuf::from(vec![9u8; 32]), outcome: Some(Outcome::Rejected(with_err.clone())) }),
    ] {
        check_item("DeliveryState", &s, out);
        // and inside a disposition and a transfer
        check_item(
            "Disposition",
            &Disposition { role: Role::Receiver, first: 0, last: None, settled: true, state: Some(s.clone()), batchable: false },
            out,
        );
        let mut t = gen_transfer(r, deep);
        t.state = Some(s);
        check_item("Transfer", &t, out);
    }
    for o in [
        Outcome::Accepted(Accepted {}),
        Outcome::Released(Released {}),
        Outcome::Rejected(no_err),
        Outcome::Rejected(with_err),
        Outcome::Declared(Declared { txn_id: ByteBuf::new() }),
    ] {
        check_item("Outcome", &o, out);
        let mut s = gen_source(r, deep);
        s.default_outcome = Some(o);
        check_item("Source", &s, out);
    }
    // every subset of the six optional sections x every body kind
    for sections in 0..64u32 {
        for kind in 0..4u64 {
            let m = gen_message_with(r, sections, kind, deep);
            out.count(&format!("msg_body_kind_{kind}"));
            check_item("Message", &m, out);
        }
    }
    // all-absent / all-default items
    check_item("Source", &Source::default(), out);
    check_item("Target", &Target::default(), out);
    check_item("Coordinator", &Coordinator { capabilities: None }, out);
    check_item("Header", &Header::default(), out);
    check_item("Properties", &Properties::default(), out);
    check_item("End", &End { error: None }, out);
    check_item("Close", &Close { error: None }, out);
}

pub fn run(seed: u64, n: u64, thorough: bool, _corpus: &[String], dir: &str) {
    // corpus lines `typed ...` carry only the encoded bytes of an item that is regenerated from
    // the seed anyway: they are ignored
    crate::codec::quiet_panics();
    let mut out = Outputs::new(dir);
    let mut r = Rng::new(seed);
    // thorough: four times the items per type, and value trees (depth up to 4) instead of
    // mostly scalars inside maps, annotations and bodies
    let total = if thorough { n * 4 } else { n };
    let base_deep = if thorough { 2 } else { 0 };
    systematic(&mut r, base_deep, &mut out);
    for i in 0..total {
        let deep = if thorough {
            r.range(0, 4) as u32
        } else if r.chance(1, 4) {
            r.range(1, 2) as u32
        } else {
            0
        };
        one(&mut r, i % N_TYPES, deep, &mut out);
    }
    out.finish(dir);
}
