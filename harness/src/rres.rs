//! `rres` sub-harness (C09, direct oracle): a receiving link that is detached and resumed.  The sender's attach of the
//! resumed link names an initial-delivery-count; that is the sender's delivery-count as last learnt, so the first flow
//! the receiver writes after the resume must report exactly it, and a sender that keeps to that flow's limit
//! (delivery-count + link-credit) is never refused.
//! Case line: `rres idc0=<n> k=<deliveries before the detach> credit=<n> idc1=<n>`
//! Oracle: c09-resume-stale-count (the flow after the resume reports another delivery-count), c09-resume-refused (a delivery
//! within the limit of that flow is refused or not delivered).
use crate::c12::{peer_begin, peer_open};
use crate::eng::*;
use crate::out::*;
use crate::rng::Rng;
use fe2o3_amqp::link::receiver::CreditMode;
use fe2o3_amqp::link::receiver::ResumingReceiver;
use fe2o3_amqp::{Connection, Receiver, Session};
use fe2o3_amqp_types::definitions::{ReceiverSettleMode, Role, SenderSettleMode};
use fe2o3_amqp_types::messaging::{Source, Target};
use fe2o3_amqp_types::performatives::{Attach, Detach, Performative, Transfer};
use std::time::Duration;

fn peer_attach(idc: u32) -> Performative {
    Performative::Attach(Attach {
        name: "r".into(),
        handle: 0.into(),
        role: Role::Sender,
        snd_settle_mode: SenderSettleMode::Mixed,
        rcv_settle_mode: ReceiverSettleMode::First,
        source: Some(Box::new(Source::builder().address("q").build())),
        target: Some(Box::new(Target::builder().address("q").build().into())),
        unsettled: None,
        incomplete_unsettled: false,
        initial_delivery_count: Some(idc),
        max_message_size: None,
        offered_capabilities: None,
        desired_capabilities: None,
        properties: None,
    })
}

fn transfer(id: u32) -> Vec<u8> {
    let t = Transfer {
        handle: 0.into(),
        delivery_id: Some(id),
        delivery_tag: Some(id.to_be_bytes().to_vec().into()),
        message_format: Some(0),
        settled: Some(true),
        more: false,
        rcv_settle_mode: None,
        state: None,
        resume: false,
        aborted: false,
        batchable: false,
    };
    // body: amqp-value string "m"
    frame_bytes(0, &Performative::Transfer(t), &[0x00, 0x53, 0x77, 0xa1, 0x01, 0x6d])
}

/// the delivery-count / link-credit of the link flows among these frames
fn link_flows(ws: &[Wire]) -> Vec<(Option<u32>, Option<u32>)> {
    ws.iter()
        .filter_map(|w| match w {
            Wire::Frame { perf: Performative::Flow(f), .. } if f.handle.is_some() => Some((f.delivery_count, f.link_credit)),
            _ => None,
        })
        .collect()
}

pub fn run_case(idc0: u32, k: u32, credit: u32, idc1: u32) -> String {
    paused_rt().block_on(async move {
        let (a, b) = tokio::io::duplex(1 << 20);
        let mut peer = Peer::new(b);
        macro_rules! drive {
            ($fut:expr, $on:expr) => {{
                let fut = $fut;
                tokio::pin!(fut);
                let mut done = None;
                for _ in 0..80 {
                    tokio::select! {
                        biased;
                        r = &mut fut => { done = Some(r); break; }
                        _ = barrier() => {}
                    }
                    let ws = peer.drain().await;
                    #[allow(clippy::redundant_closure_call)]
                    for w in &ws {
                        if let Some(bytes) = ($on)(w) {
                            peer.write(&bytes).await;
                        }
                    }
                }
                done
            }};
        }
        let basic = |w: &Wire| -> Option<Vec<u8>> {
            match w {
                Wire::Header(_) => Some(AMQP_HEADER.to_vec()),
                Wire::Frame { perf: Performative::Open(_), .. } => Some(frame_bytes(0, &peer_open(None, 10, 65536), &[])),
                Wire::Frame { perf: Performative::Begin(_), .. } => Some(frame_bytes(0, &peer_begin(Some(0)), &[])),
                _ => None,
            }
        };
        let mut conn = match drive!(Connection::builder().container_id("c").open_with_stream(a), basic) {
            Some(Ok(c)) => c,
            _ => return "PRELUDE-FAILED open".to_string(),
        };
        let mut sess = match drive!(Session::begin(&mut conn), basic) {
            Some(Ok(s)) => s,
            _ => return "PRELUDE-FAILED begin".to_string(),
        };
        let att0 = move |w: &Wire| -> Option<Vec<u8>> {
            match w {
                Wire::Frame { perf: Performative::Attach(_), .. } => Some(frame_bytes(0, &peer_attach(idc0), &[])),
                _ => None,
            }
        };
        let fut = Receiver::builder().name("r").source(Source::builder().address("q").build()).credit_mode(CreditMode::Manual).attach(&mut sess);
        let mut rcv: Receiver = match drive!(fut, att0) {
            Some(Ok(r)) => r,
            _ => return "PRELUDE-FAILED attach".to_string(),
        };
        let none = |_w: &Wire| -> Option<Vec<u8>> { None };
        if drive!(rcv.set_credit(credit), none).is_none() {
            return "PRELUDE-FAILED credit".to_string();
        }
        // k deliveries on the first attachment, each received and accepted
        let mut next_id = 0u32;
        let mut got = 0u32;
        for _ in 0..k.min(credit) {
            peer.write(&transfer(next_id)).await;
            next_id += 1;
            match drive!(rcv.recv::<String>(), none) {
                Some(Ok(d)) => {
                    got += 1;
                    let _ = drive!(rcv.accept(&d), none);
                }
                _ => break,
            }
        }
        // detach, answered by the peer
        let det = |w: &Wire| -> Option<Vec<u8>> {
            match w {
                Wire::Frame { perf: Performative::Detach(d), .. } => Some(frame_bytes(0, &Performative::Detach(Detach { handle: 0.into(), closed: d.closed, error: None }), &[])),
                _ => None,
            }
        };
        let detached = match drive!(rcv.detach(), det) {
            Some(Ok(d)) => d,
            Some(Err((d, _))) => d,
            None => return format!("first={} detach=PENDING", got),
        };
        // resume: the peer's attach names idc1; collect the link flows the receiver writes from now on
        let mut flows: Vec<(Option<u32>, Option<u32>)> = Vec::new();
        let resumed = {
            let fut = detached.resume();
            tokio::pin!(fut);
            let mut done = None;
            for _ in 0..80 {
                tokio::select! {
                    biased;
                    r = &mut fut => { done = Some(r); break; }
                    _ = barrier() => {}
                }
                let ws = peer.drain().await;
                flows.extend(link_flows(&ws));
                for w in &ws {
                    if let Wire::Frame { perf: Performative::Attach(_), .. } = w {
                        peer.write(&frame_bytes(0, &peer_attach(idc1), &[])).await;
                    }
                }
            }
            done
        };
        let mut rcv = match resumed {
            Some(Ok(ResumingReceiver::Complete(r))) => r,
            Some(Ok(_)) => return format!("first={} resume=incomplete", got),
            Some(Err(e)) => return format!("first={} resume=err({})", got, &format!("{:?}", e)[..30.min(format!("{:?}", e).len())]),
            None => return format!("first={} resume=PENDING", got),
        };
        for _ in 0..4 {
            barrier().await;
            flows.extend(link_flows(&peer.drain().await));
        }
        if flows.is_empty() {
            // nothing re-issued by itself: ask for the state
            let _ = drive!(rcv.set_credit(credit), none);
            for _ in 0..4 {
                barrier().await;
                flows.extend(link_flows(&peer.drain().await));
            }
        }
        let (fdc, fcr) = match flows.first() {
            Some((Some(dc), Some(cr))) => (*dc, *cr),
            _ => return format!("first={} resumed flows={:?}", got, flows),
        };
        // a sender that keeps to the limit of that flow: its own delivery-count is idc1
        let allowed = fdc.wrapping_add(fcr).wrapping_sub(idc1).min(20);
        let mut got2 = 0u32;
        let mut err = String::new();
        for _ in 0..allowed {
            peer.write(&transfer(next_id)).await;
            next_id += 1;
            match drive!(tokio::time::timeout(Duration::from_secs(5), rcv.recv::<String>()), none) {
                Some(Ok(Ok(d))) => {
                    got2 += 1;
                    let _ = drive!(rcv.accept(&d), none);
                }
                Some(Ok(Err(e))) => {
                    err = format!("{:?}", e);
                    err.truncate(40);
                    break;
                }
                _ => {
                    err = "PENDING".into();
                    break;
                }
            }
        }
        format!("first={} resumed flow=({},{}) allowed={} second={} err={}", got, fdc, fcr, allowed, got2, if err.is_empty() { "-" } else { &err })
    })
}

pub fn oracle(idc1: u32, trace: &str) -> Vec<(String, String)> {
    let mut v = Vec::new();
    if let Some(f) = trace.split("flow=(").nth(1) {
        let dc: Option<u32> = f.split(',').next().and_then(|x| x.parse().ok());
        if dc != Some(idc1) {
            v.push((
                "c09-resume-stale-count".to_string(),
                format!("the sender's attach of the resumed link said initial-delivery-count {}; the receiver's next flow reports delivery-count {:?}: {}", idc1, dc, trace),
            ));
        }
        let allowed: u32 = trace.split("allowed=").nth(1).and_then(|x| x.split_whitespace().next()).and_then(|x| x.parse().ok()).unwrap_or(0);
        let second: u32 = trace.split("second=").nth(1).and_then(|x| x.split_whitespace().next()).and_then(|x| x.parse().ok()).unwrap_or(0);
        if second < allowed && dc == Some(idc1) {
            v.push(("c09-resume-refused".to_string(), format!("{} deliveries were within the limit of the flow after the resume, {} were delivered: {}", allowed, second, trace)));
        }
    }
    v
}

pub fn run(seed: u64, n: u64, _thorough: bool, _corpus: &[String], dir: &str) {
    crate::codec::quiet_panics();
    let mut out = Outputs::new(dir);
    let mut r = Rng::new(seed ^ 0x72726573);
    let mut cases: Vec<(u32, u32, u32, u32)> = vec![(0, 3, 10, 0), (0, 3, 10, 3), (5, 2, 4, 5), (5, 2, 4, 7), (u32::MAX - 1, 3, 5, u32::MAX - 1), (0, 0, 3, 0), (7, 4, 4, 0)];
    for _ in 0..n {
        let idc0 = *r.pick(&[0u32, 1, 100, u32::MAX - 2]);
        let k = r.below(5) as u32;
        let credit = 1 + r.below(8) as u32;
        let idc1 = match r.below(3) {
            0 => idc0,
            1 => idc0.wrapping_add(k.min(credit)),
            _ => r.below(50) as u32,
        };
        cases.push((idc0, k, credit, idc1));
    }
    for (idc0, k, credit, idc1) in cases {
        let line = format!("rres idc0={} k={} credit={} idc1={}", idc0, k, credit, idc1);
        let t = run_case(idc0, k, credit, idc1);
        if t.contains("resumed flow=") {
            out.nontrivial(&line);
        } else {
            out.count("no flow after the resume");
        }
        for (c, w) in oracle(idc1, &t) {
            out.violation(&c, &w, &line);
        }
        out.case(&line, &t);
    }
    out.finish(dir);
}
