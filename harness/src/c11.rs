//! C11 (and the channel-max half of C17): handle / name / channel bookkeeping through the facade.
use crate::out::*;
use crate::rng::Rng;
use fe2o3_amqp::verif::{VConnection, VSession};
use std::collections::{HashMap, HashSet};

fn lnk_case(r: &mut Rng, max_len: u64) -> String {
    // The generator simulates the slab (LIFO free list) so that it can keep the history
    // protocol-conformant where the property needs it: a local detach is followed by the
    // peer's detach for the input handles of that link before the handle can be reused.
    let n = r.range(1, max_len);
    let mut ops: Vec<String> = Vec::new();
    let mut free: Vec<u32> = Vec::new();
    let mut len = 0u32;
    let mut live: HashMap<u32, u64> = HashMap::new(); // handle -> name
    let mut pending: Vec<u64> = Vec::new(); // names allocated, remote attach not yet seen
    let mut by_in: HashMap<u32, u32> = HashMap::new(); // ih -> handle
    for _ in 0..n {
        let ih = *r.pick(&[0u32, 1, 2, 7, 1000, u32::MAX]);
        match r.below(10) {
            0..=3 => {
                let name = r.below(6);
                ops.push(format!("A {}", name));
                if !live.values().any(|x| *x == name) {
                    let h = free.pop().unwrap_or_else(|| {
                        len += 1;
                        len - 1
                    });
                    live.insert(h, name);
                    pending.push(name);
                }
            }
            4..=5 => {
                let name = if !pending.is_empty() && r.chance(3, 4) { *r.pick(&pending) } else { r.below(6) };
                ops.push(format!("I {} {}", name, ih));
                if let Some(pos) = pending.iter().position(|x| *x == name) {
                    pending.remove(pos);
                    let h = *live.iter().find(|(_, v)| **v == name).unwrap().0;
                    by_in.insert(ih, h);
                }
            }
            6 => {
                ops.push(format!("D {}", ih));
                by_in.remove(&ih);
            }
            7 => {
                let h = r.below(5) as u32;
                ops.push(format!("O {}", h));
                if let Some(name) = live.remove(&h) {
                    free.push(h);
                    pending.retain(|x| *x != name);
                    let ihs: Vec<u32> = by_in.iter().filter(|(_, v)| **v == h).map(|(k, _)| *k).collect();
                    for k in ihs {
                        ops.push(format!("D {}", k));
                        by_in.remove(&k);
                    }
                }
            }
            _ => ops.push(format!("R {}", ih)),
        }
    }
    format!("lnk {}", ops.join(" ; "))
}

/// run a link-ops case; returns (trace, violations)
fn run_lnk(line: &str) -> (String, Vec<String>) {
    let mut viol = Vec::new();
    let mut s = VSession::new(0, 1, 0, 5000, 5000);
    s.on_incoming_begin(0, 0, 5000, 5000).unwrap();
    let ops = line.strip_prefix("lnk ").unwrap();
    // specification side: live output handles with their names; input-handle routing table
    let mut live: HashMap<u32, String> = HashMap::new();
    let mut ever_released: HashSet<u32> = HashSet::new();
    let mut max_seen: i64 = -1;
    let mut by_in: HashMap<u32, u32> = HashMap::new(); // input handle -> output handle
    let mut name_handle: HashMap<String, u32> = HashMap::new();
    let mut pending_attach: HashSet<String> = HashSet::new();
    let mut trace = String::new();
    for op in ops.split(';') {
        let w: Vec<&str> = op.split_whitespace().collect();
        match w.as_slice() {
            ["A", name] => {
                let nm = format!("n{}", name);
                // receiver links so that routing can be observed
                match s.allocate_receiver_link(&nm, false) {
                    Ok(h) => {
                        if live.contains_key(&h) {
                            viol.push(format!("handle-shared: handle {} given to {} while {} still holds it", h, nm, live[&h]));
                        }
                        if live.values().any(|n| *n == nm) {
                            viol.push(format!("name-twice: link name {} attached twice", nm));
                        }
                        if (h as i64) <= max_seen && !ever_released.contains(&h) && !live.contains_key(&h) {
                            viol.push(format!("reuse: handle {} reused without having been released", h));
                        }
                        ever_released.remove(&h);
                        max_seen = max_seen.max(h as i64);
                        live.insert(h, nm.clone());
                        name_handle.insert(nm.clone(), h);
                        pending_attach.insert(nm);
                        trace.push_str(&format!("ok {}", h));
                    }
                    Err(e) => {
                        if !live.values().any(|n| *n == nm) {
                            viol.push(format!("alloc-refused: allocation of fresh name {} refused: {}", nm, e));
                        }
                        trace.push_str(&format!("err {}", e.split('(').next().unwrap()));
                    }
                }
            }
            ["I", name, ih] => {
                let nm = format!("n{}", name);
                let ih: u32 = ih.parse().unwrap();
                match s.on_incoming_attach(&nm, ih, true, false) {
                    Ok(()) => {
                        if !pending_attach.remove(&nm) {
                            viol.push(format!("attach-accepted: remote attach for {} accepted although no local link awaits it", nm));
                        }
                        by_in.insert(ih, name_handle[&nm]);
                        trace.push_str("unit");
                    }
                    Err(e) => trace.push_str(&format!("err {}", e)),
                }
            }
            ["D", ih] => {
                let ih: u32 = ih.parse().unwrap();
                match s.on_incoming_detach(ih, false) {
                    Ok(()) => {
                        match by_in.remove(&ih) {
                            Some(h) => trace.push_str(&format!("ok {}", h)),
                            None => {
                                viol.push(format!("detach-routing: detach for unattached handle {} accepted", ih));
                                trace.push_str("ok ?");
                            }
                        }
                    }
                    Err(e) => trace.push_str(&format!("err {}", e)),
                }
            }
            ["O", h] => {
                let h: u32 = h.parse().unwrap();
                let _ = s.on_outgoing_detach(h, false);
                if let Some(nm) = live.remove(&h) {
                    ever_released.insert(h);
                    name_handle.remove(&nm);
                    pending_attach.remove(&nm);
                }
                trace.push_str("unit");
            }
            ["R", ih] => {
                let ih: u32 = ih.parse().unwrap();
                // drain, send one transfer with this handle, see which local link got it
                for h in live.keys().cloned().collect::<Vec<_>>() {
                    s.drain_receiver_frames(h);
                }
                let r = s.on_incoming_transfer(ih, Some(0), Some(vec![1]), Some(true), false, vec![9]);
                let mut got: Vec<u32> = Vec::new();
                let all: Vec<u32> = s_receiver_handles(&s);
                for h in all {
                    if s.drain_receiver_frames(h).iter().any(|f| f.0 == "transfer") {
                        got.push(h);
                    }
                }
                match (r, by_in.get(&ih)) {
                    (Ok(()), Some(h)) => {
                        if got != vec![*h] {
                            viol.push(format!("routing: frame for input handle {} reached links {:?}, expected [{}]", ih, got, h));
                        }
                        trace.push_str(&format!("ok {}", h));
                    }
                    (Ok(()), None) => {
                        viol.push(format!("routing: frame for unattached handle {} was delivered to {:?}", ih, got));
                        trace.push_str("ok ?");
                    }
                    (Err(e), expected) => {
                        if expected.is_some() && !got.is_empty() {
                            viol.push("routing: error but delivered".into());
                        }
                        if let Some(h) = expected {
                            // a link whose endpoint dropped cannot happen here; report
                            viol.push(format!("routing: frame for attached handle {} (link {}) refused: {}", ih, h, e));
                        }
                        trace.push_str(&format!("err {}", e));
                    }
                }
            }
            [] => {}
            _ => panic!("bad lnk op {}", op),
        }
        trace.push_str(" ; ");
    }
    (trace, viol)
}

fn s_receiver_handles(s: &VSession) -> Vec<u32> {
    s.receiver_handles()
}

fn chn_case(r: &mut Rng, max_len: u64) -> String {
    let lm = *r.pick(&[0u16, 1, 2, 3, 5, 65535]);
    let rm = *r.pick(&[0u16, 1, 2, 4, 65535]);
    let n = r.range(1, max_len);
    let mut ops = Vec::new();
    let mut live: Vec<u16> = Vec::new();
    let mut gen_by_in: HashMap<u64, u64> = HashMap::new();
    let mut free: Vec<u16> = Vec::new();
    let mut len = 0u16;
    let limit = lm.min(rm);
    for _ in 0..n {
        match r.below(10) {
            0..=4 => {
                ops.push("S".to_string());
                let key = free.last().cloned().unwrap_or(len);
                if key <= limit {
                    if free.pop().is_none() {
                        len += 1;
                    }
                    live.push(key);
                }
            }
            5 => {
                // only deallocate a channel that was allocated (Slab::remove panics otherwise; see C15),
                // and after the peer's end for the incoming channels bound to it (the session engine
                // deallocates its channel when it stops, i.e. after the end exchange)
                if !live.is_empty() {
                    let i = r.below(live.len() as u64) as usize;
                    let ch = live.remove(i);
                    free.push(ch);
                    let incs: Vec<u64> = gen_by_in.iter().filter(|(_, v)| **v == ch as u64).map(|(k, _)| *k).collect();
                    for k in incs {
                        ops.push(format!("E {}", k));
                        gen_by_in.remove(&k);
                    }
                    ops.push(format!("X {}", ch));
                }
            }
            6..=7 => {
                let inc = r.below(4);
                let rem = match r.below(4) {
                    0 => "-".to_string(),
                    _ => r.below(5).to_string(),
                };
                ops.push(format!("B {} {}", inc, rem));
                if let Ok(o) = rem.parse::<u64>() {
                    if live.contains(&(o as u16)) {
                        gen_by_in.insert(inc, o);
                    }
                }
            }
            8 => {
                let inc = r.below(4);
                gen_by_in.remove(&inc);
                ops.push(format!("E {}", inc))
            }
            _ => ops.push(format!("R {}", r.below(4))),
        }
    }
    format!("chn {} {} | {}", lm, rm, ops.join(" ; "))
}

fn run_chn(line: &str) -> (String, Vec<String>) {
    let mut viol = Vec::new();
    let rest = line.strip_prefix("chn ").unwrap();
    let mut parts = rest.splitn(2, '|');
    let hdr: Vec<&str> = parts.next().unwrap().split_whitespace().collect();
    let lm: u16 = hdr[0].parse().unwrap();
    let rm: u16 = hdr[1].parse().unwrap();
    let mut c = VConnection::new(7, lm); // OpenSent
    c.on_incoming_open(rm).unwrap();
    if c.agreed_channel_max() != lm.min(rm) {
        viol.push(format!("channel-max-agreed: local {} remote {} agreed {}", lm, rm, c.agreed_channel_max()));
    }
    let limit = lm.min(rm);
    let mut live: HashSet<u16> = HashSet::new();
    let mut by_in: HashMap<u16, u16> = HashMap::new();
    let mut trace = String::new();
    for op in parts.next().unwrap_or("").split(';') {
        let w: Vec<&str> = op.split_whitespace().collect();
        match w.as_slice() {
            ["S"] => match c.allocate_session() {
                Ok(ch) => {
                    if ch > limit {
                        viol.push(format!("channel-max: session begun on channel {} above min(local {}, remote {})", ch, lm, rm));
                    }
                    if live.contains(&ch) {
                        viol.push(format!("channel-shared: channel {} given out while still in use", ch));
                    }
                    live.insert(ch);
                    trace.push_str(&format!("ok {}", ch));
                }
                Err(e) => {
                    // refusal is only right when every channel 0..=limit is in use
                    if (live.len() as u32) <= limit as u32 && (0..=limit).any(|k| !live.contains(&k)) {
                        viol.push(format!("channel-refused: allocation refused ({}) although a channel <= {} is free", e, limit));
                    }
                    trace.push_str(&format!("err {}", e));
                }
            },
            ["X", ch] => {
                let ch: u16 = ch.parse().unwrap();
                let r = std::panic::catch_unwind(std::panic::AssertUnwindSafe(|| c.deallocate_session(ch)));
                live.remove(&ch);
                by_in.retain(|_, v| *v != ch || true);
                trace.push_str(if r.is_ok() { "unit" } else { "panic" });
            }
            ["B", inc, rem] => {
                let inc: u16 = inc.parse().unwrap();
                let rem: Option<u16> = if *rem == "-" { None } else { Some(rem.parse().unwrap()) };
                match c.on_incoming_begin(inc, rem) {
                    Ok(()) => {
                        let out = rem.unwrap();
                        if !live.contains(&out) {
                            viol.push(format!("begin-routing: begin naming unallocated channel {} accepted", out));
                        }
                        by_in.insert(inc, out);
                        let got = c.drain();
                        if got != vec![out] {
                            viol.push(format!("begin-routing: begin for local channel {} reached sessions {:?}", out, got));
                        }
                        trace.push_str(&format!("ok {}", out));
                    }
                    Err(e) => trace.push_str(&format!("err {}", e.split('(').next().unwrap())),
                }
            }
            ["E", inc] => {
                let inc: u16 = inc.parse().unwrap();
                match c.on_incoming_end(inc) {
                    Ok(()) => {
                        let got = c.drain();
                        match by_in.remove(&inc) {
                            Some(out) => {
                                if live.contains(&out) && got != vec![out] {
                                    viol.push(format!("end-routing: end on channel {} reached {:?}, expected [{}]", inc, got, out));
                                }
                                trace.push_str(&format!("ok {}", out));
                            }
                            None => {
                                viol.push(format!("end-routing: end on unmapped channel {} accepted", inc));
                                trace.push_str("ok ?");
                            }
                        }
                    }
                    Err(e) => {
                        let _ = c.drain();
                        // sending to a session that was deallocated fails: the mapping is gone either way
                        if e.contains("SendError") || e.contains("Send") {
                            if let Some(out) = by_in.remove(&inc) {
                                trace.push_str(&format!("ok {}", out));
                            } else {
                                trace.push_str(&format!("err {}", e.split('(').next().unwrap()));
                            }
                        } else {
                            trace.push_str(&format!("err {}", e.split('(').next().unwrap()));
                        }
                    }
                }
            }
            ["R", inc] => {
                let inc: u16 = inc.parse().unwrap();
                match c.route(inc) {
                    Ok(got) => match by_in.get(&inc) {
                        Some(out) => {
                            if live.contains(out) && got != vec![*out] {
                                viol.push(format!("routing: frame on channel {} reached sessions {:?}, expected [{}]", inc, got, out));
                            }
                            trace.push_str(&format!("ok {}", out));
                        }
                        None => {
                            viol.push(format!("routing: frame on unmapped channel {} delivered to {:?}", inc, got));
                            trace.push_str("ok ?");
                        }
                    },
                    Err(e) => {
                        if e == "NotFound" {
                            if by_in.contains_key(&inc) {
                                viol.push(format!("routing: frame on mapped channel {} not routed", inc));
                            }
                            trace.push_str("err NotFound");
                        } else {
                            // the session's receiver is gone (deallocated): the map still names it
                            match by_in.get(&inc) {
                                Some(out) => trace.push_str(&format!("ok {}", out)),
                                None => trace.push_str("err NotFound"),
                            }
                        }
                    }
                }
            }
            [] => {}
            _ => panic!("bad chn op {}", op),
        }
        trace.push_str(" ; ");
    }
    (trace, viol)
}

pub fn run(seed: u64, n: u64, thorough: bool, corpus: &[String], dir: &str) {
    crate::codec::quiet_panics();
    let mut out = Outputs::new(dir);
    let mut r = Rng::new(seed);
    let do_line = |line: String, out: &mut Outputs| {
        let res = std::panic::catch_unwind(std::panic::AssertUnwindSafe(|| {
            if line.starts_with("lnk ") { run_lnk(&line) } else { run_chn(&line) }
        }));
        let (trace, viol) = match res {
            Ok(x) => x,
            Err(_) => ("PANIC".to_string(), vec!["panic: the implementation panicked on this history".to_string()]),
        };
        if trace.matches("ok").count() >= 3 {
            out.nontrivial(&line);
        }
        out.count(if line.starts_with("lnk ") { "link_cases" } else { "channel_cases" });
        out.add("ops", line.matches(';').count() as u64 + 1);
        for v in viol {
            let class = v.split(':').next().unwrap_or("?").to_string();
            let pfx = if class.starts_with("channel-max") || class.starts_with("channel-refused") { "c17" } else { "c11" };
            out.violation(&format!("{}-{}", pfx, class), &format!("{}-{}", pfx, v), &line);
        }
        out.case(&line, &trace);
    };
    for l in corpus {
        if l.starts_with("lnk ") || l.starts_with("chn ") {
            out.count("corpus_cases");
            do_line(l.clone(), &mut out);
        }
    }
    let ml = if thorough { 40 } else { 16 };
    for i in 0..n {
        let line = if i % 2 == 0 { lnk_case(&mut r, ml) } else { chn_case(&mut r, ml) };
        if line.trim_end().ends_with('|') {
            continue;
        }
        do_line(line, &mut out);
    }
    out.finish(dir);
}
