//! Output files shared by all sub-harnesses.
use std::collections::BTreeMap;
use std::fs::File;
use std::io::{BufWriter, Write};

pub struct Outputs {
    pub cases: BufWriter<File>,
    pub impl_out: BufWriter<File>,
    pub stats: BTreeMap<String, u64>,
    pub samples: Vec<String>,
    /// violations of the property found by the direct oracle on the implementation:
    /// (signature class, human readable description, case line)
    pub violations: Vec<(String, String, String)>,
    pub n_cases: u64,
    pub nontrivial: std::collections::HashSet<u64>,
}

impl Outputs {
    pub fn new(dir: &str) -> Self {
        std::fs::create_dir_all(dir).unwrap();
        Self {
            cases: BufWriter::new(File::create(format!("{dir}/cases.txt")).unwrap()),
            impl_out: BufWriter::new(File::create(format!("{dir}/impl.txt")).unwrap()),
            stats: BTreeMap::new(),
            samples: Vec::new(),
            violations: Vec::new(),
            n_cases: 0,
            nontrivial: Default::default(),
        }
    }
    pub fn case(&mut self, case_line: &str, impl_line: &str) {
        writeln!(self.cases, "{}", case_line).unwrap();
        writeln!(self.impl_out, "{}", impl_line).unwrap();
        if self.samples.len() < 5 {
            self.samples.push(case_line.to_string());
        }
        self.n_cases += 1;
    }
    /// record that this case is non-trivial by the sub-harness's rule (counted distinct)
    pub fn nontrivial(&mut self, case_line: &str) {
        use std::hash::{Hash, Hasher};
        let mut h = std::collections::hash_map::DefaultHasher::new();
        case_line.hash(&mut h);
        self.nontrivial.insert(h.finish());
    }
    pub fn count(&mut self, key: &str) {
        *self.stats.entry(key.to_string()).or_insert(0) += 1;
    }
    pub fn add(&mut self, key: &str, n: u64) {
        *self.stats.entry(key.to_string()).or_insert(0) += n;
    }
    pub fn violation(&mut self, class: &str, what: &str, case_line: &str) {
        self.violations
            .push((class.to_string(), what.to_string(), case_line.to_string()));
    }
    pub fn finish(mut self, dir: &str) {
        self.cases.flush().unwrap();
        self.impl_out.flush().unwrap();
        let mut f = BufWriter::new(File::create(format!("{dir}/stats.json")).unwrap());
        let esc = |s: &str| s.replace('\\', "\\\\").replace('"', "\\\"");
        write!(f, "{{\"n_cases\":{},\"distinct_nontrivial\":{},\"stats\":{{", self.n_cases, self.nontrivial.len()).unwrap();
        let mut first = true;
        for (k, v) in &self.stats {
            if !first {
                write!(f, ",").unwrap();
            }
            first = false;
            write!(f, "\"{}\":{}", esc(k), v).unwrap();
        }
        write!(f, "}},\"samples\":[").unwrap();
        for (i, s) in self.samples.iter().enumerate() {
            if i > 0 {
                write!(f, ",").unwrap();
            }
            write!(f, "\"{}\"", esc(s)).unwrap();
        }
        write!(f, "],\"violations\":[").unwrap();
        for (i, (c, w, l)) in self.violations.iter().enumerate() {
            if i > 0 {
                write!(f, ",").unwrap();
            }
            write!(
                f,
                "{{\"class\":\"{}\",\"what\":\"{}\",\"case\":\"{}\"}}",
                esc(c),
                esc(w),
                esc(l)
            )
            .unwrap();
        }
        writeln!(f, "]}}").unwrap();
        f.flush().unwrap();
    }
}

pub fn opt_u32(x: Option<u32>) -> String {
    match x {
        Some(v) => v.to_string(),
        None => "-".to_string(),
    }
}
pub fn opt_bool(x: Option<bool>) -> String {
    match x {
        Some(true) => "1".to_string(),
        Some(false) => "0".to_string(),
        None => "-".to_string(),
    }
}
pub fn b(x: bool) -> &'static str {
    if x {
        "1"
    } else {
        "0"
    }
}
pub fn parse_opt_u32(s: &str) -> Option<u32> {
    if s == "-" {
        None
    } else {
        Some(s.parse().unwrap())
    }
}
pub fn parse_opt_bool(s: &str) -> Option<bool> {
    match s {
        "-" => None,
        "1" => Some(true),
        _ => Some(false),
    }
}


/// set once a guarded call did not return: later guarded calls are skipped so that the run can finish and report
pub static SPUN: std::sync::atomic::AtomicBool = std::sync::atomic::AtomicBool::new(false);

/// run `f` on a thread of its own and wait at most `secs` seconds of real time for it: `None` = it did not return
/// (the thread is left behind, spinning; the process exits when the run has written its outputs)
pub fn guarded<T: Send + 'static>(secs: u64, f: impl FnOnce() -> T + Send + 'static) -> Option<T> {
    if SPUN.load(std::sync::atomic::Ordering::SeqCst) {
        return None;
    }
    let (tx, rx) = std::sync::mpsc::channel();
    let _ = std::thread::Builder::new().stack_size(8 << 20).spawn(move || {
        let _ = tx.send(f());
    });
    match rx.recv_timeout(std::time::Duration::from_secs(secs)) {
        Ok(v) => Some(v),
        Err(std::sync::mpsc::RecvTimeoutError::Timeout) => {
            SPUN.store(true, std::sync::atomic::Ordering::SeqCst);
            None
        }
        // the thread died without sending (a panic that was not caught inside `f`)
        Err(_) => None,
    }
}
