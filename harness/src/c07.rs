//! C07: session flow control.  Drives the real `Session` through the facade,
//! prints the canonical trace for comparison with the Coq model, and checks
//! the property directly on the implementation's output.
use crate::out::*;
use crate::rng::Rng;
use fe2o3_amqp::verif::{VFrame, VSession};

#[derive(Clone, Debug)]
pub enum Ev {
    /// ih handle tag settled more pay
    O(u32, u32, Option<u32>, Option<bool>, bool, u32),
    /// nii iw noi ow
    F(Option<u32>, u32, u32, u32),
    /// a flow that also carries link state for the attached sending link: nii iw noi ow | dc credit drain echo
    FL(Option<u32>, u32, u32, u32, Option<u32>, Option<u32>, bool, bool),
    X,
    /// an incoming transfer for the receiving link after the application has dropped its end of it
    XD,
}

#[derive(Clone, Debug)]
pub struct Case {
    pub noi: u32,
    pub iw: u32,
    pub ow: u32,
    pub b_noi: u32,
    pub b_iw: u32,
    pub b_ow: u32,
    pub evs: Vec<Ev>,
}

impl Case {
    pub fn line(&self) -> String {
        let evs: Vec<String> = self
            .evs
            .iter()
            .map(|e| match e {
                Ev::O(ih, h, tag, settled, more, pay) => format!(
                    "O {} {} {} {} {} {}",
                    ih,
                    h,
                    opt_u32(*tag),
                    opt_bool(*settled),
                    b(*more),
                    pay
                ),
                Ev::F(nii, iw, noi, ow) => format!("F {} {} {} {}", opt_u32(*nii), iw, noi, ow),
                Ev::FL(nii, iw, noi, ow, dc, cr, drain, echo) => {
                    format!("FL {} {} {} {} {} {} {} {}", opt_u32(*nii), iw, noi, ow, opt_u32(*dc), opt_u32(*cr), b(*drain), b(*echo))
                }
                Ev::X => "X".to_string(),
                Ev::XD => "XD".to_string(),
            })
            .collect();
        format!(
            "c07 {} {} {} {} {} {} | {}",
            self.noi,
            self.iw,
            self.ow,
            self.b_noi,
            self.b_iw,
            self.b_ow,
            evs.join(" ; ")
        )
    }

    pub fn parse(line: &str) -> Option<Case> {
        let rest = line.strip_prefix("c07 ")?;
        let mut parts = rest.splitn(2, '|');
        let hdr: Vec<&str> = parts.next()?.split_whitespace().collect();
        if hdr.len() != 6 {
            return None;
        }
        let evs_s = parts.next().unwrap_or("");
        let mut evs = Vec::new();
        for e in evs_s.split(';') {
            let w: Vec<&str> = e.split_whitespace().collect();
            match w.as_slice() {
                [] => {}
                ["O", ih, h, tag, settled, more, pay] => evs.push(Ev::O(
                    ih.parse().ok()?,
                    h.parse().ok()?,
                    parse_opt_u32(tag),
                    parse_opt_bool(settled),
                    *more == "1",
                    pay.parse().ok()?,
                )),
                ["F", nii, iw, noi, ow] => evs.push(Ev::F(
                    parse_opt_u32(nii),
                    iw.parse().ok()?,
                    noi.parse().ok()?,
                    ow.parse().ok()?,
                )),
                ["FL", nii, iw, noi, ow, dc, cr, drain, echo] => evs.push(Ev::FL(
                    parse_opt_u32(nii),
                    iw.parse().ok()?,
                    noi.parse().ok()?,
                    ow.parse().ok()?,
                    parse_opt_u32(dc),
                    parse_opt_u32(cr),
                    *drain == "1",
                    *echo == "1",
                )),
                ["X"] => evs.push(Ev::X),
                ["XD"] => evs.push(Ev::XD),
                _ => return None,
            }
        }
        Some(Case {
            noi: hdr[0].parse().ok()?,
            iw: hdr[1].parse().ok()?,
            ow: hdr[2].parse().ok()?,
            b_noi: hdr[3].parse().ok()?,
            b_iw: hdr[4].parse().ok()?,
            b_ow: hdr[5].parse().ok()?,
            evs,
        })
    }
}

const PEER_HANDLE: u32 = 7;
const PEER_SND_HANDLE: u32 = 9;

fn frame_str(f: &VFrame) -> String {
    match f {
        VFrame::Transfer {
            handle,
            delivery_id,
            delivery_tag,
            more,
            settled,
            payload,
            ..
        } => {
            let tag = delivery_tag
                .as_ref()
                .map(|t| u32::from_be_bytes([t[0], t[1], t[2], t[3]]));
            let pay = u32::from_be_bytes([payload[0], payload[1], payload[2], payload[3]]);
            format!(
                "T {} {} {} {} {} {}",
                opt_u32(*delivery_id),
                handle,
                opt_u32(tag),
                opt_bool(*settled),
                b(*more),
                pay
            )
        }
        VFrame::Flow {
            next_incoming_id,
            incoming_window,
            next_outgoing_id,
            outgoing_window,
            handle,
            delivery_count,
            link_credit,
            available,
            drain,
            echo,
            ..
        } => format!(
            "W {} {} {} {}{}",
            opt_u32(*next_incoming_id),
            incoming_window,
            next_outgoing_id,
            outgoing_window,
            match handle {
                Some(_) => format!(" L {} {} {} {} {}", opt_u32(*delivery_count), opt_u32(*link_credit), opt_u32(*available), b(*drain), b(*echo)),
                None => String::new(),
            }
        ),
        other => format!("? {:?}", other),
    }
}

/// Runs one case on the implementation; returns the canonical trace and the
/// list of property violations seen by the direct oracle
pub fn run_case(c: &Case) -> (String, Vec<String>) {
    let mut viol = Vec::new();
    let mut s = VSession::new(0, 1, c.noi, c.iw, c.ow);
    s.on_incoming_begin(0, c.b_noi, c.b_iw, c.b_ow).unwrap();
    // a receiver link attached under the peer's handle so that incoming transfers are routed
    let _h = s.allocate_receiver_link("r", false).unwrap();
    s.on_incoming_attach("r", PEER_HANDLE, false, false).unwrap();
    // ... and a sending link (the peer's receiving end under PEER_SND_HANDLE) for flows that carry link state
    let hs = s.allocate_sender_link("s").unwrap();
    s.on_incoming_attach("s", PEER_SND_HANDLE, true, false).unwrap();

    // ---- direct oracle state (specification side, independent of the model) ----
    let mut adv_base = c.noi; // the peer's implicit next-incoming-id after begin
    let mut adv_win = c.b_iw;
    let mut sent: u32 = 0; // transfer frames emitted so far
    let mut peer_noi = c.b_noi; // peer's last stated next-outgoing-id + received since
    let mut submitted: Vec<u32> = Vec::new();
    let mut emitted: Vec<u32> = Vec::new();

    let mut trace = String::new();
    for e in &c.evs {
        let frames: Vec<VFrame> = match e {
            Ev::O(ih, h, tag, settled, more, pay) => {
                submitted.push(*pay);
                s.on_outgoing_transfer(
                    *ih,
                    *h,
                    tag.map(|t| t.to_be_bytes().to_vec()),
                    *settled,
                    *more,
                    pay.to_be_bytes().to_vec(),
                )
                .unwrap()
            }
            Ev::F(nii, iw, noi, ow) => {
                adv_base = nii.unwrap_or(c.noi);
                adv_win = *iw;
                peer_noi = *noi;
                s.on_incoming_flow(*nii, *iw, *noi, *ow, None).unwrap()
            }
            Ev::FL(nii, iw, noi, ow, dc, cr, drain, echo) => {
                adv_base = nii.unwrap_or(c.noi);
                adv_win = *iw;
                peer_noi = *noi;
                let out = s
                    .on_incoming_flow(
                        *nii,
                        *iw,
                        *noi,
                        *ow,
                        Some(fe2o3_amqp::verif::VLinkFlow { handle: PEER_SND_HANDLE, delivery_count: *dc, link_credit: *cr, available: None, drain: *drain, echo: *echo }),
                    )
                    .unwrap();
                // a flow that asks for the link's state (echo), or for a drain, is answered with a flow for that link -
                // whatever else the same flow sets free
                if (*echo || *drain) && !out.iter().any(|f| matches!(f, VFrame::Flow { handle: Some(_), .. })) {
                    viol.push(format!("link-flow-unanswered: a flow with echo={} drain={} for the sending link got no link flow back", echo, drain));
                }
                out
            }
            Ev::XD => {
                // the frame is discarded, but it has been received: the session's counters move all the same
                s.drop_receiver_endpoint(_h);
                peer_noi = peer_noi.wrapping_add(1);
                s.on_incoming_transfer(PEER_HANDLE, Some(0), Some(vec![0]), Some(true), false, vec![])
                    .unwrap();
                s.maybe_outgoing_session_flow()
            }
            Ev::X => {
                peer_noi = peer_noi.wrapping_add(1);
                s.on_incoming_transfer(PEER_HANDLE, Some(0), Some(vec![0]), Some(true), false, vec![])
                    .unwrap();
                s.maybe_outgoing_session_flow()
            }
        };
        for f in &frames {
            match f {
                VFrame::Transfer {
                    delivery_id,
                    delivery_tag,
                    payload,
                    ..
                } => {
                    let tid = c.noi.wrapping_add(sent);
                    sent = sent.wrapping_add(1);
                    if tid.wrapping_sub(adv_base) >= adv_win {
                        viol.push(format!(
                            "window-overrun: transfer-id {} outside [{} , +{})",
                            tid, adv_base, adv_win
                        ));
                    }
                    match (delivery_tag, delivery_id) {
                        (Some(_), Some(d)) if *d == tid => {}
                        (None, None) => {}
                        _ => viol.push(format!(
                            "delivery-id: frame with transfer-id {} has delivery-id {:?} tag {:?}",
                            tid, delivery_id, delivery_tag
                        )),
                    }
                    emitted.push(u32::from_be_bytes([
                        payload[0], payload[1], payload[2], payload[3],
                    ]));
                }
                VFrame::Flow {
                    next_incoming_id,
                    incoming_window,
                    next_outgoing_id,
                    outgoing_window,
                    ..
                } => {
                    if *next_outgoing_id != c.noi.wrapping_add(sent) {
                        viol.push(format!(
                            "flow-noi: flow reports next-outgoing-id {} after {} transfers from {}",
                            next_outgoing_id, sent, c.noi
                        ));
                    }
                    if *next_incoming_id != Some(peer_noi) {
                        viol.push(format!(
                            "flow-nii: flow reports next-incoming-id {:?}, expected {}",
                            next_incoming_id, peer_noi
                        ));
                    }
                    if *incoming_window != c.iw || *outgoing_window != c.ow {
                        viol.push("flow-windows: flow does not report the configured windows".into());
                    }
                }
                _ => viol.push("unexpected-frame".into()),
            }
        }
        let k = s.counters();
        // FIFO: emitted ++ buffered == submitted, as lengths and as a prefix
        if emitted.len() + k.buffered != submitted.len() || emitted[..] != submitted[..emitted.len()] {
            viol.push(format!(
                "fifo: emitted {:?} + {} buffered vs submitted {:?}",
                emitted, k.buffered, submitted
            ));
        }
        // nothing waits while the advertised window is open
        if k.buffered > 0 && k.next_outgoing_id.wrapping_sub(adv_base) < adv_win {
            viol.push(format!(
                "held-back: {} transfers buffered although id {} is inside [{} , +{})",
                k.buffered, k.next_outgoing_id, adv_base, adv_win
            ));
        }
        if k.next_outgoing_id != c.noi.wrapping_add(sent) || k.next_incoming_id != peer_noi {
            viol.push("counters: next-outgoing-id/next-incoming-id not exact".into());
        }
        let fs: Vec<String> = frames.iter().map(frame_str).collect();
        trace.push_str(&fs.join(" , "));
        if let Ev::FL(_, _, _, _, _dc, cr, drain, _) = e {
            // the state of the sending link after a flow that carries link state (model: SenderCredit.snd_on_incoming_flow)
            if let Some((ldc, lcr, ldr)) = s.sender_link_counters(hs) {
                trace.push_str(&format!(" L({},{},{})", ldc, lcr, b(ldr)));
                // the receiver's latest flow is the limit: a flow that names no credit (or takes it back to zero) leaves none
                if *cr == Some(0) && !*drain && lcr != 0 {
                    viol.push(format!("link-credit-not-revoked: the flow set link-credit 0, the sending link still holds {}", lcr));
                }
            }
        }
        trace.push_str(&format!(
            " # noi={} nii={} riw={} row={} nfc={} buf={} dmap={} ; ",
            k.next_outgoing_id,
            k.next_incoming_id,
            k.remote_incoming_window,
            k.remote_outgoing_window,
            k.need_flow_count,
            k.buffered,
            k.delivery_tag_by_id
        ));
    }
    (trace, viol)
}

fn near_wrap(r: &mut Rng) -> u32 {
    match r.below(5) {
        0 => 0,
        1 => u32::MAX - (r.below(200) as u32),
        2 => r.below(200) as u32,
        3 => 0x8000_0000u32.wrapping_add(r.below(400) as u32).wrapping_sub(200),
        _ => r.next() as u32,
    }
}

fn small_win(r: &mut Rng) -> u32 {
    *r.pick(&[0u32, 0, 1, 1, 2, 2, 3, 4, 5, 8, 100, 5000, u32::MAX])
}

pub fn gen_case(r: &mut Rng, max_len: u64) -> Case {
    let noi = near_wrap(r);
    let iw = *r.pick(&[1u32, 2, 3, 4, 6, 10, 5000]);
    let ow = *r.pick(&[1u32, 5, 5000]);
    let b_noi = near_wrap(r);
    let b_iw = small_win(r);
    let b_ow = *r.pick(&[0u32, 1, 5, 5000]);
    let n = r.range(1, max_len);
    let mut evs = Vec::new();
    let mut sent_est: u32 = 0; // rough count of frames possibly sent (for truthful peers)
    let mut pay = 1u32;
    let mut in_delivery = false;
    for _ in 0..n {
        match r.below(100) {
            0..=59 => {
                let more = r.chance(1, 4);
                let tag = if in_delivery { None } else { Some(pay) };
                let settled = *r.pick(&[None, Some(false), Some(true)]);
                evs.push(Ev::O(r.below(3) as u32, r.below(3) as u32, tag, settled, more, pay));
                in_delivery = more;
                pay += 1;
                sent_est = sent_est.wrapping_add(1);
            }
            60..=84 => {
                // mostly truthful: the peer has seen some prefix of what may have been sent
                let nii = match r.below(10) {
                    0 => None,
                    1 => Some(r.next() as u32), // bogus
                    _ => {
                        let back = if sent_est == 0 { 0 } else { r.below(sent_est as u64 + 1) as u32 };
                        Some(noi.wrapping_add(sent_est).wrapping_sub(back))
                    }
                };
                if r.below(4) == 0 {
                    let dc = match r.below(3) { 0 => None, _ => Some(r.below(4) as u32) };
                    let cr = match r.below(4) { 0 => None, _ => Some(r.below(6) as u32) };
                    evs.push(Ev::FL(nii, small_win(r), near_wrap(r), *r.pick(&[0u32, 1, 7, 5000]), dc, cr, r.below(3) == 0, r.below(2) == 0));
                } else {
                    evs.push(Ev::F(nii, small_win(r), near_wrap(r), *r.pick(&[0u32, 1, 7, 5000])));
                }
            }
            _ => evs.push(if r.below(5) == 0 { Ev::XD } else { Ev::X }),
        }
    }
    Case {
        noi,
        iw,
        ow,
        b_noi,
        b_iw,
        b_ow,
        evs,
    }
}

/// All event sequences of length <= `len` over a tiny alphabet (thorough tier)
pub fn enumerate_small(len: usize, f: &mut dyn FnMut(Case)) {
    let inits = [0u32, u32::MAX, u32::MAX - 1];
    let wins = [0u32, 1, 2];
    for &noi in &inits {
        for &b_iw in &wins {
            let mut stack: Vec<Vec<Ev>> = vec![vec![]];
            while let Some(seq) = stack.pop() {
                if !seq.is_empty() {
                    f(Case {
                        noi,
                        iw: 2,
                        ow: 5,
                        b_noi: 9,
                        b_iw,
                        b_ow: 5,
                        evs: seq.clone(),
                    });
                }
                if seq.len() < len {
                    let k = seq.len() as u32;
                    let mut alphabet = vec![Ev::O(0, 0, Some(k), None, false, k), Ev::X];
                    for &w in &wins {
                        alphabet.push(Ev::F(Some(noi.wrapping_add(k / 2)), w, 3, 5));
                        alphabet.push(Ev::F(None, w, 3, 5));
                    }
                    for a in alphabet {
                        let mut s2 = seq.clone();
                        s2.push(a);
                        stack.push(s2);
                    }
                }
            }
        }
    }
}

pub fn run(seed: u64, n: u64, thorough: bool, corpus: &[String], dir: &str) {
    let mut out = Outputs::new(dir);
    let mut r = Rng::new(seed);
    let do_case = |c: Case, out: &mut Outputs| {
        let line = c.line();
        let (trace, viol) = run_case(&c);
        out.add("events", c.evs.len() as u64);
        for e in &c.evs {
            match e {
                Ev::O(..) => out.count("ev_out_transfer"),
                Ev::F(None, ..) => out.count("ev_flow_unset_nii"),
                Ev::F(..) => out.count("ev_flow"),
                Ev::FL(..) => out.count("ev_flow_with_link_state"),
                Ev::X => out.count("ev_in_transfer"),
                Ev::XD => out.count("ev_in_transfer_for_dropped_endpoint"),
            }
        }
        if c.noi > u32::MAX - 300 || c.noi < 300 {
            out.count("cases_initial_id_near_wrap");
        }
        if trace.contains(" , ") {
            out.count("cases_with_drain_batch");
        }
        if trace.contains("T ") && (trace.contains("buf=1") || trace.contains("buf=2") || trace.contains(" , ")) {
            out.nontrivial(&line);
        }
        if trace.contains("W ") {
            out.count("cases_with_session_flow");
        }
        for v in viol {
            let class = v.split(':').next().unwrap_or("?").to_string();
            let class = match class.as_str() {
                "delivery-id" => "c11-delivery-id".to_string(),
                // the answer to a drain / echo request is the sending link's business (C08), although the session writes it
                "link-flow-unanswered" => "c08-link-flow-unanswered".to_string(),
                "link-credit-not-revoked" => "c08-link-credit-not-revoked".to_string(),
                _ => format!("c07-{}", class),
            };
            out.violation(&class, &v, &line);
        }
        out.case(&line, &trace);
    };
    for l in corpus {
        if let Some(c) = Case::parse(l) {
            out.count("corpus_cases");
            do_case(c, &mut out);
        }
    }
    for _ in 0..n {
        let c = gen_case(&mut r, if thorough { 60 } else { 30 });
        do_case(c, &mut out);
    }
    if thorough {
        let mut cases = Vec::new();
        enumerate_small(4, &mut |c| cases.push(c));
        out.add("enumerated_cases", cases.len() as u64);
        for c in cases {
            do_case(c, &mut out);
        }
    }
    out.finish(dir);
}
