//! Text format for AMQP values shared with the OCaml oracle, conversions to and
//! from `serde_amqp::Value`, and the structure-aware generator.
//!
//! Token grammar (space separated, numbers in hex, byte strings as hex or `-`):
//!   N | B 0|1 | ub n | us n | ui n | ul n | by bits | sh bits | in bits | lo bits
//!   | fl bits | do bits | d32 hex | d64 hex | d128 hex | ch n | ts bits | uu hex
//!   | bin hex | str hex | sym hex | L count v.. | M count k v .. | A count v..
//!   | Dn hex v | Dc n v
use crate::rng::Rng;
use serde_amqp::described::Described;
use serde_amqp::descriptor::Descriptor;
use serde_amqp::primitives::{Array, Dec128, Dec32, Dec64, OrderedMap, Symbol, Timestamp, Uuid};
use serde_amqp::Value;

pub fn hex(b: &[u8]) -> String {
    if b.is_empty() {
        return "-".to_string();
    }
    let mut s = String::with_capacity(b.len() * 2);
    for x in b {
        s.push_str(&format!("{:02x}", x));
    }
    s
}
pub fn unhex(s: &str) -> Option<Vec<u8>> {
    if s == "-" {
        return Some(vec![]);
    }
    if s.len() % 2 != 0 {
        return None;
    }
    (0..s.len() / 2)
        .map(|i| u8::from_str_radix(&s[2 * i..2 * i + 2], 16).ok())
        .collect()
}

/// A value whose strings/symbols may be invalid UTF-8 cannot exist in Rust; the text
/// format is only produced from real `Value`s, so strings are valid by construction.
pub fn to_text(v: &Value, out: &mut String) {
    match v {
        Value::Described(d) => {
            match &d.descriptor {
                Descriptor::Name(s) => out.push_str(&format!("Dn {} ", hex(s.0.as_bytes()))),
                Descriptor::Code(c) => out.push_str(&format!("Dc {:x} ", c)),
            }
            to_text(&d.value, out);
            return;
        }
        Value::Null => out.push('N'),
        Value::Bool(b) => out.push_str(if *b { "B 1" } else { "B 0" }),
        Value::Ubyte(n) => out.push_str(&format!("ub {:x}", n)),
        Value::Ushort(n) => out.push_str(&format!("us {:x}", n)),
        Value::Uint(n) => out.push_str(&format!("ui {:x}", n)),
        Value::Ulong(n) => out.push_str(&format!("ul {:x}", n)),
        Value::Byte(n) => out.push_str(&format!("by {:x}", *n as u8)),
        Value::Short(n) => out.push_str(&format!("sh {:x}", *n as u16)),
        Value::Int(n) => out.push_str(&format!("in {:x}", *n as u32)),
        Value::Long(n) => out.push_str(&format!("lo {:x}", *n as u64)),
        Value::Float(f) => out.push_str(&format!("fl {:x}", f.into_inner().to_bits())),
        Value::Double(f) => out.push_str(&format!("do {:x}", f.into_inner().to_bits())),
        Value::Decimal32(d) => out.push_str(&format!("d32 {}", hex(&d.clone().into_inner()))),
        Value::Decimal64(d) => out.push_str(&format!("d64 {}", hex(&d.clone().into_inner()))),
        Value::Decimal128(d) => out.push_str(&format!("d128 {}", hex(&d.clone().into_inner()))),
        Value::Char(c) => out.push_str(&format!("ch {:x}", *c as u32)),
        Value::Timestamp(t) => out.push_str(&format!("ts {:x}", t.milliseconds() as u64)),
        Value::Uuid(u) => out.push_str(&format!("uu {}", hex(u.as_inner()))),
        Value::Binary(b) => out.push_str(&format!("bin {}", hex(b))),
        Value::String(s) => out.push_str(&format!("str {}", hex(s.as_bytes()))),
        Value::Symbol(s) => out.push_str(&format!("sym {}", hex(s.0.as_bytes()))),
        Value::List(l) => {
            out.push_str(&format!("L {:x}", l.len()));
            for x in l {
                out.push(' ');
                to_text(x, out);
            }
        }
        Value::Map(m) => {
            out.push_str(&format!("M {:x}", m.len()));
            for (k, x) in m.iter() {
                out.push(' ');
                to_text(k, out);
                out.push(' ');
                to_text(x, out);
            }
        }
        Value::Array(a) => {
            out.push_str(&format!("A {:x}", a.0.len()));
            for x in a.0.iter() {
                out.push(' ');
                to_text(x, out);
            }
        }
    }
}

pub fn text(v: &Value) -> String {
    let mut s = String::new();
    to_text(v, &mut s);
    s
}

pub fn parse<'a>(toks: &mut std::slice::Iter<'a, &'a str>) -> Option<Value> {
    let t = *toks.next()?;
    let num = |toks: &mut std::slice::Iter<'a, &'a str>| -> Option<u64> {
        u64::from_str_radix(toks.next()?, 16).ok()
    };
    let bytes = |toks: &mut std::slice::Iter<'a, &'a str>| -> Option<Vec<u8>> { unhex(toks.next()?) };
    Some(match t {
        "N" => Value::Null,
        "B" => Value::Bool(num(toks)? == 1),
        "ub" => Value::Ubyte(num(toks)? as u8),
        "us" => Value::Ushort(num(toks)? as u16),
        "ui" => Value::Uint(num(toks)? as u32),
        "ul" => Value::Ulong(num(toks)?),
        "by" => Value::Byte(num(toks)? as u8 as i8),
        "sh" => Value::Short(num(toks)? as u16 as i16),
        "in" => Value::Int(num(toks)? as u32 as i32),
        "lo" => Value::Long(num(toks)? as i64),
        "fl" => Value::Float(f32::from_bits(num(toks)? as u32).into()),
        "do" => Value::Double(f64::from_bits(num(toks)?).into()),
        "d32" => Value::Decimal32(Dec32::from(<[u8; 4]>::try_from(bytes(toks)?).ok()?)),
        "d64" => Value::Decimal64(Dec64::from(<[u8; 8]>::try_from(bytes(toks)?).ok()?)),
        "d128" => Value::Decimal128(Dec128::from(<[u8; 16]>::try_from(bytes(toks)?).ok()?)),
        "ch" => Value::Char(char::from_u32(num(toks)? as u32)?),
        "ts" => Value::Timestamp(Timestamp::from_milliseconds(num(toks)? as i64)),
        "uu" => Value::Uuid(Uuid::from(<[u8; 16]>::try_from(bytes(toks)?).ok()?)),
        "bin" => Value::Binary(bytes(toks)?.into()),
        "str" => Value::String(String::from_utf8(bytes(toks)?).ok()?),
        "sym" => Value::Symbol(Symbol(String::from_utf8(bytes(toks)?).ok()?)),
        "L" => {
            let n = num(toks)?;
            let mut v = Vec::new();
            for _ in 0..n {
                v.push(parse(toks)?);
            }
            Value::List(v)
        }
        "A" => {
            let n = num(toks)?;
            let mut v = Vec::new();
            for _ in 0..n {
                v.push(parse(toks)?);
            }
            Value::Array(Array(v))
        }
        "M" => {
            let n = num(toks)?;
            let mut m = OrderedMap::new();
            for _ in 0..n {
                let k = parse(toks)?;
                let v = parse(toks)?;
                m.insert(k, v);
            }
            Value::Map(m)
        }
        "Dn" => {
            let name = String::from_utf8(bytes(toks)?).ok()?;
            let v = parse(toks)?;
            Value::Described(Box::new(Described {
                descriptor: Descriptor::Name(Symbol(name)),
                value: v,
            }))
        }
        "Dc" => {
            let c = num(toks)?;
            let v = parse(toks)?;
            Value::Described(Box::new(Described {
                descriptor: Descriptor::Code(c),
                value: v,
            }))
        }
        _ => return None,
    })
}

pub fn parse_text(s: &str) -> Option<Value> {
    let toks: Vec<&str> = s.split_whitespace().collect();
    let mut it = toks.iter();
    let v = parse(&mut it)?;
    if it.next().is_some() {
        return None;
    }
    Some(v)
}

/// element kinds of arrays: 0 described, 1 null, 22 list, 23 map, 24 array are the
/// known-finding class; the rest are supported
pub fn kind(v: &Value) -> u32 {
    match v {
        Value::Described(_) => 0,
        Value::Null => 1,
        Value::Bool(_) => 2,
        Value::Ubyte(_) => 3,
        Value::Ushort(_) => 4,
        Value::Uint(_) => 5,
        Value::Ulong(_) => 6,
        Value::Byte(_) => 7,
        Value::Short(_) => 8,
        Value::Int(_) => 9,
        Value::Long(_) => 10,
        Value::Float(_) => 11,
        Value::Double(_) => 12,
        Value::Decimal32(_) => 13,
        Value::Decimal64(_) => 14,
        Value::Decimal128(_) => 15,
        Value::Char(_) => 16,
        Value::Timestamp(_) => 17,
        Value::Uuid(_) => 18,
        Value::Binary(_) => 19,
        Value::String(_) => 20,
        Value::Symbol(_) => 21,
        Value::List(_) => 22,
        Value::Map(_) => 23,
        Value::Array(_) => 24,
    }
}

/// Does the value contain an array whose elements are null / list / map / array /
/// described (the class `array-of-null-compound-described`)?
pub fn has_unsupported_array(v: &Value) -> bool {
    match v {
        Value::Described(d) => has_unsupported_array(&d.value),
        Value::List(l) => l.iter().any(has_unsupported_array),
        Value::Map(m) => m.iter().any(|(k, x)| has_unsupported_array(k) || has_unsupported_array(x)),
        Value::Array(a) => {
            a.0.first().map(|x| matches!(kind(x), 0 | 1 | 22 | 23 | 24)).unwrap_or(false)
                || a.0.iter().any(has_unsupported_array)
        }
        _ => false,
    }
}

/// Does the value contain an array with a described element (where SizeSerializer and
/// Serializer differ: class `c20-size-described-array-elems`)?
pub fn has_described_array_elem(v: &Value) -> bool {
    match v {
        Value::Described(d) => has_described_array_elem(&d.value),
        Value::List(l) => l.iter().any(has_described_array_elem),
        Value::Map(m) => m.iter().any(|(k, x)| has_described_array_elem(k) || has_described_array_elem(x)),
        Value::Array(a) => a.0.iter().any(|x| matches!(x, Value::Described(_)) || has_described_array_elem(x)),
        _ => false,
    }
}

/// counts (list32/map32/array elements) above the decoder's cap
pub fn exceeds_count_cap(v: &Value) -> bool {
    match v {
        Value::Described(d) => exceeds_count_cap(&d.value),
        Value::List(l) => l.len() > 65536 || l.iter().any(exceeds_count_cap),
        Value::Map(m) => 2 * m.len() > 65536 || m.iter().any(|(k, x)| exceeds_count_cap(k) || exceeds_count_cap(x)),
        Value::Array(a) => a.0.len() > 65536 || a.0.iter().any(exceeds_count_cap),
        _ => false,
    }
}

fn boundary_len(r: &mut Rng) -> usize {
    match r.below(12) {
        0 => 0,
        1 => 1,
        2 => 253,
        3 => 254,
        4 => 255,
        5 => 256,
        6 => 257,
        _ => r.below(12) as usize,
    }
}

fn gen_string(r: &mut Rng) -> String {
    let n = boundary_len(r);
    let mut s = String::new();
    let alphabet: [char; 12] = ['a', 'Z', '0', ' ', '\u{e9}', '\u{df}', '\u{20ac}', '\u{4e2d}', '\u{1f600}', '\u{10ffff}', '\u{7f}', '\u{0}'];
    let ascii_only = r.chance(1, 2);
    while s.len() < n {
        let c = if ascii_only { *r.pick(&alphabet[..4]) } else { *r.pick(&alphabet) };
        if s.len() + c.len_utf8() > n && n >= 253 {
            s.push('x');
        } else {
            s.push(c);
        }
    }
    s
}

fn edge_u64(r: &mut Rng, bits: u32) -> u64 {
    let max = if bits == 64 { u64::MAX } else { (1u64 << bits) - 1 };
    let v = match r.below(10) {
        0 => 0,
        1 => 1,
        2 => 127,
        3 => 128,
        4 => 255,
        5 => 256,
        6 => max,
        7 => max - 127,
        8 => max - 128,
        _ => r.next(),
    };
    v & max
}

pub fn gen_scalar_of_kind(r: &mut Rng, k: u32) -> Value {
    match k {
        1 => Value::Null,
        2 => Value::Bool(r.chance(1, 2)),
        3 => Value::Ubyte(edge_u64(r, 8) as u8),
        4 => Value::Ushort(edge_u64(r, 16) as u16),
        5 => Value::Uint(edge_u64(r, 32) as u32),
        6 => Value::Ulong(edge_u64(r, 64)),
        7 => Value::Byte(edge_u64(r, 8) as u8 as i8),
        8 => Value::Short(edge_u64(r, 16) as u16 as i16),
        9 => Value::Int(edge_u64(r, 32) as u32 as i32),
        10 => Value::Long(edge_u64(r, 64) as i64),
        11 => Value::Float(f32::from_bits(edge_u64(r, 32) as u32).into()),
        12 => Value::Double(f64::from_bits(edge_u64(r, 64)).into()),
        13 => Value::Decimal32(Dec32::from(<[u8; 4]>::try_from(r.bytes(4)).unwrap())),
        14 => Value::Decimal64(Dec64::from(<[u8; 8]>::try_from(r.bytes(8)).unwrap())),
        15 => Value::Decimal128(Dec128::from(<[u8; 16]>::try_from(r.bytes(16)).unwrap())),
        16 => Value::Char(*r.pick(&['a', '\u{0}', '\u{7f}', '\u{80}', '\u{7ff}', '\u{800}', '\u{d7ff}', '\u{e000}', '\u{ffff}', '\u{10000}', '\u{10ffff}'])),
        17 => Value::Timestamp(Timestamp::from_milliseconds(edge_u64(r, 64) as i64)),
        18 => Value::Uuid(Uuid::from(<[u8; 16]>::try_from(r.bytes(16)).unwrap())),
        19 => {
            let n = boundary_len(r);
            Value::Binary(r.bytes(n).into())
        }
        20 => Value::String(gen_string(r)),
        _ => Value::Symbol(Symbol(gen_string(r))),
    }
}

/// `unsupported`: probability (in 1/100) that an array takes an element kind of the known-finding class
pub fn gen_value(r: &mut Rng, depth: u32, unsupported: u64) -> Value {
    let compound = depth > 0 && r.chance(35, 100);
    if !compound {
        let k = r.range(1, 21) as u32;
        return gen_scalar_of_kind(r, k);
    }
    match r.below(4) {
        0 => {
            let n = if r.chance(1, 20) { 256 + r.below(3) as usize } else { r.below(5) as usize };
            Value::List((0..n).map(|_| gen_value(r, depth - 1, unsupported)).collect())
        }
        1 => {
            let n = r.below(4) as usize;
            let mut m = OrderedMap::new();
            for _ in 0..n {
                let k = gen_value(r, depth - 1, unsupported);
                let v = gen_value(r, depth - 1, unsupported);
                m.insert(k, v);
            }
            Value::Map(m)
        }
        2 => {
            let n = if r.chance(1, 20) { 255 + r.below(3) as usize } else { r.below(5) as usize };
            if r.chance(unsupported, 100) {
                // element kinds of the known-finding class
                match r.below(5) {
                    0 => Value::Array(Array((0..n).map(|_| Value::Null).collect())),
                    1 => Value::Array(Array((0..n).map(|_| Value::List((0..r.below(3)).map(|_| gen_value(r, 0, 0)).collect())).collect())),
                    2 => Value::Array(Array(
                        (0..n)
                            .map(|_| {
                                let mut m = OrderedMap::new();
                                m.insert(gen_value(r, 0, 0), gen_value(r, 0, 0));
                                Value::Map(m)
                            })
                            .collect(),
                    )),
                    3 => Value::Array(Array((0..n).map(|_| Value::Array(Array((0..r.below(3)).map(|_| Value::Uint(r.below(300) as u32)).collect()))).collect())),
                    _ => Value::Array(Array(
                        (0..n)
                            .map(|_| {
                                Value::Described(Box::new(Described {
                                    descriptor: Descriptor::Code(r.below(300)),
                                    value: gen_value(r, 0, 0),
                                }))
                            })
                            .collect(),
                    )),
                }
            } else {
                let k = r.range(2, 21) as u32;
                Value::Array(Array((0..n).map(|_| gen_scalar_of_kind(r, k)).collect()))
            }
        }
        _ => {
            let descriptor = if r.chance(1, 2) {
                Descriptor::Code(edge_u64(r, 64))
            } else {
                Descriptor::Name(Symbol(gen_string(r)))
            };
            Value::Described(Box::new(Described {
                descriptor,
                value: gen_value(r, depth - 1, unsupported),
            }))
        }
    }
}
