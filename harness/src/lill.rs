//! `lill` sub-harness (C12, direct oracle): the LISTENER side of "a frame that is illegal in the current state closes the
//! connection with an error".  A real listener (ConnectionAcceptor) is opened by a scripted peer which then writes one
//! frame that no state of a listener connection without sessions allows - an end, an attach, a flow, a transfer, a
//! disposition or a detach on a channel without session, a second open, a begin that names a remote channel (a listener
//! has begun nothing) - followed by nothing, by a plain close, or by EOF.
//! Oracle: the listener answers the illegal frame with a close that carries an error (class c12-listener-illegal-frame-ignored
//! when it writes nothing or a plain close), writes at most one close and nothing after it (c12-listener-after-close).
//! Case line: `lill frame=<hex> what=<description with _> then=<none|close|eof>`.
use crate::c12::{peer_close, peer_open, wire_frames};
use crate::eng::*;
use crate::out::*;
use fe2o3_amqp::acceptor::ConnectionAcceptor;
use std::time::Duration;

pub fn run_case(frame_hex: &str, then: &str) -> String {
    let body = crate::val::unhex(frame_hex).unwrap_or_default();
    let then = then.to_string();
    paused_rt().block_on(async move {
        let (a, b) = tokio::io::duplex(1 << 20);
        let mut peer = Peer::new(b);
        let app = tokio::spawn(async move {
            match ConnectionAcceptor::builder().container_id("l").build().accept(a).await {
                Err(e) => format!("accept=Err({})", &format!("{:?}", e)[..40.min(format!("{:?}", e).len())]),
                Ok(mut c) => {
                    let r = tokio::time::timeout(Duration::from_secs(600), c.on_close()).await;
                    match r {
                        Ok(Ok(())) => "accept=ok on_close=ok".to_string(),
                        Ok(Err(e)) => format!("accept=ok on_close=Err({})", &format!("{:?}", e)[..60.min(format!("{:?}", e).len())]),
                        Err(_) => "accept=ok on_close=PENDING".to_string(),
                    }
                }
            }
        });
        peer.write(&AMQP_HEADER).await;
        peer.write(&frame_bytes(0, &peer_open(None, 100, 65536), &[])).await;
        for _ in 0..4 {
            barrier().await;
            let _ = peer.drain().await;
        }
        let mut fr = ((body.len() + 4) as u32).to_be_bytes().to_vec();
        fr.extend(body);
        peer.write(&fr).await;
        let mut toks: Vec<String> = Vec::new();
        for _ in 0..6 {
            barrier().await;
            let ws = peer.drain().await;
            if !ws.is_empty() {
                toks.push(tokens(&ws));
            }
        }
        toks.push("|".into());
        match then.as_str() {
            "close" => {
                peer.write(&frame_bytes(0, &peer_close(false), &[])).await;
            }
            "eof" => peer.shutdown().await,
            _ => {}
        }
        for _ in 0..6 {
            barrier().await;
            let ws = peer.drain().await;
            if !ws.is_empty() {
                toks.push(tokens(&ws));
            }
        }
        peer.shutdown().await;
        let res = match tokio::time::timeout(Duration::from_secs(700), app).await {
            Ok(Ok(s)) => s,
            Ok(Err(_)) => "PANIC".to_string(),
            Err(_) => "HANG".to_string(),
        };
        format!("{} # {}", toks.join(","), res)
    })
}

pub fn oracle(trace: &str) -> Vec<(String, String)> {
    let mut v = Vec::new();
    if trace.contains("PANIC") || trace.contains("HANG") {
        v.push(("c12-panic".to_string(), format!("the listener panicked or hung: {}", trace)));
        return v;
    }
    let wire = trace.split('#').next().unwrap_or("");
    let (first, later) = wire.split_once('|').unwrap_or((wire, ""));
    let f: Vec<&str> = first.split(',').map(|t| t.trim()).filter(|t| !t.is_empty()).collect();
    if !f.iter().any(|t| t.starts_with("Ce(")) {
        v.push((
            "c12-listener-illegal-frame-ignored".to_string(),
            format!("the listener did not answer the illegal frame with a close carrying an error (wrote `{}`): {}", first.trim(), trace),
        ));
    }
    let all: Vec<&str> = first.split(',').chain(later.split(',')).map(|t| t.trim()).filter(|t| !t.is_empty()).collect();
    if let Some(p) = all.iter().position(|t| t.starts_with('C')) {
        if all[p + 1..].iter().any(|t| !t.is_empty()) {
            v.push(("c12-listener-after-close".to_string(), format!("the listener wrote {} after its close: {}", all[p + 1..].join(","), trace)));
        }
    }
    v
}

pub fn run(_seed: u64, _n: u64, _thorough: bool, _corpus: &[String], dir: &str) {
    crate::codec::quiet_panics();
    let mut out = Outputs::new(dir);
    let illegal_for_a_listener = [
        "begin naming an unknown channel",
        "end on an unmapped channel",
        "end with an error on an unmapped channel",
        "flow on an unmapped channel",
        "transfer on an unmapped channel",
        "disposition on an unmapped channel",
        "detach on an unmapped channel",
        "a second open",
    ];
    for (hx, what) in wire_frames() {
        if !illegal_for_a_listener.contains(&what) {
            continue;
        }
        for then in ["none", "close", "eof"] {
            let line = format!("lill frame={} what={} then={}", hx, what.replace(' ', "_"), then);
            let t = run_case(&hx, then);
            out.count(&format!("frame: {}", what));
            out.nontrivial(&line);
            for (c, w) in oracle(&t) {
                out.violation(&c, &w, &line);
            }
            out.case(&line, &t);
        }
    }
    out.finish(dir);
}
