//! C17 (idle time-outs): the real client connection under the paused clock against a scripted
//! peer; every frame the endpoint writes is stamped with the virtual time of the write.
//!
//! case line: `c17 L <ms|-> | <stim> <dt> ; ...` with stimuli `po <ms|->` (peer open carrying
//! an idle-time-out), `pz` (peer empty frame), `pc` (peer close), `close`, `closee`, `w` (nothing);
//! after each stimulus `dt` ms of virtual time pass.  Time 0 is the instant the peer's protocol
//! header is written.
use crate::c12::{peer_close, peer_open};
use crate::eng::*;
use crate::out::*;
use crate::rng::Rng;
use fe2o3_amqp::connection::ConnectionHandle;
use fe2o3_amqp::Connection;
use fe2o3_amqp_types::definitions::{self, AmqpError};
use fe2o3_amqp_types::performatives::Performative;
use std::time::Duration;
use tokio::task::JoinHandle;

fn res_name(dbg: &str) -> String {
    if dbg.contains("IdleTimeoutElapsed") {
        "IdleTimeout".into()
    } else if dbg.starts_with("RemoteClosedWithError") {
        "RemoteClosedWithError".into()
    } else if dbg.starts_with("RemoteClosed") {
        "RemoteClosed".into()
    } else {
        dbg.split(|c| c == '(' || c == '{' || c == ' ').next().unwrap_or(dbg).to_string()
    }
}

pub fn parse_opt(s: &str) -> Option<u32> {
    if s == "-" {
        None
    } else {
        Some(s.parse().unwrap())
    }
}

pub fn run_case(line: &str) -> String {
    let rest = line.strip_prefix("c17 ").unwrap();
    let (hd, script) = rest.split_once('|').unwrap();
    let hw: Vec<&str> = hd.split_whitespace().collect();
    let local = parse_opt(hw[1]);
    let evs: Vec<String> = script.split(';').map(|s| s.trim().to_string()).filter(|s| !s.is_empty()).collect();
    paused_rt().block_on(async move {
        let (a, b) = tokio::io::duplex(1 << 20);
        let start = tokio::time::Instant::now();
        let t0 = start + Duration::from_millis(4);
        let mut peer = TimedPeer::new(b, t0);
        let mut open_task: Option<JoinHandle<Result<ConnectionHandle<()>, fe2o3_amqp::connection::OpenError>>> =
            Some(tokio::spawn(async move {
                let mut bld = Connection::builder().container_id("c").max_frame_size(1024u32);
                if let Some(l) = local {
                    bld = bld.idle_time_out(l);
                }
                bld.open_with_stream(a).await
            }));
        tokio::time::sleep(Duration::from_millis(4)).await;
        peer.write(&AMQP_HEADER).await;
        let mut conn: Option<ConnectionHandle<()>> = None;
        let mut close_task: Option<JoinHandle<(ConnectionHandle<()>, String)>> = None;
        let mut begin_tasks: Vec<JoinHandle<ConnectionHandle<()>>> = Vec::new();
        let mut advertised = String::from("?");
        let mut out = String::new();
        let mut eof_reported = false;
        for ev in &evs {
            let w: Vec<&str> = ev.split_whitespace().collect();
            let dt: u64 = w.last().unwrap().parse().unwrap();
            match w[0] {
                "w" => {}
                "po" => {
                    peer.write(&frame_bytes(0, &peer_open(parse_opt(w[1]), 10, 1024), &[])).await;
                }
                "pz" => {
                    peer.write(&empty_frame()).await;
                }
                "pc" => {
                    peer.write(&frame_bytes(0, &peer_close(false), &[])).await;
                }
                "begin" => {
                    // outgoing traffic of the application: a begin (never answered by the peer); the handle stays with the task
                    if let Some(mut h) = conn.take() {
                        begin_tasks.push(tokio::spawn(async move {
                            let _ = fe2o3_amqp::Session::begin(&mut h).await;
                            h
                        }));
                    }
                }
                "close" | "closee" => {
                    if let Some(mut h) = conn.take() {
                        let with_err = w[0] == "closee";
                        close_task = Some(tokio::spawn(async move {
                            let r = if with_err {
                                h.close_with_error(definitions::Error::new(AmqpError::NotAllowed, None, None)).await
                            } else {
                                h.close().await
                            };
                            (h, match r { Ok(()) => "ok".to_string(), Err(e) => res_name(&format!("{:?}", e)) })
                        }));
                    }
                }
                _ => panic!("bad c17 event {}", ev),
            }
            tokio::time::sleep(Duration::from_millis(dt)).await;
            let mut wire: Vec<String> = Vec::new();
            for (t, wi) in peer.take() {
                match &wi {
                    Wire::Header(_) => {}
                    Wire::Frame { perf: Performative::Open(o), .. } => {
                        advertised = o.idle_time_out.map(|v| v.to_string()).unwrap_or("-".into());
                    }
                    _ => wire.push(format!("{}@{}", wire_token(&wi).split('(').next().unwrap(), t)),
                }
            }
            let mut obs: Vec<String> = vec![wire.join(",")];
            if let Some(t) = &open_task {
                if t.is_finished() {
                    match open_task.take().unwrap().await {
                        Ok(Ok(h)) => {
                            conn = Some(h);
                            obs.push("open=ok".into());
                        }
                        Ok(Err(_)) => obs.push("open=err".into()),
                        Err(_) => obs.push("open=PANIC".into()),
                    }
                }
            }
            if let Some(t) = &close_task {
                if t.is_finished() {
                    match close_task.take().unwrap().await {
                        Ok((_h, r)) => obs.push(format!("close={}", r)),
                        Err(_) => obs.push("close=PANIC".into()),
                    }
                }
            }
            if let (Some(t), false) = (peer.eof_at, eof_reported) {
                eof_reported = true;
                obs.push(format!("EOF@{}", t));
            }
            out.push_str(&obs.join(" "));
            out.push_str(" ; ");
        }
        let mut fin = Vec::new();
        if open_task.is_some() {
            fin.push("open=PENDING".to_string());
        }
        if close_task.is_some() {
            fin.push("close=PENDING".into());
        }
        // a begin() that has returned (the connection stopped under it) gives the handle back
        if conn.is_none() {
            for t in begin_tasks.drain(..) {
                if t.is_finished() {
                    if let Ok(h) = t.await {
                        conn = Some(h);
                    }
                } else {
                    fin.push("running".to_string());
                    t.abort();
                }
            }
        }
        if let Some(mut h) = conn {
            if h.is_closed() {
                let r = tokio::time::timeout(Duration::from_millis(5), h.on_close()).await;
                fin.push(match r {
                    Ok(Ok(())) => "stopped=ok".into(),
                    Ok(Err(e)) => format!("stopped={}", res_name(&format!("{:?}", e))),
                    Err(_) => "stopped=PENDING".into(),
                });
            } else {
                fin.push("running".into());
            }
        }
        format!("adv={} ; {}# {}", advertised, out, fin.join(" "))
    })
}

/// the property, checked directly on the time-stamped trace
pub fn direct_oracle(line: &str, trace: &str) -> Vec<String> {
    let mut v = Vec::new();
    let rest = line.strip_prefix("c17 ").unwrap();
    let (hd, script) = rest.split_once('|').unwrap();
    let local = parse_opt(hd.split_whitespace().nth(1).unwrap()).filter(|l| *l > 0).map(|l| l as u64);
    let evs: Vec<Vec<String>> = script
        .split(';')
        .map(|s| s.split_whitespace().map(|x| x.to_string()).collect::<Vec<_>>())
        .filter(|s: &Vec<String>| !s.is_empty())
        .collect();
    let body = trace.split('#').next().unwrap_or("");
    let steps: Vec<&str> = body.split(';').map(|s| s.trim()).collect();
    // steps[0] is adv=..
    let mut now: u64 = 0;
    let mut remote: Option<u64> = None;
    let mut opened_at: Option<u64> = None; // open and no close written
    let mut open_until: Option<u64> = None;
    let mut last_arrival: u64 = 0; // the transport is created at time 0
    let mut sends: Vec<u64> = Vec::new();
    let mut stopped_at: Option<u64> = None;
    let timed_out = trace.contains("IdleTimeout");
    for (i, e) in evs.iter().enumerate() {
        let st = steps.get(i + 1).cloned().unwrap_or("");
        let dt: u64 = e.last().unwrap().parse().unwrap();
        if stopped_at.is_none() {
            match e[0].as_str() {
                "po" => {
                    if opened_at.is_none() {
                        remote = parse_opt(&e[1]).filter(|r| *r > 0).map(|r| r as u64);
                        opened_at = Some(now);
                    }
                    last_arrival = now;
                }
                "pz" | "pc" => last_arrival = now,
                _ => {}
            }
        }
        for tok in st.split_whitespace().flat_map(|t| t.split(',')) {
            if let Some((k, t)) = tok.split_once('@') {
                let t: u64 = t.parse().unwrap_or(0);
                match k {
                    "EOF" => {
                        if stopped_at.is_none() {
                            stopped_at = Some(t);
                        }
                        if open_until.is_none() {
                            open_until = Some(t);
                        }
                    }
                    "C" | "Ce" => {
                        sends.push(t);
                        if open_until.is_none() {
                            open_until = Some(t);
                        }
                    }
                    _ => {
                        if open_until.is_some() {
                            v.push(format!("frame-after-close: {} written after the close", tok));
                        }
                        sends.push(t)
                    }
                }
            }
        }
        // local deadline: while running, the silence never reaches L
        if let (Some(l), None) = (local, stopped_at) {
            if now + dt >= last_arrival + l {
                v.push(format!("idle-not-enforced: nothing arrived since {} (local idle-time-out {}), still running at {}", last_arrival, l, now + dt));
            }
        }
        now += dt;
    }
    // the deadline fired: it must be exactly one time-out after the last arrival before it
    if timed_out {
        match (local, stopped_at) {
            (Some(l), Some(t)) => {
                // recompute the last arrival strictly before t
                let mut tt = 0u64;
                let mut la = 0u64;
                for e in &evs {
                    if tt >= t {
                        break;
                    }
                    match e[0].as_str() {
                        "po" => la = tt,
                        "pz" | "pc" => la = tt,
                        _ => {}
                    }
                    tt += e.last().unwrap().parse::<u64>().unwrap();
                }
                if t != la + l {
                    v.push(format!("idle-early: time-out at {} but the last frame arrived at {} and the time-out is {}", t, la, l));
                }
            }
            _ => v.push("idle-spurious: a time-out was reported without a configured idle-time-out".into()),
        }
    }
    // heartbeat: while open, no window of the peer's idle-time-out without a frame
    if let (Some(r), Some(t_o)) = (remote, opened_at) {
        let end = open_until.unwrap_or(now);
        let mut pts: Vec<u64> = sends.iter().cloned().filter(|s| *s >= t_o && *s <= end).collect();
        pts.sort();
        let mut prev = t_o;
        for s in pts.iter().chain(std::iter::once(&end)) {
            if s - prev > r {
                v.push(format!("heartbeat-gap: nothing sent between {} and {} (peer idle-time-out {})", prev, s, r));
                break;
            }
            prev = *s;
        }
    }
    v
}

pub fn gen_case(r: &mut Rng, thorough: bool) -> String {
    // residues: stimuli after the peer's open at 4 mod 8, heartbeat ticks at 0 mod 8, deadlines at 2/6 mod 8 - no two
    // things ever happen in the same millisecond, so every trace is deterministic
    let locals: [&str; 8] = ["-", "-", "0", "50", "98", "202", "1002", "34"];
    let remotes: [&str; 8] = ["-", "0", "16", "40", "96", "200", "1000", "24"];
    let l = *r.pick(&locals);
    let rm = *r.pick(&remotes);
    let lv: u64 = l.parse().unwrap_or(0);
    let rv: u64 = rm.parse().unwrap_or(0);
    let mut evs: Vec<String> = Vec::new();
    let pick_dt = |r: &mut Rng| -> u64 {
        let base: [u64; 8] = [8, 8, 16, 24, 40, 48, 104, 208];
        let mut c: Vec<u64> = base.to_vec();
        if lv > 2 {
            // just below / just above the local time-out
            c.push(lv - 2);
            c.push(lv + 6);
            c.push(lv - 10.min(lv - 2));
        }
        if rv >= 8 {
            c.push(rv - 8);
            c.push(rv);
            c.push(rv + 8);
            c.push(3 * rv);
        }
        let d = *r.pick(&c);
        ((d + 7) / 8 * 8).max(8)
    };
    // delays before the peer opens
    for _ in 0..r.below(3) {
        evs.push(format!("w {}", pick_dt(r)));
    }
    // the step after the open is 4 mod 8 long
    evs.push(format!("po {} {}", rm, pick_dt(r) + 4));
    let n = r.range(1, if thorough { 14 } else { 8 });
    if r.below(5) == 0 {
        // outgoing traffic of the application in the middle of the heart-beat schedule: one begin (never answered) at some
        // point, otherwise only waiting and empty frames from the peer (the handle stays with the begin() call)
        let at = r.below(n);
        for i in 0..n {
            let e = if i == at { "begin" } else if r.below(3) == 0 { "pz" } else { "w" };
            evs.push(format!("{} {}", e, pick_dt(r)));
        }
        return format!("c17 L {} | {}", l, evs.join(" ; "));
    }
    for _ in 0..n {
        let e = match r.below(12) {
            0..=4 => "w",
            5..=8 => "pz",
            9 => "close",
            10 => "closee",
            _ => "pc",
        };
        evs.push(format!("{} {}", e, pick_dt(r)));
    }
    format!("c17 L {} | {}", l, evs.join(" ; "))
}

pub fn run(seed: u64, n: u64, thorough: bool, corpus: &[String], dir: &str) {
    crate::codec::quiet_panics();
    let mut out = Outputs::new(dir);
    let mut r = Rng::new(seed);
    let mut lines: Vec<String> = Vec::new();
    for l in corpus {
        if l.starts_with("c17 ") {
            out.count("corpus_cases");
            lines.push(l.clone());
        }
    }
    for _ in 0..n {
        lines.push(gen_case(&mut r, thorough));
    }
    for line in lines {
        let t = run_case(&line);
        out.count(&format!("local_{}", line.split_whitespace().nth(2).unwrap_or("?")));
        if t.contains("Z@") {
            out.count("with_heartbeats");
        }
        if t.contains("IdleTimeout") {
            out.count("timed_out");
        }
        if t.contains("Z@") || t.contains("IdleTimeout") {
            out.nontrivial(&line);
        }
        for v in direct_oracle(&line, &t) {
            let class = v.split(':').next().unwrap_or("?").to_string();
            // writing after the close is the lifecycle property's business
            let pfx = if class == "frame-after-close" { "c12" } else { "c17" };
            out.violation(&format!("{}-{}", pfx, class), &format!("{}-{} | `{}` -> {}", pfx, v, line, t), &line);
        }
        out.case(&line, &t);
    }
    out.finish(dir);
}
