//! `lwin` sub-harness (C07, direct oracle): the session window on the LISTENER side when the peer pipelines.
//! A scripted peer writes header, open, begin (incoming-window W0), attach of a receiving link and a flow that carries link
//! credit AND a new session window W1 - all before the listener's application has accepted session and link (variant
//! `late`: the flow is written only after the link was accepted).  The application then accepts the link (a sender on the
//! listener's side) and sends K pre-settled messages.
//! Oracle: every transfer-id the listener writes lies inside the window the peer advertised LAST (next-incoming-id .. +W1):
//! class c07-listener-window-overrun; with W1 >= 1 at least one transfer goes out (c07-listener-held-back).
//! Case line: `lwin w0=<n> w1=<n> k=<n> when=<pipelined|late>`.
use crate::c12::peer_open;
use crate::eng::*;
use crate::out::*;
use crate::rng::Rng;
use fe2o3_amqp::acceptor::{ConnectionAcceptor, LinkAcceptor, LinkEndpoint, SessionAcceptor};
use fe2o3_amqp_types::definitions::{ReceiverSettleMode, Role, SenderSettleMode};
use fe2o3_amqp_types::messaging::{Source, Target};
use fe2o3_amqp_types::performatives::{Attach, Begin, Flow, Performative};
use std::time::Duration;

fn peer_attach() -> Performative {
    Performative::Attach(Attach {
        name: "lk".into(),
        handle: 0.into(),
        role: Role::Receiver,
        snd_settle_mode: SenderSettleMode::Settled,
        rcv_settle_mode: ReceiverSettleMode::First,
        source: Some(Box::new(Source::builder().address("q").build())),
        target: Some(Box::new(Target::builder().address("q").build().into())),
        unsettled: None,
        incomplete_unsettled: false,
        initial_delivery_count: None,
        max_message_size: None,
        offered_capabilities: None,
        desired_capabilities: None,
        properties: None,
    })
}

pub fn run_case(w0: u32, w1: u32, k: usize, pipelined: bool) -> String {
    paused_rt().block_on(async move {
        let (a, b) = tokio::io::duplex(1 << 20);
        let mut peer = Peer::new(b);
        let begin = Performative::Begin(Begin {
            remote_channel: None,
            next_outgoing_id: 0,
            incoming_window: w0,
            outgoing_window: 100,
            handle_max: Default::default(),
            offered_capabilities: None,
            desired_capabilities: None,
            properties: None,
        });
        let flow = Performative::Flow(Flow {
            next_incoming_id: Some(0),
            incoming_window: w1,
            next_outgoing_id: 0,
            outgoing_window: 100,
            handle: Some(0.into()),
            delivery_count: Some(0),
            link_credit: Some(100),
            available: None,
            drain: false,
            echo: false,
            properties: None,
        });
        let mut first = AMQP_HEADER.to_vec();
        first.extend(frame_bytes(0, &peer_open(None, 100, 65536), &[]));
        first.extend(frame_bytes(0, &begin, &[]));
        first.extend(frame_bytes(0, &peer_attach(), &[]));
        if pipelined {
            first.extend(frame_bytes(0, &flow, &[]));
        }
        peer.write(&first).await;
        let (ready_tx, ready_rx) = tokio::sync::oneshot::channel::<()>();
        let app = tokio::spawn(async move {
            let mut conn = ConnectionAcceptor::builder().container_id("l").build().accept(a).await.map_err(|e| format!("conn:{:?}", e))?;
            let mut sess = SessionAcceptor::builder().build().accept(&mut conn).await.map_err(|e| format!("sess:{:?}", e))?;
            let link = LinkAcceptor::builder().build().accept(&mut sess).await.map_err(|e| format!("link:{:?}", e))?;
            let mut sender = match link {
                LinkEndpoint::Sender(s) => s,
                _ => return Err("wrong role".to_string()),
            };
            let _ = ready_tx.send(());
            let mut ok = 0;
            for i in 0..k {
                // pre-settled (the peer asked for snd-settle-mode settled): returns once the session has taken the transfer
                match tokio::time::timeout(Duration::from_secs(5), sender.send(format!("m{}", i))).await {
                    Ok(Ok(_)) => ok += 1,
                    _ => break,
                }
            }
            tokio::time::sleep(Duration::from_secs(30)).await;
            drop(sender);
            drop(sess);
            drop(conn);
            Ok::<usize, String>(ok)
        });
        let mut toks: Vec<String> = Vec::new();
        let mut late_sent = pipelined;
        let mut ready_rx = Some(ready_rx);
        for _ in 0..200 {
            barrier().await;
            let ws = peer.drain().await;
            if !ws.is_empty() {
                toks.push(tokens(&ws));
            }
            if !late_sent {
                if let Some(rx) = ready_rx.as_mut() {
                    if rx.try_recv().is_ok() {
                        peer.write(&frame_bytes(0, &flow, &[])).await;
                        late_sent = true;
                        ready_rx = None;
                    }
                }
            }
        }
        app.abort();
        toks.join(",")
    })
}

/// `lwin ord w=<n> first=<n> then=<n>`: order of the transfers of ONE link when the window closes and re-opens through a flow
/// that names a link the application has not accepted yet.  The peer opens with incoming-window `w`; the application
/// (sender on the listener's side) sends `first` pre-settled messages of lengths 1, 2, ..: `w` go out, the rest is held
/// back by the session.  The peer then pipelines the attach of a second link and a flow for THAT link which also carries a
/// wide session window, the application sends `then` more messages on the first link, and a last flow for the first link
/// follows.  Oracle: the payloads arrive in the order they were sent (class c01-listener-overtake), all of them
/// (c01-listener-lost).
pub fn run_ord(w: u32, first_n: usize, then_n: usize) -> String {
    paused_rt().block_on(async move {
        let (a, b) = tokio::io::duplex(1 << 20);
        let mut peer = Peer::new(b);
        let begin = Performative::Begin(Begin {
            remote_channel: None,
            next_outgoing_id: 0,
            incoming_window: w,
            outgoing_window: 100,
            handle_max: Default::default(),
            offered_capabilities: None,
            desired_capabilities: None,
            properties: None,
        });
        let flow_of = |handle: u32, next_in: u32, window: u32| {
            Performative::Flow(Flow {
                next_incoming_id: Some(next_in),
                incoming_window: window,
                next_outgoing_id: 0,
                outgoing_window: 100,
                handle: Some(handle.into()),
                delivery_count: Some(0),
                link_credit: Some(100),
                available: None,
                drain: false,
                echo: false,
                properties: None,
            })
        };
        let mut bytes = AMQP_HEADER.to_vec();
        bytes.extend(frame_bytes(0, &peer_open(None, 100, 65536), &[]));
        bytes.extend(frame_bytes(0, &begin, &[]));
        bytes.extend(frame_bytes(0, &peer_attach(), &[]));
        bytes.extend(frame_bytes(0, &flow_of(0, 0, w), &[]));
        peer.write(&bytes).await;
        let (stage_tx, mut stage_rx) = tokio::sync::mpsc::unbounded_channel::<u8>();
        let (go_tx, go_rx) = tokio::sync::oneshot::channel::<()>();
        let app = tokio::spawn(async move {
            let mut conn = ConnectionAcceptor::builder().container_id("l").build().accept(a).await.map_err(|e| format!("conn:{:?}", e))?;
            let mut sess = SessionAcceptor::builder().build().accept(&mut conn).await.map_err(|e| format!("sess:{:?}", e))?;
            let link = LinkAcceptor::builder().build().accept(&mut sess).await.map_err(|e| format!("link:{:?}", e))?;
            let mut sender = match link {
                LinkEndpoint::Sender(s) => s,
                _ => return Err("wrong role".to_string()),
            };
            let mut len = 0usize;
            for _ in 0..first_n {
                len += 1;
                if !matches!(tokio::time::timeout(Duration::from_secs(5), sender.send("x".repeat(len))).await, Ok(Ok(_))) {
                    return Err(format!("send {} did not return", len));
                }
            }
            let _ = stage_tx.send(1);
            let _ = go_rx.await;
            for _ in 0..then_n {
                len += 1;
                if !matches!(tokio::time::timeout(Duration::from_secs(5), sender.send("x".repeat(len))).await, Ok(Ok(_))) {
                    return Err(format!("send {} did not return", len));
                }
            }
            let _ = stage_tx.send(2);
            tokio::time::sleep(Duration::from_secs(30)).await;
            drop(sender);
            drop(sess);
            drop(conn);
            Ok::<(), String>(())
        });
        let mut ws: Vec<Wire> = Vec::new();
        let mut go = Some(go_tx);
        let mut stage = 0u8;
        let mut idle = 0;
        for _ in 0..400 {
            barrier().await;
            let got = peer.drain().await;
            idle = if got.is_empty() { idle + 1 } else { 0 };
            ws.extend(got);
            if let Ok(x) = stage_rx.try_recv() {
                stage = x;
                idle = 0;
            }
            if stage == 1 && idle >= 2 {
                if let Some(tx) = go.take() {
                    // a second link, pipelined with a flow for it; the flow also says that the peer has taken what was sent
                    // so far and opens the session window wide
                    let seen = ws.iter().filter(|x| matches!(x, Wire::Frame { perf: Performative::Transfer(_), .. })).count() as u32;
                    let mut second = match peer_attach() {
                        Performative::Attach(a) => a,
                        _ => unreachable!(),
                    };
                    second.name = "lk2".into();
                    second.handle = 1.into();
                    let mut b2 = frame_bytes(0, &Performative::Attach(second), &[]);
                    b2.extend(frame_bytes(0, &flow_of(1, seen, 50), &[]));
                    peer.write(&b2).await;
                    for _ in 0..3 {
                        barrier().await;
                        ws.extend(peer.drain().await);
                    }
                    let _ = tx.send(());
                }
            }
            if stage == 2 && idle >= 2 {
                let seen = ws.iter().filter(|x| matches!(x, Wire::Frame { perf: Performative::Transfer(_), .. })).count() as u32;
                peer.write(&frame_bytes(0, &flow_of(0, seen, 50), &[])).await;
                stage = 3;
                idle = 0;
            }
            if stage == 3 && idle >= 3 {
                break;
            }
        }
        let res = if app.is_finished() { format!("{:?}", app.await.ok()) } else { app.abort(); "running".to_string() };
        let lens: Vec<String> = ws
            .iter()
            .filter_map(|x| match x {
                Wire::Frame { perf: Performative::Transfer(_), payload, .. } => Some(payload.len().to_string()),
                _ => None,
            })
            .collect();
        format!("lens={} app={}", lens.join("+"), res.replace(' ', ""))
    })
}

pub fn oracle_ord(first_n: usize, then_n: usize, trace: &str) -> Vec<(String, String)> {
    let mut v = Vec::new();
    let lens: Vec<usize> = trace.split_whitespace().find_map(|t| t.strip_prefix("lens=")).unwrap_or("").split('+').filter_map(|x| x.parse().ok()).collect();
    if lens.windows(2).any(|p| p[0] >= p[1]) {
        v.push((
            "c01-listener-overtake".to_string(),
            format!("the messages of one link were sent with growing payloads; on the wire their payload lengths are {:?}: a later message overtook transfers the session was still holding back", lens),
        ));
    }
    if trace.contains("app=running") && lens.len() < first_n + then_n {
        v.push(("c01-listener-lost".to_string(), format!("{} messages were sent, {} transfers were written although the peer's last flow leaves room for all: {}", first_n + then_n, lens.len(), trace)));
    }
    v
}

pub fn oracle(w1: u32, k: usize, trace: &str) -> Vec<(String, String)> {
    let mut v = Vec::new();
    // transfer tokens are `T<ch>h<handle>d<id>p<len>` (first frames carry the delivery-id = transfer-id for single-frame messages)
    let n_t = trace.split(',').filter(|t| t.starts_with('T')).count();
    if n_t as u32 > w1 {
        v.push((
            "c07-listener-window-overrun".to_string(),
            format!("the peer's last flow allows transfer-ids 0 .. {} (incoming-window {}); the listener wrote {} transfers: {}", w1, w1, n_t, trace),
        ));
    }
    if w1 >= 1 && k >= 1 && n_t == 0 {
        v.push(("c07-listener-held-back".to_string(), format!("the window is open ({}), no transfer was written: {}", w1, trace)));
    }
    v
}

pub fn run(seed: u64, n: u64, _thorough: bool, _corpus: &[String], dir: &str) {
    crate::codec::quiet_panics();
    let mut out = Outputs::new(dir);
    let mut r = Rng::new(seed ^ 0x6c77);
    let mut cases: Vec<(u32, u32, usize, bool)> = Vec::new();
    for pipelined in [true, false] {
        for (w0, w1) in [(5u32, 1u32), (5, 0), (1, 5), (100, 2), (2, 2), (0, 3)] {
            cases.push((w0, w1, 4, pipelined));
        }
    }
    for _ in 0..n {
        cases.push((r.below(8) as u32, r.below(8) as u32, 1 + r.below(9) as usize, r.chance(2, 3)));
    }
    if n > 0 {
        for (w, first_n, then_n) in [(1u32, 3usize, 1usize), (1, 4, 2), (2, 4, 1), (2, 3, 3), (3, 5, 2), (1, 2, 1)] {
            let line = format!("lwin ord w={} first={} then={}", w, first_n, then_n);
            let t = run_ord(w, first_n, then_n);
            out.count("ord");
            if t.contains('+') {
                out.nontrivial(&line);
            }
            for (c, wh) in oracle_ord(first_n, then_n, &t) {
                out.violation(&c, &wh, &line);
            }
            out.case(&line, &t);
        }
    }
    for (w0, w1, k, pipelined) in cases {
        let line = format!("lwin w0={} w1={} k={} when={}", w0, w1, k, if pipelined { "pipelined" } else { "late" });
        let t = run_case(w0, w1, k, pipelined);
        out.count(if pipelined { "pipelined" } else { "late" });
        if t.contains('T') {
            out.nontrivial(&line);
        }
        for (c, w) in oracle(w1, k, &t) {
            out.violation(&c, &w, &line);
        }
        out.case(&line, &t);
    }
    out.finish(dir);
}
