//! `lwin` sub-harness (C07, direct oracle): the session window on the LISTENER side when the peer pipelines.
//! A scripted peer writes header, open, begin (incoming-window W0), attach of a receiving link and a flow that carries link
//! credit AND a new session window W1 - all before the listener's application has accepted session and link (variant
//! `late`: the flow is written only after the link was accepted).  The application then accepts the link (a sender on the
//! listener's side) and sends K pre-settled messages.
//! Oracle: every transfer-id the listener writes lies inside the window the peer advertised LAST (next-incoming-id .. +W1):
//! class c07-listener-window-overrun; with W1 >= 1 at least one transfer goes out (c07-listener-held-back).
//! Case line: `lwin w0=<n> w1=<n> k=<n> when=<pipelined|late>`.
use crate::c12::peer_open;
use crate::eng::*;
use crate::out::*;
use crate::rng::Rng;
use fe2o3_amqp::acceptor::{ConnectionAcceptor, LinkAcceptor, LinkEndpoint, SessionAcceptor};
use fe2o3_amqp_types::definitions::{ReceiverSettleMode, Role, SenderSettleMode};
use fe2o3_amqp_types::messaging::{Source, Target};
use fe2o3_amqp_types::performatives::{Attach, Begin, Flow, Performative};
use std::time::Duration;

fn peer_attach() -> Performative {
    Performative::Attach(Attach {
        name: "lk".into(),
        handle: 0.into(),
        role: Role::Receiver,
        snd_settle_mode: SenderSettleMode::Settled,
        rcv_settle_mode: ReceiverSettleMode::First,
        source: Some(Box::new(Source::builder().address("q").build())),
        target: Some(Box::new(Target::builder().address("q").build().into())),
        unsettled: None,
        incomplete_unsettled: false,
        initial_delivery_count: None,
        max_message_size: None,
        offered_capabilities: None,
        desired_capabilities: None,
        properties: None,
    })
}

pub fn run_case(w0: u32, w1: u32, k: usize, pipelined: bool) -> String {
    paused_rt().block_on(async move {
        let (a, b) = tokio::io::duplex(1 << 20);
        let mut peer = Peer::new(b);
        let begin = Performative::Begin(Begin {
            remote_channel: None,
            next_outgoing_id: 0,
            incoming_window: w0,
            outgoing_window: 100,
            handle_max: Default::default(),
            offered_capabilities: None,
            desired_capabilities: None,
            properties: None,
        });
        let flow = Performative::Flow(Flow {
            next_incoming_id: Some(0),
            incoming_window: w1,
            next_outgoing_id: 0,
            outgoing_window: 100,
            handle: Some(0.into()),
            delivery_count: Some(0),
            link_credit: Some(100),
            available: None,
            drain: false,
            echo: false,
            properties: None,
        });
        let mut first = AMQP_HEADER.to_vec();
        first.extend(frame_bytes(0, &peer_open(None, 100, 65536), &[]));
        first.extend(frame_bytes(0, &begin, &[]));
        first.extend(frame_bytes(0, &peer_attach(), &[]));
        if pipelined {
            first.extend(frame_bytes(0, &flow, &[]));
        }
        peer.write(&first).await;
        let (ready_tx, ready_rx) = tokio::sync::oneshot::channel::<()>();
        let app = tokio::spawn(async move {
            let mut conn = ConnectionAcceptor::builder().container_id("l").build().accept(a).await.map_err(|e| format!("conn:{:?}", e))?;
            let mut sess = SessionAcceptor::builder().build().accept(&mut conn).await.map_err(|e| format!("sess:{:?}", e))?;
            let link = LinkAcceptor::builder().build().accept(&mut sess).await.map_err(|e| format!("link:{:?}", e))?;
            let mut sender = match link {
                LinkEndpoint::Sender(s) => s,
                _ => return Err("wrong role".to_string()),
            };
            let _ = ready_tx.send(());
            let mut ok = 0;
            for i in 0..k {
                // pre-settled (the peer asked for snd-settle-mode settled): returns once the session has taken the transfer
                match tokio::time::timeout(Duration::from_secs(5), sender.send(format!("m{}", i))).await {
                    Ok(Ok(_)) => ok += 1,
                    _ => break,
                }
            }
            tokio::time::sleep(Duration::from_secs(30)).await;
            drop(sender);
            drop(sess);
            drop(conn);
            Ok::<usize, String>(ok)
        });
        let mut toks: Vec<String> = Vec::new();
        let mut late_sent = pipelined;
        let mut ready_rx = Some(ready_rx);
        for _ in 0..200 {
            barrier().await;
            let ws = peer.drain().await;
            if !ws.is_empty() {
                toks.push(tokens(&ws));
            }
            if !late_sent {
                if let Some(rx) = ready_rx.as_mut() {
                    if rx.try_recv().is_ok() {
                        peer.write(&frame_bytes(0, &flow, &[])).await;
                        late_sent = true;
                        ready_rx = None;
                    }
                }
            }
        }
        app.abort();
        toks.join(",")
    })
}

pub fn oracle(w1: u32, k: usize, trace: &str) -> Vec<(String, String)> {
    let mut v = Vec::new();
    // transfer tokens are `T<ch>h<handle>d<id>p<len>` (first frames carry the delivery-id = transfer-id for single-frame messages)
    let n_t = trace.split(',').filter(|t| t.starts_with('T')).count();
    if n_t as u32 > w1 {
        v.push((
            "c07-listener-window-overrun".to_string(),
            format!("the peer's last flow allows transfer-ids 0 .. {} (incoming-window {}); the listener wrote {} transfers: {}", w1, w1, n_t, trace),
        ));
    }
    if w1 >= 1 && k >= 1 && n_t == 0 {
        v.push(("c07-listener-held-back".to_string(), format!("the window is open ({}), no transfer was written: {}", w1, trace)));
    }
    v
}

pub fn run(seed: u64, n: u64, _thorough: bool, _corpus: &[String], dir: &str) {
    crate::codec::quiet_panics();
    let mut out = Outputs::new(dir);
    let mut r = Rng::new(seed ^ 0x6c77);
    let mut cases: Vec<(u32, u32, usize, bool)> = Vec::new();
    for pipelined in [true, false] {
        for (w0, w1) in [(5u32, 1u32), (5, 0), (1, 5), (100, 2), (2, 2), (0, 3)] {
            cases.push((w0, w1, 4, pipelined));
        }
    }
    for _ in 0..n {
        cases.push((r.below(8) as u32, r.below(8) as u32, 1 + r.below(9) as usize, r.chance(2, 3)));
    }
    for (w0, w1, k, pipelined) in cases {
        let line = format!("lwin w0={} w1={} k={} when={}", w0, w1, k, if pipelined { "pipelined" } else { "late" });
        let t = run_case(w0, w1, k, pipelined);
        out.count(if pipelined { "pipelined" } else { "late" });
        if t.contains('T') {
            out.nontrivial(&line);
        }
        for (c, w) in oracle(w1, k, &t) {
            out.violation(&c, &w, &line);
        }
        out.case(&line, &t);
    }
    out.finish(dir);
}
