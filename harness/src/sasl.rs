//! C19: SASL. Part 1 (`sasl-l`): the library's listener (PLAIN and SCRAM acceptors) against a
//! scripted byte-level client. Part 2 (`sasl-c`): the library's SCRAM client against a scripted
//! byte-level server. The SCRAM arithmetic of the scripted side is implemented here (RFC 5802)
//! on top of the hmac/sha1/sha2 crates only: own Hi (PBKDF2, one block), own base64.
//!
//! Case lines
//!   sasl-l mech=<plain|s1|s256|s512> cred=<own|lib|-> cu=<pct> cp=<pct> it=<n|-> [frag=<n>] ; act ; act ...
//!     (cred=own: harness credential store with a fixed salt; cred=lib: the library's
//!      SingleScramCredential; frag: the client writes in pieces of n bytes)
//!     actions: hs | ha | hdr:<hex> | init <pct mech> <plain:V|scram:V|raw:<pct>|none> | resp <scram:V|raw:<pct>>
//!       | minit:<kind> | mechs | chal | outc:<code> | open | empty | sempty | short:<n> | trunc | garbage:<hex> | eof
//!   sasl-l mech=... ; real <plain|s1|s256|s512|anon|none> <pct user> <pct pass>
//!   sasl-c v=<s1|s256|s512> u=<pct> p=<pct> salt=<pct> i=<pct> t=<tamper>
//! (`pct`: bytes, `[A-Za-z0-9_.@]` literal, everything else `%XX`, the empty string is `-`)
use crate::eng::*;
use crate::out::*;
use crate::rng::Rng;
use fe2o3_amqp::acceptor::{ConnectionAcceptor, SaslAcceptor, SaslPlainMechanism};
use fe2o3_amqp::auth::scram::{ScramAuthenticator, ScramCredentialProvider, ScramVersion, StoredPassword};
use fe2o3_amqp::connection::OpenError;
use fe2o3_amqp::sasl_profile::{SaslProfile, SaslScramSha1, SaslScramSha256, SaslScramSha512};
use fe2o3_amqp::Connection;
use serde_amqp::descriptor::Descriptor;
use serde_amqp::Value;
use std::collections::HashMap;
use std::sync::{Arc, Mutex, OnceLock};
use std::time::Duration;

// ------------------------------------------------------------------------------------------
// small encodings
// ------------------------------------------------------------------------------------------

pub fn pct(b: &[u8]) -> String {
    if b.is_empty() {
        return "-".into();
    }
    let mut s = String::new();
    for &c in b {
        if c.is_ascii_alphanumeric() || c == b'_' || c == b'.' || c == b'@' {
            s.push(c as char);
        } else {
            s.push_str(&format!("%{:02X}", c));
        }
    }
    s
}

pub fn unpct(s: &str) -> Vec<u8> {
    if s == "-" {
        return vec![];
    }
    let b = s.as_bytes();
    let mut out = Vec::new();
    let mut i = 0;
    while i < b.len() {
        if b[i] == b'%' && i + 3 <= b.len() {
            let h = std::str::from_utf8(&b[i + 1..i + 3]).ok().and_then(|h| u8::from_str_radix(h, 16).ok());
            match h {
                Some(x) => {
                    out.push(x);
                    i += 3;
                }
                None => {
                    out.push(b[i]);
                    i += 1;
                }
            }
        } else {
            out.push(b[i]);
            i += 1;
        }
    }
    out
}

const B64: &[u8; 64] = b"ABCDEFGHIJKLMNOPQRSTUVWXYZabcdefghijklmnopqrstuvwxyz0123456789+/";

pub fn b64(b: &[u8]) -> String {
    let mut s = String::new();
    for ch in b.chunks(3) {
        let n = (ch[0] as u32) << 16 | (*ch.get(1).unwrap_or(&0) as u32) << 8 | *ch.get(2).unwrap_or(&0) as u32;
        s.push(B64[(n >> 18) as usize & 63] as char);
        s.push(B64[(n >> 12) as usize & 63] as char);
        s.push(if ch.len() > 1 { B64[(n >> 6) as usize & 63] as char } else { '=' });
        s.push(if ch.len() > 2 { B64[n as usize & 63] as char } else { '=' });
    }
    s
}

pub fn unb64(s: &str) -> Option<Vec<u8>> {
    let b = s.as_bytes();
    if b.len() % 4 != 0 {
        return None;
    }
    let mut out = Vec::new();
    for (k, ch) in b.chunks(4).enumerate() {
        let last = k + 1 == b.len() / 4;
        let mut n = 0u32;
        let mut pad = 0;
        for (j, &c) in ch.iter().enumerate() {
            let v = if c == b'=' {
                if !last || j < 2 {
                    return None;
                }
                pad += 1;
                0
            } else {
                if pad > 0 {
                    return None;
                }
                B64.iter().position(|&x| x == c)? as u32
            };
            n = n << 6 | v;
        }
        out.push((n >> 16) as u8);
        if pad < 2 {
            out.push((n >> 8) as u8);
        }
        if pad < 1 {
            out.push(n as u8);
        }
    }
    Some(out)
}

// ------------------------------------------------------------------------------------------
// SCRAM arithmetic (RFC 5802), independent of the library's
// ------------------------------------------------------------------------------------------

#[derive(Clone, Copy, PartialEq, Eq, Hash, Debug)]
pub enum V {
    S1,
    S256,
    S512,
}

impl V {
    pub fn tag(self) -> &'static str {
        match self {
            V::S1 => "s1",
            V::S256 => "s256",
            V::S512 => "s512",
        }
    }
    pub fn from_tag(s: &str) -> Option<V> {
        match s {
            "s1" => Some(V::S1),
            "s256" => Some(V::S256),
            "s512" => Some(V::S512),
            _ => None,
        }
    }
    pub fn mech(self) -> &'static str {
        match self {
            V::S1 => "SCRAM-SHA-1",
            V::S256 => "SCRAM-SHA-256",
            V::S512 => "SCRAM-SHA-512",
        }
    }
    fn lib(self) -> ScramVersion {
        match self {
            V::S1 => ScramVersion::Sha1,
            V::S256 => ScramVersion::Sha256,
            V::S512 => ScramVersion::Sha512,
        }
    }
}

mod prim {
    use hmac::{Hmac, KeyInit, Mac};
    use sha1::Sha1;
    use sha2::{Digest, Sha256, Sha512};

    fn mac_g<M: Mac + KeyInit>(key: &[u8], msg: &[u8]) -> Vec<u8> {
        let mut m = <M as KeyInit>::new_from_slice(key).unwrap();
        Mac::update(&mut m, msg);
        m.finalize().into_bytes().to_vec()
    }
    /// Hi(str, salt, i) of RFC 5802 (i = 0 is treated like i = 1)
    fn hi_g<M: Mac + KeyInit + Clone>(pw: &[u8], salt: &[u8], iters: u32) -> Vec<u8> {
        let base = <M as KeyInit>::new_from_slice(pw).unwrap();
        let mut m = base.clone();
        Mac::update(&mut m, salt);
        Mac::update(&mut m, &1u32.to_be_bytes());
        let mut u = m.finalize().into_bytes();
        let mut out = u.clone();
        for _ in 1..iters {
            let mut m = base.clone();
            Mac::update(&mut m, &u);
            u = m.finalize().into_bytes();
            for (o, x) in out.iter_mut().zip(u.iter()) {
                *o ^= *x;
            }
        }
        out.to_vec()
    }
    pub fn hmac(v: super::V, key: &[u8], msg: &[u8]) -> Vec<u8> {
        match v {
            super::V::S1 => mac_g::<Hmac<Sha1>>(key, msg),
            super::V::S256 => mac_g::<Hmac<Sha256>>(key, msg),
            super::V::S512 => mac_g::<Hmac<Sha512>>(key, msg),
        }
    }
    pub fn h(v: super::V, msg: &[u8]) -> Vec<u8> {
        match v {
            super::V::S1 => Sha1::digest(msg).to_vec(),
            super::V::S256 => Sha256::digest(msg).to_vec(),
            super::V::S512 => Sha512::digest(msg).to_vec(),
        }
    }
    pub fn hi(v: super::V, pw: &[u8], salt: &[u8], iters: u32) -> Vec<u8> {
        match v {
            super::V::S1 => hi_g::<Hmac<Sha1>>(pw, salt, iters),
            super::V::S256 => hi_g::<Hmac<Sha256>>(pw, salt, iters),
            super::V::S512 => hi_g::<Hmac<Sha512>>(pw, salt, iters),
        }
    }
}

/// the largest iteration count the scripted side is willing to compute itself
const MAX_OWN_ITERS: u32 = 20000;

/// SaltedPassword, memoised (the same few passwords and salts recur in thousands of cases)
pub fn salted(v: V, pw: &[u8], salt: &[u8], iters: u32) -> Vec<u8> {
    static CACHE: OnceLock<Mutex<HashMap<(V, Vec<u8>, Vec<u8>, u32), Vec<u8>>>> = OnceLock::new();
    let c = CACHE.get_or_init(|| Mutex::new(HashMap::new()));
    let key = (v, pw.to_vec(), salt.to_vec(), iters);
    if let Some(x) = c.lock().unwrap().get(&key) {
        return x.clone();
    }
    let x = prim::hi(v, pw, salt, iters);
    c.lock().unwrap().insert(key, x.clone());
    x
}

pub struct Keys {
    pub client_key: Vec<u8>,
    pub stored_key: Vec<u8>,
    pub server_key: Vec<u8>,
}

pub fn keys(v: V, pw: &[u8], salt: &[u8], iters: u32) -> Keys {
    let sp = salted(v, pw, salt, iters);
    let client_key = prim::hmac(v, &sp, b"Client Key");
    let stored_key = prim::h(v, &client_key);
    let server_key = prim::hmac(v, &sp, b"Server Key");
    Keys { client_key, stored_key, server_key }
}

pub fn client_proof(v: V, k: &Keys, auth_message: &[u8]) -> Vec<u8> {
    let sig = prim::hmac(v, &k.stored_key, auth_message);
    k.client_key.iter().zip(sig.iter()).map(|(a, b)| a ^ b).collect()
}

pub fn server_signature(v: V, k: &Keys, auth_message: &[u8]) -> Vec<u8> {
    prim::hmac(v, &k.server_key, auth_message)
}

/// does this proof show knowledge of ClientKey for the stored key?
pub fn proof_ok(v: V, k: &Keys, auth_message: &[u8], proof: &[u8]) -> bool {
    let sig = prim::hmac(v, &k.stored_key, auth_message);
    if sig.len() != proof.len() {
        return false;
    }
    let ck: Vec<u8> = proof.iter().zip(sig.iter()).map(|(a, b)| a ^ b).collect();
    prim::h(v, &ck) == k.stored_key
}

pub fn auth_message(client_first_bare: &[u8], server_first: &[u8], client_final_without_proof: &[u8]) -> Vec<u8> {
    [client_first_bare, b",", server_first, b",", client_final_without_proof].concat()
}

/// attribute `k=` of a comma separated SCRAM message
fn attr<'a>(msg: &'a str, key: &str) -> Option<&'a str> {
    msg.split(',').find_map(|p| p.strip_prefix(key))
}

// ------------------------------------------------------------------------------------------
// AMQP encoding of SASL frames written by the scripted side (by hand, so that malformed
// ones can be written too)
// ------------------------------------------------------------------------------------------

fn enc_var(code8: u8, code32: u8, b: &[u8]) -> Vec<u8> {
    let mut v = Vec::new();
    if b.len() <= 255 {
        v.push(code8);
        v.push(b.len() as u8);
    } else {
        v.push(code32);
        v.extend_from_slice(&(b.len() as u32).to_be_bytes());
    }
    v.extend_from_slice(b);
    v
}
fn enc_sym(b: &[u8]) -> Vec<u8> {
    enc_var(0xa3, 0xb3, b)
}
fn enc_bin(b: &[u8]) -> Vec<u8> {
    enc_var(0xa0, 0xb0, b)
}
fn enc_str(b: &[u8]) -> Vec<u8> {
    enc_var(0xa1, 0xb1, b)
}
fn enc_null() -> Vec<u8> {
    vec![0x40]
}
fn enc_list(fields: &[Vec<u8>]) -> Vec<u8> {
    if fields.is_empty() {
        return vec![0x45];
    }
    let body: Vec<u8> = fields.concat();
    let mut v = Vec::new();
    if body.len() + 1 <= 255 && fields.len() <= 255 {
        v.push(0xc0);
        v.push((body.len() + 1) as u8);
        v.push(fields.len() as u8);
    } else {
        v.push(0xd0);
        v.extend_from_slice(&((body.len() + 4) as u32).to_be_bytes());
        v.extend_from_slice(&(fields.len() as u32).to_be_bytes());
    }
    v.extend_from_slice(&body);
    v
}
fn described(code: u8, list: Vec<u8>) -> Vec<u8> {
    let mut v = vec![0x00, 0x53, code];
    v.extend_from_slice(&list);
    v
}
fn sasl_frame(body: &[u8]) -> Vec<u8> {
    raw_frame(0, 2, 1, body)
}
fn f_init(mech: &[u8], resp: Option<&[u8]>) -> Vec<u8> {
    let mut fields = vec![enc_sym(mech)];
    if let Some(r) = resp {
        fields.push(enc_bin(r));
    }
    sasl_frame(&described(0x41, enc_list(&fields)))
}
fn f_response(resp: &[u8]) -> Vec<u8> {
    sasl_frame(&described(0x43, enc_list(&[enc_bin(resp)])))
}
fn f_mechanisms(mechs: &[&str]) -> Vec<u8> {
    // array of sym8
    let mut body = Vec::new();
    for m in mechs {
        body.push(m.len() as u8);
        body.extend_from_slice(m.as_bytes());
    }
    let mut arr = vec![0xe0, (body.len() + 2) as u8, mechs.len() as u8, 0xa3];
    arr.extend_from_slice(&body);
    sasl_frame(&described(0x40, enc_list(&[arr])))
}
fn f_challenge(ch: &[u8]) -> Vec<u8> {
    sasl_frame(&described(0x42, enc_list(&[enc_bin(ch)])))
}
fn f_outcome(code: u8, data: Option<&[u8]>) -> Vec<u8> {
    let mut fields = vec![vec![0x50, code]];
    if let Some(d) = data {
        fields.push(enc_bin(d));
    }
    sasl_frame(&described(0x44, enc_list(&fields)))
}

/// what the endpoint under test wrote in a SASL frame, parsed independently of its codec
#[derive(Debug, Clone)]
enum SaslMsg {
    Mechanisms(Vec<String>),
    Init { mech: String, resp: Option<Vec<u8>> },
    Challenge(Vec<u8>),
    Response(Vec<u8>),
    Outcome { code: Option<u8>, data: Option<Vec<u8>> },
    Other(String),
}

fn parse_sasl(body: &[u8]) -> SaslMsg {
    let v: Value = match serde_amqp::from_slice(body) {
        Ok(v) => v,
        Err(_) => return SaslMsg::Other(format!("undecodable{}", body.len())),
    };
    let d = match v {
        Value::Described(d) => d,
        _ => return SaslMsg::Other("notdescribed".into()),
    };
    let code = match &d.descriptor {
        Descriptor::Code(c) => *c,
        Descriptor::Name(s) => match s.as_str() {
            "amqp:sasl-mechanisms:list" => 0x40,
            "amqp:sasl-init:list" => 0x41,
            "amqp:sasl-challenge:list" => 0x42,
            "amqp:sasl-response:list" => 0x43,
            "amqp:sasl-outcome:list" => 0x44,
            _ => 0,
        },
    };
    let fields = match d.value {
        Value::List(l) => l,
        _ => return SaslMsg::Other(format!("d{:x}-notlist", code)),
    };
    let bin = |x: Option<&Value>| -> Option<Vec<u8>> {
        match x {
            Some(Value::Binary(b)) => Some(b.to_vec()),
            _ => None,
        }
    };
    match code {
        0x40 => {
            let mut ms = Vec::new();
            match fields.first() {
                Some(Value::Array(a)) => {
                    for x in a.0.iter() {
                        if let Value::Symbol(s) = x {
                            ms.push(s.as_str().to_string());
                        }
                    }
                }
                Some(Value::Symbol(s)) => ms.push(s.as_str().to_string()),
                _ => {}
            }
            SaslMsg::Mechanisms(ms)
        }
        0x41 => SaslMsg::Init {
            mech: match fields.first() {
                Some(Value::Symbol(s)) => s.as_str().to_string(),
                _ => "?".into(),
            },
            resp: bin(fields.get(1)),
        },
        0x42 => SaslMsg::Challenge(bin(fields.first()).unwrap_or_default()),
        0x43 => SaslMsg::Response(bin(fields.first()).unwrap_or_default()),
        0x44 => SaslMsg::Outcome {
            code: match fields.first() {
                Some(Value::Ubyte(c)) => Some(*c),
                _ => None,
            },
            data: bin(fields.get(1)),
        },
        c => SaslMsg::Other(format!("d{:x}", c)),
    }
}

fn variant(s: &str) -> String {
    s.split(|c| c == '(' || c == '{' || c == ' ').next().unwrap_or(s).to_string()
}

fn open_err(e: &OpenError) -> String {
    match e {
        OpenError::SaslError { code, .. } => format!("err:SaslError({:?})", code),
        other => format!("err:{}", variant(&format!("{:?}", other))),
    }
}

// ------------------------------------------------------------------------------------------
// Part 1: the listener under test, scripted client
// ------------------------------------------------------------------------------------------

#[derive(Clone, Copy, PartialEq, Debug)]
enum LMech {
    Plain,
    Scram(V),
}

#[derive(Clone, Debug)]
struct LCfg {
    mech: LMech,
    lib_cred: bool,
    cu: String,
    cp: String,
    it: u32,
    /// > 0: the scripted client writes in pieces of this many bytes
    frag: usize,
}

impl LCfg {
    fn mech_name(&self) -> &'static str {
        match self.mech {
            LMech::Plain => "PLAIN",
            LMech::Scram(v) => v.mech(),
        }
    }
}

const OWN_SALT: &[u8] = b"vh-fixed-salt-16";

/// harness-side credential store for the library's `ScramAuthenticator`: fixed salt, keys
/// computed with the harness's own arithmetic
#[derive(Debug)]
struct OwnCred {
    ver: ScramVersion,
    user: String,
    salt: Vec<u8>,
    iters: u32,
    stored_key: Vec<u8>,
    server_key: Vec<u8>,
}

impl ScramCredentialProvider for OwnCred {
    fn scram_version(&self) -> &ScramVersion {
        &self.ver
    }
    fn get_stored_password<'a>(&'a self, username: &str) -> Option<StoredPassword<'a>> {
        if username == self.user {
            Some(StoredPassword { salt: &self.salt, iterations: self.iters, stored_key: &self.stored_key, server_key: &self.server_key })
        } else {
            None
        }
    }
}

type LibCred = fe2o3_amqp::acceptor::scram::SingleScramCredential;

fn lib_cred(v: V, user: &str, pass: &str) -> Arc<LibCred> {
    static CACHE: OnceLock<Mutex<HashMap<(V, String, String), Arc<LibCred>>>> = OnceLock::new();
    let c = CACHE.get_or_init(|| Mutex::new(HashMap::new()));
    let key = (v, user.to_string(), pass.to_string());
    if let Some(x) = c.lock().unwrap().get(&key) {
        return x.clone();
    }
    let x = Arc::new(LibCred::new(user, pass, v.lib()).expect("credential"));
    c.lock().unwrap().insert(key, x.clone());
    x
}

fn parse_kv<'a>(toks: &[&'a str], key: &str) -> Option<&'a str> {
    toks.iter().find_map(|t| t.strip_prefix(key).and_then(|r| r.strip_prefix('=')))
}

fn parse_lcfg(head: &str) -> Option<LCfg> {
    let toks: Vec<&str> = head.split_whitespace().collect();
    if toks.first() != Some(&"sasl-l") {
        return None;
    }
    let mech = match parse_kv(&toks, "mech")? {
        "plain" => LMech::Plain,
        t => LMech::Scram(V::from_tag(t)?),
    };
    Some(LCfg {
        mech,
        lib_cred: parse_kv(&toks, "cred") == Some("lib"),
        cu: String::from_utf8_lossy(&unpct(parse_kv(&toks, "cu")?)).to_string(),
        cp: String::from_utf8_lossy(&unpct(parse_kv(&toks, "cp")?)).to_string(),
        it: parse_kv(&toks, "it").and_then(|x| x.parse().ok()).unwrap_or(4096),
        frag: parse_kv(&toks, "frag").and_then(|x| x.parse().ok()).unwrap_or(0),
    })
}

fn split_line(line: &str) -> (String, Vec<String>) {
    let mut parts = line.split(';').map(|s| s.trim().to_string());
    let head = parts.next().unwrap_or_default();
    (head, parts.filter(|s| !s.is_empty()).collect())
}

/// PLAIN initial responses derived from the configured credentials
pub const PLAIN_VARIANTS: [&str; 22] = [
    "exact", "authz", "wrongpw", "pwprefix", "pwext", "pw1", "unknownuser", "userprefix", "userext", "user1", "emptyuser", "emptypw",
    "bothempty", "nuluser", "nulpw", "extranul", "extrafield", "leadnul", "nonul", "onenul", "swapped", "nonutf8",
];

fn plain_resp(variant: &str, u: &[u8], p: &[u8]) -> Vec<u8> {
    let j = |parts: &[&[u8]]| -> Vec<u8> { parts.join(&0u8) };
    let flip_last = |x: &[u8]| -> Vec<u8> {
        let mut y = x.to_vec();
        match y.last_mut() {
            Some(l) => *l ^= 1,
            None => y.push(b'x'),
        }
        y
    };
    let cut = |x: &[u8]| -> Vec<u8> { x[..x.len().saturating_sub(1)].to_vec() };
    let ext = |x: &[u8]| -> Vec<u8> { [x, b"x"].concat() };
    match variant {
        "exact" => j(&[b"", u, p]),
        "authz" => j(&[u, u, p]),
        "wrongpw" => j(&[b"", u, b"wrong"]),
        "pwprefix" => j(&[b"", u, &cut(p)]),
        "pwext" => j(&[b"", u, &ext(p)]),
        "pw1" => j(&[b"", u, &flip_last(p)]),
        "unknownuser" => j(&[b"", b"nobody", p]),
        "userprefix" => j(&[b"", &cut(u), p]),
        "userext" => j(&[b"", &ext(u), p]),
        "user1" => j(&[b"", &flip_last(u), p]),
        "emptyuser" => j(&[b"", b"", p]),
        "emptypw" => j(&[b"", u, b""]),
        "bothempty" => j(&[b"", b"", b""]),
        "nuluser" => j(&[b"", &u[..u.len().min(1)], &u[u.len().min(1)..], p]),
        "nulpw" => j(&[b"", u, &p[..p.len().min(1)], &p[p.len().min(1)..]]),
        "extranul" => j(&[b"", u, p, b""]),
        "extrafield" => j(&[b"", u, p, b"junk"]),
        "leadnul" => j(&[b"", b"", u, p]),
        "nonul" => [u, p].concat(),
        "onenul" => j(&[u, p]),
        "swapped" => j(&[b"", p, u]),
        "nonutf8" => j(&[b"", u, &[p, &[0xffu8][..]].concat()]),
        _ => j(&[b"", b"?", b"?"]),
    }
}

/// RFC 4616, strictly: message = [authzid] NUL authcid NUL passwd, nothing else
fn plain_strictly_valid(resp: &[u8], u: &[u8], p: &[u8]) -> bool {
    let parts: Vec<&[u8]> = resp.split(|b| *b == 0).collect();
    parts.len() == 3 && (parts[0].is_empty() || parts[0] == u) && parts[1] == u && parts[2] == p
}

pub const SCRAM_FIRST_VARIANTS: [&str; 11] =
    ["ok", "unknownuser", "emptyuser", "userprefix", "userext", "nogs2", "gs2p", "nouser", "nononce", "mext", "nonutf8"];

fn scram_first(variant: &str, u: &[u8], nonce: &str) -> Vec<u8> {
    let n = nonce.as_bytes();
    let mk = |gs2: &[u8], user: &[u8]| -> Vec<u8> { [gs2, b"n=", user, b",r=", n].concat() };
    match variant {
        "ok" => mk(b"n,,", u),
        "unknownuser" => mk(b"n,,", b"nobody"),
        "emptyuser" => mk(b"n,,", b""),
        "userprefix" => mk(b"n,,", &u[..u.len().saturating_sub(1)]),
        "userext" => mk(b"n,,", &[u, b"x"].concat()),
        "nogs2" => mk(b"", u),
        "gs2p" => mk(b"p=tls-unique,,", u),
        "nouser" => [b"n,,r=", n].concat(),
        "nononce" => [&b"n,,n="[..], u].concat(),
        "mext" => [&b"n,,m=ext,n="[..], u, b",r=", n].concat(),
        "nonutf8" => [&b"n,,n="[..], u, &[0xff, 0xfe][..], b",r=", n].concat(),
        _ => mk(b"n,,", b"?"),
    }
}

pub const SCRAM_FINAL_VARIANTS: [&str; 14] =
    ["ok", "wrongpw", "pwprefix", "pwext", "pw1", "flip", "trunc", "noproof", "nocb", "badcb", "cnonceonly", "badnonce", "nonutf8", "empty"];

/// state of the scripted client
struct CliCtx {
    inits: u32,
    cnonce: String,
    cf_bare: Vec<u8>,
    server_first: Option<Vec<u8>>,
    cfinal_wo: Vec<u8>,
}

impl CliCtx {
    fn new() -> Self {
        Self { inits: 0, cnonce: String::new(), cf_bare: Vec::new(), server_first: None, cfinal_wo: Vec::new() }
    }
}

fn scram_final(cfg: &LCfg, v: V, ctx: &mut CliCtx, variant: &str) -> Vec<u8> {
    let sf: Vec<u8> = match &ctx.server_first {
        Some(s) => s.clone(),
        None => format!("r={}SRVNONCE,s={},i={}", ctx.cnonce, b64(OWN_SALT), cfg.it).into_bytes(),
    };
    let sfs = String::from_utf8_lossy(&sf).to_string();
    let r = attr(&sfs, "r=").unwrap_or("").to_string();
    let salt = attr(&sfs, "s=").and_then(unb64).unwrap_or_else(|| OWN_SALT.to_vec());
    let iters = attr(&sfs, "i=").and_then(|x| x.parse::<u32>().ok()).unwrap_or(cfg.it).min(MAX_OWN_ITERS);
    let p = cfg.cp.as_bytes();
    let pw: Vec<u8> = match variant {
        "wrongpw" => b"wrong".to_vec(),
        "pwprefix" => p[..p.len().saturating_sub(1)].to_vec(),
        "pwext" => [p, b"x"].concat(),
        "pw1" => {
            let mut y = p.to_vec();
            match y.last_mut() {
                Some(l) => *l ^= 1,
                None => y.push(b'x'),
            }
            y
        }
        _ => p.to_vec(),
    };
    if variant == "empty" {
        ctx.cfinal_wo = Vec::new();
        return Vec::new();
    }
    let wo: Vec<u8> = match variant {
        "nocb" => format!("r={}", r).into_bytes(),
        "badcb" => format!("c=eSws,r={}", r).into_bytes(),
        "cnonceonly" => format!("c=biws,r={}", ctx.cnonce).into_bytes(),
        "badnonce" => format!("c=biws,r={}AAAA", ctx.cnonce).into_bytes(),
        "nonutf8" => [format!("c=biws,r={}", r).as_bytes(), &[0xff][..]].concat(),
        _ => format!("c=biws,r={}", r).into_bytes(),
    };
    let k = keys(v, &pw, &salt, iters);
    let am = auth_message(&ctx.cf_bare, &sf, &wo);
    let mut proof = client_proof(v, &k, &am);
    if variant == "flip" {
        proof[0] ^= 1;
    }
    let mut pb = b64(&proof);
    if variant == "trunc" {
        pb.truncate(pb.len() - 4);
    }
    ctx.cfinal_wo = wo.clone();
    if variant == "noproof" {
        return wo;
    }
    [&wo[..], b",p=", pb.as_bytes()].concat()
}

/// initial-response bytes of an `init` action (None = the field is absent)
fn init_resp(cfg: &LCfg, ctx: &mut CliCtx, spec: &str) -> Option<Vec<u8>> {
    if spec == "none" {
        return None;
    }
    if let Some(r) = spec.strip_prefix("raw:") {
        return Some(unpct(r));
    }
    if let Some(v) = spec.strip_prefix("plain:") {
        return Some(plain_resp(v, cfg.cu.as_bytes(), cfg.cp.as_bytes()));
    }
    if let Some(v) = spec.strip_prefix("scram:") {
        ctx.inits += 1;
        ctx.cnonce = format!("rOprNGfwEbeRWgbNEkqO{}", ctx.inits);
        let cf = scram_first(v, cfg.cu.as_bytes(), &ctx.cnonce);
        ctx.cf_bare = match cf.strip_prefix(b"n,,") {
            Some(b) => b.to_vec(),
            None => cf.clone(),
        };
        ctx.server_first = None;
        return Some(cf);
    }
    Some(Vec::new())
}

/// bytes written for one action; None = close the write side
fn act_bytes(cfg: &LCfg, ctx: &mut CliCtx, act: &str) -> Option<Vec<u8>> {
    let w: Vec<&str> = act.split_whitespace().collect();
    let exact_plain = plain_resp("exact", cfg.cu.as_bytes(), cfg.cp.as_bytes());
    // the "best" initial response for this listener, used inside malformed frames
    let best: Vec<u8> = match cfg.mech {
        LMech::Plain => exact_plain,
        LMech::Scram(_) => scram_first("ok", cfg.cu.as_bytes(), "rOprNGfwEbeRWgbNEkqOm"),
    };
    Some(match w.as_slice() {
        ["hs"] => SASL_HEADER.to_vec(),
        ["ha"] => AMQP_HEADER.to_vec(),
        ["eof"] => return None,
        ["init", mech, spec] => {
            let r = init_resp(cfg, ctx, spec);
            f_init(&unpct(mech), r.as_deref())
        }
        ["resp", spec] => {
            let b = if let Some(r) = spec.strip_prefix("raw:") {
                unpct(r)
            } else if let Some(v) = spec.strip_prefix("scram:") {
                let ver = match cfg.mech {
                    LMech::Scram(v) => v,
                    LMech::Plain => V::S256,
                };
                scram_final(cfg, ver, ctx, v)
            } else {
                Vec::new()
            };
            f_response(&b)
        }
        ["mechs"] => f_mechanisms(&[cfg.mech_name()]),
        ["chal"] => f_challenge(b"r=abc,s=QUJD,i=4096"),
        ["open"] => frame_bytes(0, &crate::c12::peer_open(None, 10, 1024), &[]),
        ["empty"] => empty_frame(),
        ["sempty"] => raw_frame(0, 2, 1, &[]),
        ["trunc"] => {
            let f = f_init(cfg.mech_name().as_bytes(), Some(&best));
            f[..12.min(f.len())].to_vec()
        }
        [one] => {
            if let Some(h) = one.strip_prefix("hdr:") {
                crate::val::unhex(h).unwrap_or_default()
            } else if let Some(h) = one.strip_prefix("garbage:") {
                crate::val::unhex(h).unwrap_or_default()
            } else if let Some(c) = one.strip_prefix("outc:") {
                f_outcome(c.parse().unwrap_or(0), None)
            } else if let Some(n) = one.strip_prefix("short:") {
                let n: u32 = n.parse().unwrap_or(4);
                let mut v = n.to_be_bytes().to_vec();
                v.extend(std::iter::repeat(0u8).take((n as usize).saturating_sub(4)));
                v
            } else if let Some(k) = one.strip_prefix("minit:") {
                let m = enc_sym(cfg.mech_name().as_bytes());
                match k {
                    "nomech" => sasl_frame(&described(0x41, enc_list(&[enc_null(), enc_bin(&best)]))),
                    "nofields" => sasl_frame(&described(0x41, enc_list(&[]))),
                    "baddesc" => sasl_frame(&described(0x45, enc_list(&[m, enc_bin(&best)]))),
                    "ftype2" => raw_frame(0, 2, 2, &described(0x41, enc_list(&[m, enc_bin(&best)]))),
                    "doff1" => raw_frame(0, 1, 1, &described(0x41, enc_list(&[m, enc_bin(&best)]))),
                    "respstr" => sasl_frame(&described(0x41, enc_list(&[m, enc_str(b"abc")]))),
                    _ => sasl_frame(&described(0x41, enc_list(&[m, enc_bin(&best), enc_str(&vec![b'h'; 600])]))), // "big"
                }
            } else {
                panic!("bad sasl-l action `{}`", act)
            }
        }
        _ => panic!("bad sasl-l action `{}`", act),
    })
}

/// what the case line says about the exchange, independently of the listener
#[derive(Clone, Copy, PartialEq, Debug)]
enum Auth {
    Fresh,
    InSasl,
    Challenged,
    Authed,
    Invalid,
    /// exact PLAIN credentials presented under a mechanism name other than PLAIN: the property
    /// text does not decide this one
    Neutral,
}

fn step_auth(cfg: &LCfg, st: Auth, act: &str) -> Auth {
    let w: Vec<&str> = act.split_whitespace().collect();
    match st {
        Auth::Authed | Auth::Invalid | Auth::Neutral => st,
        Auth::Fresh => {
            if w.as_slice() == ["hs"] {
                Auth::InSasl
            } else {
                Auth::Invalid
            }
        }
        Auth::InSasl => match (cfg.mech, w.as_slice()) {
            (LMech::Plain, ["init", mech, spec]) => {
                let bytes = if let Some(r) = spec.strip_prefix("raw:") {
                    Some(unpct(r))
                } else {
                    spec.strip_prefix("plain:").map(|v| plain_resp(v, cfg.cu.as_bytes(), cfg.cp.as_bytes()))
                };
                match bytes {
                    Some(b) if plain_strictly_valid(&b, cfg.cu.as_bytes(), cfg.cp.as_bytes()) => {
                        if unpct(mech) == b"PLAIN" {
                            Auth::Authed
                        } else {
                            Auth::Neutral
                        }
                    }
                    _ => Auth::Invalid,
                }
            }
            (LMech::Scram(v), ["init", mech, "scram:ok"]) if unpct(mech) == v.mech().as_bytes() => Auth::Challenged,
            _ => Auth::Invalid,
        },
        Auth::Challenged => {
            if w.as_slice() == ["resp", "scram:ok"] {
                Auth::Authed
            } else {
                Auth::Invalid
            }
        }
    }
}

fn l_token(cfg: &LCfg, ctx: &mut CliCtx, w: &Wire) -> String {
    let body = match w {
        Wire::Sasl(b) => b,
        other => return wire_token(other),
    };
    match parse_sasl(body) {
        SaslMsg::Mechanisms(ms) => format!("M[{}]", ms.join("+")),
        SaslMsg::Challenge(c) => {
            let tok = match std::str::from_utf8(&c) {
                Err(_) => "Ch(nonutf8)".to_string(),
                Ok(s) => {
                    let r = match attr(s, "r=") {
                        Some(r) if !ctx.cnonce.is_empty() && r.starts_with(&ctx.cnonce) && r.len() > ctx.cnonce.len() => "ext",
                        Some(_) => "bad",
                        None => "none",
                    };
                    let salt = match attr(s, "s=").and_then(unb64) {
                        None => "none".to_string(),
                        Some(x) if cfg.lib_cred => format!("len{}", x.len()),
                        Some(x) => (if x == OWN_SALT { "ok" } else { "bad" }).to_string(),
                    };
                    format!("Ch(r={}:s={}:i={})", r, salt, attr(s, "i=").unwrap_or("none"))
                }
            };
            ctx.server_first = Some(c);
            tok
        }
        SaslMsg::Outcome { code, data } => {
            let c = code.map(|c| c.to_string()).unwrap_or("?".into());
            match (data, cfg.mech) {
                (None, _) => format!("Out({})", c),
                (Some(d), LMech::Scram(v)) => {
                    let ok = (|| {
                        let s = std::str::from_utf8(&d).ok()?;
                        let sig = unb64(s.strip_prefix("v=")?)?;
                        let sf = ctx.server_first.clone()?;
                        let sfs = String::from_utf8(sf.clone()).ok()?;
                        let salt = unb64(attr(&sfs, "s=")?)?;
                        let iters: u32 = attr(&sfs, "i=")?.parse().ok()?;
                        if iters > MAX_OWN_ITERS {
                            return None;
                        }
                        let k = keys(v, cfg.cp.as_bytes(), &salt, iters);
                        Some(sig == server_signature(v, &k, &auth_message(&ctx.cf_bare, &sf, &ctx.cfinal_wo)))
                    })();
                    format!("Out({}:v={})", c, if ok == Some(true) { "ok" } else { "bad" })
                }
                (Some(d), _) => format!("Out({}:data{})", c, d.len()),
            }
        }
        SaslMsg::Init { .. } => "S?init".into(),
        SaslMsg::Response(_) => "S?response".into(),
        SaslMsg::Other(s) => format!("S?{}", s),
    }
}

fn make_profile(kind: &str, u: &str, p: &str) -> Option<SaslProfile> {
    Some(match kind {
        "plain" => SaslProfile::Plain { username: u.into(), password: p.into() },
        "anon" => SaslProfile::Anonymous,
        "s1" => SaslProfile::ScramSha1(SaslScramSha1::new(u, p)),
        "s256" => SaslProfile::ScramSha256(SaslScramSha256::new(u, p)),
        "s512" => SaslProfile::ScramSha512(SaslScramSha512::new(u, p)),
        _ => return None,
    })
}

fn drive<S>(acc: ConnectionAcceptor<(), S>, cfg: LCfg, actions: Vec<String>) -> String
where
    S: SaslAcceptor + Send + Sync + 'static,
{
    paused_rt().block_on(async move {
        let (a, b) = tokio::io::duplex(1 << 16);
        let mut task = Some(tokio::spawn(async move { acc.accept(a).await }));
        // the library's own client against the listener
        if let Some(first) = actions.first() {
            let w: Vec<&str> = first.split_whitespace().collect();
            if let ["real", kind, u, p] = w.as_slice() {
                let u = String::from_utf8_lossy(&unpct(u)).to_string();
                let p = String::from_utf8_lossy(&unpct(p)).to_string();
                let prof = make_profile(kind, &u, &p);
                let mut client = tokio::spawn(async move {
                    let bld = Connection::builder().container_id("c");
                    match prof {
                        Some(pr) => bld.sasl_profile(pr).open_with_stream(b).await,
                        None => bld.open_with_stream(b).await,
                    }
                });
                let mut t = task.take().unwrap();
                let cr = tokio::time::timeout(Duration::from_secs(60), &mut client).await;
                let ar = tokio::time::timeout(Duration::from_secs(60), &mut t).await;
                let cs = match &cr {
                    Err(_) => "PENDING".to_string(),
                    Ok(Err(_)) => "PANIC".to_string(),
                    Ok(Ok(Ok(_))) => "ok".to_string(),
                    Ok(Ok(Err(e))) => open_err(e),
                };
                let as_ = match &ar {
                    Err(_) => "PENDING".to_string(),
                    Ok(Err(_)) => "PANIC".to_string(),
                    Ok(Ok(Ok(_))) => "ok".to_string(),
                    Ok(Ok(Err(e))) => open_err(e),
                };
                return format!("real: accept={} client={}", as_, cs);
            }
        }
        let mut peer = Peer::new(b);
        let mut ctx = CliCtx::new();
        let mut handles = Vec::new();
        let mut steps: Vec<String> = Vec::new();
        let mut eof_reported = false;
        let n = actions.len();
        for i in 0..=n {
            if i > 0 {
                match act_bytes(&cfg, &mut ctx, &actions[i - 1]) {
                    Some(bytes) if cfg.frag > 0 => {
                        for piece in bytes.chunks(cfg.frag) {
                            peer.write(piece).await;
                            barrier().await;
                        }
                    }
                    Some(bytes) => {
                        peer.write(&bytes).await;
                    }
                    None => peer.shutdown().await,
                }
            }
            barrier().await;
            let ws = peer.drain().await;
            let mut toks: Vec<String> = ws.iter().map(|w| l_token(&cfg, &mut ctx, w)).collect();
            if toks.is_empty() {
                toks.push("-".into());
            }
            let mut s = toks.join(",");
            if task.as_ref().map(|t| t.is_finished()).unwrap_or(false) {
                match task.take().unwrap().await {
                    Ok(Ok(h)) => {
                        handles.push(h);
                        s.push_str(" accept=ok");
                    }
                    Ok(Err(e)) => s.push_str(&format!(" accept={}", open_err(&e))),
                    Err(_) => s.push_str(" accept=PANIC"),
                }
                // whatever the listener wrote while finishing
                barrier().await;
                let more = peer.drain().await;
                if !more.is_empty() {
                    s = format!("{} +{}", s, more.iter().map(|w| l_token(&cfg, &mut ctx, w)).collect::<Vec<_>>().join(","));
                }
            }
            if peer.eof && !eof_reported {
                eof_reported = true;
                s.push_str(" EOF");
            }
            steps.push(s);
        }
        // the client goes away; the listener has 60 s of virtual time to notice
        let mut fin = String::from("#");
        if let Some(mut t) = task.take() {
            peer.shutdown().await;
            let r = tokio::time::timeout(Duration::from_secs(60), &mut t).await;
            let ws = peer.drain().await;
            if !ws.is_empty() {
                fin.push_str(&format!(" {}", ws.iter().map(|w| l_token(&cfg, &mut ctx, w)).collect::<Vec<_>>().join(",")));
            }
            match r {
                Err(_) => fin.push_str(" accept=PENDING"),
                Ok(Err(_)) => fin.push_str(" accept=PANIC"),
                Ok(Ok(Ok(h))) => {
                    handles.push(h);
                    fin.push_str(" accept=ok");
                }
                Ok(Ok(Err(e))) => fin.push_str(&format!(" accept={}", open_err(&e))),
            }
            barrier().await;
            let _ = peer.drain().await;
            if peer.eof && !eof_reported {
                fin.push_str(" EOF");
            }
        }
        steps.push(fin);
        drop(handles);
        steps.join(" ; ")
    })
}

fn run_listener(line: &str) -> String {
    let (head, actions) = split_line(line);
    let cfg = match parse_lcfg(&head) {
        Some(c) => c,
        None => return "BADCASE".into(),
    };
    let b = ConnectionAcceptor::builder().container_id("l");
    match cfg.mech {
        LMech::Plain => drive(b.sasl_acceptor(SaslPlainMechanism::new(cfg.cu.clone(), cfg.cp.clone())).build(), cfg, actions),
        LMech::Scram(v) if cfg.lib_cred => {
            let cred = lib_cred(v, &cfg.cu, &cfg.cp);
            drive(b.sasl_acceptor(ScramAuthenticator::new(cred)).build(), cfg, actions)
        }
        LMech::Scram(v) => {
            let k = keys(v, cfg.cp.as_bytes(), OWN_SALT, cfg.it);
            let cred = Arc::new(OwnCred {
                ver: v.lib(),
                user: cfg.cu.clone(),
                salt: OWN_SALT.to_vec(),
                iters: cfg.it,
                stored_key: k.stored_key,
                server_key: k.server_key,
            });
            drive(b.sasl_acceptor(ScramAuthenticator::new(cred)).build(), cfg, actions)
        }
    }
}

// ------------------------------------------------------------------------------------------
// Part 2: the SCRAM client under test, scripted server
// ------------------------------------------------------------------------------------------

#[derive(Clone, Debug)]
struct CCfg {
    v: V,
    u: String,
    p: String,
    salt: Vec<u8>,
    i: String,
    t: String,
}

fn parse_ccfg(line: &str) -> Option<CCfg> {
    let toks: Vec<&str> = line.split_whitespace().collect();
    if toks.first() != Some(&"sasl-c") {
        return None;
    }
    Some(CCfg {
        v: V::from_tag(parse_kv(&toks, "v")?)?,
        u: String::from_utf8_lossy(&unpct(parse_kv(&toks, "u")?)).to_string(),
        p: String::from_utf8_lossy(&unpct(parse_kv(&toks, "p")?)).to_string(),
        salt: unpct(parse_kv(&toks, "salt")?),
        i: String::from_utf8_lossy(&unpct(parse_kv(&toks, "i")?)).to_string(),
        t: parse_kv(&toks, "t")?.to_string(),
    })
}

/// every tampering of the scripted server (`none` and `mech-multi` are honest servers)
pub const TAMPERS: [&str; 45] = [
    "none", "mech-multi", "hdr-amqp", "mech-missing", "outcome-first", "early-outcome", "nonce-replace", "nonce-trunc", "nonce-empty",
    "nonce-flip", "no-salt", "salt-badb64", "no-iter", "mext", "chal-nonutf8", "chal-empty", "wrong-salt", "wrong-pw", "sig-other-nonce",
    "sig-flip", "sig-trunc", "sig-empty", "sig-nonb64", "no-v", "e-attr", "no-data", "data-empty", "code1", "code2", "code3", "code4",
    "code1n", "code2n", "code3n", "code4n", "code5", "code255", "extra-chal", "amqp-hdr-before-outcome", "eof-before-outcome",
    "eof-before-challenge", "chal-after-outcome-fail", "garbage-outcome", "nonce-prepend", "nonce-shift",
];

fn honest(t: &str) -> bool {
    t == "none" || t == "mech-multi"
}

/// the iteration count as the harness can use it
fn own_iters(i: &str) -> Option<u32> {
    if i.is_empty() || !i.bytes().all(|b| b.is_ascii_digit()) {
        return None;
    }
    i.parse::<u32>().ok().filter(|n| *n <= MAX_OWN_ITERS)
}

struct SrvState {
    cfg: CCfg,
    bare: Option<Vec<u8>>,
    cnonce: String,
    server_first: Vec<u8>,
    cfinal: Option<Vec<u8>>,
    amqp_header_seen: bool,
    got_init: bool,
    finished: bool,
}

fn c_token(st: &mut SrvState, w: &Wire) -> String {
    let body = match w {
        Wire::Sasl(b) => b,
        Wire::Header(h) => {
            if *h == AMQP_HEADER {
                st.amqp_header_seen = true;
            }
            return wire_token(w);
        }
        other => return wire_token(other),
    };
    match parse_sasl(body) {
        SaslMsg::Init { mech, resp } => {
            st.got_init = true;
            let r = resp.unwrap_or_default();
            let (gs2, bare) = match r.strip_prefix(b"n,,") {
                Some(b) => ("ok", b.to_vec()),
                None => ("bad", r.clone()),
            };
            let bs = String::from_utf8_lossy(&bare).to_string();
            let n = if attr(&bs, "n=") == Some(st.cfg.u.as_str()) { "ok" } else { "bad" };
            st.cnonce = attr(&bs, "r=").unwrap_or("").to_string();
            st.bare = Some(bare);
            format!("Init({}:gs2={}:n={}:r={})", mech, gs2, n, st.cnonce.len())
        }
        SaslMsg::Response(b) => {
            let s = String::from_utf8_lossy(&b).to_string();
            let c = if attr(&s, "c=") == Some("biws") { "ok" } else { "bad" };
            let sfs = String::from_utf8_lossy(&st.server_first).to_string();
            let r = if attr(&s, "r=").is_some() && attr(&s, "r=") == attr(&sfs, "r=") { "ok" } else { "bad" };
            let p = match (own_iters(&st.cfg.i), s.rfind(",p="), &st.bare) {
                (Some(it), Some(pos), Some(bare)) => {
                    let k = keys(st.cfg.v, st.cfg.p.as_bytes(), &st.cfg.salt, it);
                    let am = auth_message(bare, &st.server_first, &b[..pos]);
                    match unb64(&s[pos + 3..]) {
                        Some(proof) if proof_ok(st.cfg.v, &k, &am, &proof) => "ok",
                        _ => "bad",
                    }
                }
                _ => "?",
            };
            st.cfinal = Some(b);
            format!("Resp(c={}:r={}:p={})", c, r, p)
        }
        SaslMsg::Mechanisms(_) => "S?mechanisms".into(),
        SaslMsg::Challenge(_) => "S?challenge".into(),
        SaslMsg::Outcome { .. } => "S?outcome".into(),
        SaslMsg::Other(s) => format!("S?{}", s),
    }
}

type OpenTask = tokio::task::JoinHandle<Result<fe2o3_amqp::connection::ConnectionHandle<()>, OpenError>>;

async fn c_observe(
    label: &str,
    peer: &mut Peer,
    task: &mut Option<OpenTask>,
    handles: &mut Vec<fe2o3_amqp::connection::ConnectionHandle<()>>,
    st: &mut SrvState,
    log: &mut Vec<String>,
) {
    barrier().await;
    let ws = peer.drain().await;
    let mut toks: Vec<String> = ws.iter().map(|w| c_token(st, w)).collect();
    if toks.is_empty() {
        toks.push("-".into());
    }
    let mut s = format!("{}:{}", label, toks.join(","));
    if task.as_ref().map(|t| t.is_finished()).unwrap_or(false) {
        st.finished = true;
        match task.take().unwrap().await {
            Ok(Ok(h)) => {
                handles.push(h);
                s.push_str(" open=ok");
            }
            Ok(Err(e)) => s.push_str(&format!(" open={}", open_err(&e))),
            Err(_) => s.push_str(" open=PANIC"),
        }
    }
    log.push(s);
}

fn client_case(cfg: CCfg) -> String {
    paused_rt().block_on(async move {
        let (a, b) = tokio::io::duplex(1 << 16);
        let mut peer = Peer::new(b);
        let prof = make_profile(cfg.v.tag(), &cfg.u, &cfg.p).unwrap();
        let mut task: Option<OpenTask> =
            Some(tokio::spawn(async move { Connection::builder().container_id("c").sasl_profile(prof).open_with_stream(a).await }));
        let mut handles = Vec::new();
        let mut log: Vec<String> = Vec::new();
        let t = cfg.t.clone();
        let v = cfg.v;
        let mut st = SrvState {
            cfg: cfg.clone(),
            bare: None,
            cnonce: String::new(),
            server_first: Vec::new(),
            cfinal: None,
            amqp_header_seen: false,
            got_init: false,
            finished: false,
        };
        c_observe("start", &mut peer, &mut task, &mut handles, &mut st, &mut log).await;
        // header
        peer.write(if t == "hdr-amqp" { &AMQP_HEADER } else { &SASL_HEADER }).await;
        c_observe("hdr", &mut peer, &mut task, &mut handles, &mut st, &mut log).await;
        // mechanisms
        let fr = match t.as_str() {
            "mech-missing" => f_mechanisms(&["PLAIN", "ANONYMOUS"]),
            "mech-multi" => f_mechanisms(&["PLAIN", v.mech(), "ANONYMOUS"]),
            "outcome-first" => f_outcome(0, Some(b"v=AAAA")),
            _ => f_mechanisms(&[v.mech()]),
        };
        peer.write(&fr).await;
        c_observe("mechs", &mut peer, &mut task, &mut handles, &mut st, &mut log).await;
        if st.got_init && t == "eof-before-challenge" {
            peer.shutdown().await;
            c_observe("eof", &mut peer, &mut task, &mut handles, &mut st, &mut log).await;
        } else if st.got_init {
            // server-first
            let snonce = "3rfcNHYJY1ZVvWVs7j";
            let cn = st.cnonce.clone();
            let combined = match t.as_str() {
                "nonce-replace" => snonce.to_string(),
                "nonce-trunc" => format!("{}{}", &cn[..cn.len().saturating_sub(1)], snonce),
                "nonce-empty" => String::new(),
                // the client's nonce is in there, but not at the start
                "nonce-prepend" => format!("{}{}", snonce, cn),
                "nonce-shift" => format!("x{}{}", cn, snonce),
                "nonce-flip" => {
                    let mut c: Vec<u8> = cn.clone().into_bytes();
                    if let Some(f) = c.first_mut() {
                        *f = if *f == b'A' { b'B' } else { b'A' };
                    }
                    format!("{}{}", String::from_utf8_lossy(&c), snonce)
                }
                _ => format!("{}{}", cn, snonce),
            };
            let sf: Vec<u8> = match t.as_str() {
                "no-salt" => format!("r={},i={}", combined, cfg.i).into_bytes(),
                "no-iter" => format!("r={},s={}", combined, b64(&cfg.salt)).into_bytes(),
                "salt-badb64" => format!("r={},s=!!!,i={}", combined, cfg.i).into_bytes(),
                "mext" => format!("m=ext,r={},s={},i={}", combined, b64(&cfg.salt), cfg.i).into_bytes(),
                "chal-nonutf8" => [format!("r={}", combined).as_bytes(), &[0xff][..], format!(",s={},i={}", b64(&cfg.salt), cfg.i).as_bytes()].concat(),
                "chal-empty" => Vec::new(),
                _ => format!("r={},s={},i={}", combined, b64(&cfg.salt), cfg.i).into_bytes(),
            };
            st.server_first = sf.clone();
            if t == "early-outcome" {
                peer.write(&f_outcome(0, Some(b"v=AAAA"))).await;
            } else {
                peer.write(&f_challenge(&sf)).await;
            }
            c_observe("chal", &mut peer, &mut task, &mut handles, &mut st, &mut log).await;
            if let Some(cfinal) = st.cfinal.clone() {
                let s = String::from_utf8_lossy(&cfinal).to_string();
                let wo: Vec<u8> = match s.rfind(",p=") {
                    Some(pos) => cfinal[..pos].to_vec(),
                    None => cfinal.clone(),
                };
                let bare = st.bare.clone().unwrap_or_default();
                let sig: Vec<u8> = match own_iters(&cfg.i) {
                    None => vec![b'A'; 32],
                    Some(it) => {
                        let salt = if t == "wrong-salt" { [&cfg.salt[..], b"x"].concat() } else { cfg.salt.clone() };
                        let pw = if t == "wrong-pw" { format!("{}x", cfg.p) } else { cfg.p.clone() };
                        let am = if t == "sig-other-nonce" {
                            let swap = |x: &[u8]| String::from_utf8_lossy(x).replace(snonce, "0therServerNonce00").into_bytes();
                            auth_message(&bare, &swap(&sf), &swap(&wo))
                        } else {
                            auth_message(&bare, &sf, &wo)
                        };
                        server_signature(v, &keys(v, pw.as_bytes(), &salt, it), &am)
                    }
                };
                let good = format!("v={}", b64(&sig)).into_bytes();
                let data: Option<Vec<u8>> = match t.as_str() {
                    "sig-flip" => {
                        let mut x = sig.clone();
                        x[0] ^= 1;
                        Some(format!("v={}", b64(&x)).into_bytes())
                    }
                    "sig-trunc" => Some(format!("v={}", b64(&sig[..sig.len() - 1])).into_bytes()),
                    "sig-empty" => Some(b"v=".to_vec()),
                    "sig-nonb64" => Some(b"v=!!!!".to_vec()),
                    "no-v" => Some(b64(&sig).into_bytes()),
                    "e-attr" => Some(b"e=invalid-proof".to_vec()),
                    "no-data" | "code1n" | "code2n" | "code3n" | "code4n" => None,
                    "data-empty" => Some(Vec::new()),
                    _ => Some(good.clone()),
                };
                let code: u8 = match t.strip_prefix("code") {
                    Some(c) => c.trim_end_matches('n').parse().unwrap_or(1),
                    None => 0,
                };
                match t.as_str() {
                    "extra-chal" => {
                        peer.write(&f_challenge(&sf)).await;
                        c_observe("chal2", &mut peer, &mut task, &mut handles, &mut st, &mut log).await;
                        peer.write(&f_outcome(0, Some(&good))).await;
                    }
                    "amqp-hdr-before-outcome" => {
                        peer.write(&AMQP_HEADER).await;
                        peer.write(&frame_bytes(0, &crate::c12::peer_open(None, 10, 1024), &[])).await;
                    }
                    "eof-before-outcome" => peer.shutdown().await,
                    "garbage-outcome" => {
                        peer.write(&sasl_frame(&described(0x44, enc_list(&[enc_str(b"ok"), enc_bin(&good)])))).await;
                    }
                    "chal-after-outcome-fail" => {
                        // a failure outcome, then the honest outcome: only the first may count
                        peer.write(&f_outcome(1, None)).await;
                        peer.write(&f_outcome(0, Some(&good))).await;
                    }
                    _ => {
                        peer.write(&f_outcome(code, data.as_deref())).await;
                    }
                }
                c_observe("outcome", &mut peer, &mut task, &mut handles, &mut st, &mut log).await;
            }
        }
        // the client went on to the AMQP layer: answer it so that open can complete
        if st.amqp_header_seen && !st.finished {
            if t != "amqp-hdr-before-outcome" {
                peer.write(&AMQP_HEADER).await;
                peer.write(&frame_bytes(0, &crate::c12::peer_open(None, 10, 1024), &[])).await;
            }
            c_observe("amqp", &mut peer, &mut task, &mut handles, &mut st, &mut log).await;
        }
        if let Some(mut tk) = task.take() {
            peer.shutdown().await;
            let r = tokio::time::timeout(Duration::from_secs(60), &mut tk).await;
            let ws = peer.drain().await;
            let toks: Vec<String> = ws.iter().map(|w| c_token(&mut st, w)).collect();
            let mut s = format!("#:{}", if toks.is_empty() { "-".to_string() } else { toks.join(",") });
            match r {
                Err(_) => s.push_str(" open=PENDING"),
                Ok(Err(_)) => s.push_str(" open=PANIC"),
                Ok(Ok(Ok(h))) => {
                    handles.push(h);
                    s.push_str(" open=ok");
                }
                Ok(Ok(Err(e))) => s.push_str(&format!(" open={}", open_err(&e))),
            }
            log.push(s);
        }
        drop(handles);
        log.join(" ; ")
    })
}

const TIMEOUT_TRACE: &str = "TIMEOUT: the client was still busy 3 s of real time after the server-first message";

/// iteration counts beyond what the harness computes itself run under a real-time budget
fn needs_real_time_budget(cfg: &CCfg) -> bool {
    !cfg.i.is_empty() && cfg.i.bytes().all(|b| b.is_ascii_digit()) && cfg.i.parse::<u32>().map(|n| n > MAX_OWN_ITERS).unwrap_or(false)
}

fn spawn_budgeted(cfg: CCfg) -> std::sync::mpsc::Receiver<String> {
    let (tx, rx) = std::sync::mpsc::channel();
    std::thread::spawn(move || {
        let r = std::panic::catch_unwind(std::panic::AssertUnwindSafe(|| client_case(cfg))).unwrap_or_else(|_| "PANIC".to_string());
        let _ = tx.send(r);
    });
    rx
}

fn run_client(line: &str) -> String {
    let cfg = match parse_ccfg(line) {
        Some(c) => c,
        None => return "BADCASE".into(),
    };
    if needs_real_time_budget(&cfg) {
        return match spawn_budgeted(cfg).recv_timeout(Duration::from_secs(3)) {
            Ok(s) => s,
            Err(_) => TIMEOUT_TRACE.to_string(),
        };
    }
    client_case(cfg)
}

/// pure function of the case line
pub fn run_case(line: &str) -> String {
    let l = line.to_string();
    let r = std::panic::catch_unwind(std::panic::AssertUnwindSafe(|| {
        if l.starts_with("sasl-l ") {
            run_listener(&l)
        } else if l.starts_with("sasl-c ") {
            run_client(&l)
        } else {
            "BADCASE".to_string()
        }
    }));
    r.unwrap_or_else(|_| "PANIC".to_string())
}

// ------------------------------------------------------------------------------------------
// direct oracle
// ------------------------------------------------------------------------------------------

/// wire tokens of one trace step (everything that is not a result, a label or an end marker)
fn step_tokens(step: &str) -> Vec<String> {
    let mut v = Vec::new();
    for w in step.split_whitespace() {
        if w.contains("accept=") || w.contains("open=") || w == "EOF" || w == "#" {
            continue;
        }
        let w = w.trim_start_matches('+');
        // client traces carry a `label:` in front of the tokens
        let w = match w.find(':') {
            Some(p) if w[..p].chars().all(|c| c.is_ascii_alphanumeric() || c == '#') && !w[..p].is_empty() && !w.starts_with("Out(") && !w.starts_with("Ch(") => &w[p + 1..],
            _ => w,
        };
        for t in split_top(w) {
            if t != "-" && !t.is_empty() {
                v.push(t);
            }
        }
    }
    v
}

/// split on commas that are not inside brackets
fn split_top(s: &str) -> Vec<String> {
    let mut out = Vec::new();
    let mut depth = 0i32;
    let mut cur = String::new();
    for c in s.chars() {
        match c {
            '(' | '[' => {
                depth += 1;
                cur.push(c)
            }
            ')' | ']' => {
                depth -= 1;
                cur.push(c)
            }
            ',' if depth <= 0 => out.push(std::mem::take(&mut cur)),
            _ => cur.push(c),
        }
    }
    out.push(cur);
    out
}

fn result_of(step: &str, key: &str) -> Option<String> {
    step.split_whitespace().find_map(|w| w.strip_prefix(key).map(|s| s.to_string()))
}

fn oracle_listener(line: &str, trace: &str) -> Vec<String> {
    let mut v = Vec::new();
    let (head, actions) = split_line(line);
    let cfg = match parse_lcfg(&head) {
        Some(c) => c,
        None => return v,
    };
    if trace.contains("PANIC") {
        v.push(format!("c19-panic: the listener panicked: {}", trace));
    }
    // the library's own client against the listener
    if let Some(first) = actions.first() {
        let w: Vec<&str> = first.split_whitespace().collect();
        if let ["real", kind, u, p] = w.as_slice() {
            let tag = match cfg.mech {
                LMech::Plain => "plain",
                LMech::Scram(x) => x.tag(),
            };
            let exact = *kind == tag && unpct(u) == cfg.cu.as_bytes() && unpct(p) == cfg.cp.as_bytes();
            let acc = result_of(trace, "accept=").unwrap_or_default();
            let cli = result_of(trace, "client=").unwrap_or_default();
            if exact {
                if acc != "ok" || cli != "ok" {
                    v.push(format!("c19-valid-rejected: the library's client with the configured credentials: accept={} client={}", acc, cli));
                }
            } else {
                if acc == "ok" {
                    v.push(format!("c19-open-without-auth: accept returned Ok for client profile {} {} {}", kind, u, p));
                }
                if acc == "PENDING" {
                    v.push("c19-no-failure-reported: accept still pending 60 s after a failed exchange".to_string());
                }
                if cli == "ok" {
                    v.push(format!("c19-client-ok-on-non-ok-outcome: the client reports success for profile {} {} {}", kind, u, p));
                }
                if cli == "PENDING" {
                    v.push("c19-hang: the client's open is still pending after 60 s".to_string());
                }
            }
            return v;
        }
    }
    let steps: Vec<&str> = trace.split(" ; ").collect();
    let n = actions.len();
    if steps.len() != n + 2 {
        return v;
    }
    let mut auth = vec![Auth::Fresh];
    for a in &actions {
        let last = *auth.last().unwrap();
        auth.push(step_auth(&cfg, last, a));
    }
    let auth_at = |i: usize| if i <= n { auth[i] } else { auth[n] };
    let entitled = |a: Auth| a == Auth::Authed || a == Auth::Neutral;
    let mut ooo = false;
    let mut accept_err_seen = false;
    let mut told = false;
    let mut last_init_ok = false;
    for (i, st) in steps.iter().enumerate() {
        let toks = step_tokens(st);
        let act: Vec<&str> = if i >= 1 && i <= n { actions[i - 1].split_whitespace().collect() } else { vec![] };
        // are the credentials of this very action the configured ones (whatever came before)?
        let creds_good = match (cfg.mech, act.as_slice()) {
            (LMech::Plain, ["init", _, spec]) => {
                let bytes = if let Some(r) = spec.strip_prefix("raw:") {
                    Some(unpct(r))
                } else {
                    spec.strip_prefix("plain:").map(|x| plain_resp(x, cfg.cu.as_bytes(), cfg.cp.as_bytes()))
                };
                bytes.map(|b| plain_strictly_valid(&b, cfg.cu.as_bytes(), cfg.cp.as_bytes())).unwrap_or(false)
            }
            (LMech::Scram(_), ["resp", "scram:ok"]) => last_init_ok,
            _ => false,
        };
        if let (LMech::Scram(x), ["init", mech, spec]) = (cfg.mech, act.as_slice()) {
            last_init_ok = *spec == "scram:ok" && unpct(mech) == x.mech().as_bytes();
        }
        let a = auth_at(i);
        if st.contains("EOF") {
            told = true;
        }
        if st.contains("accept=err") {
            accept_err_seen = true;
        }
        for t in &toks {
            if t.starts_with("Out(0") && !entitled(a) {
                if creds_good {
                    ooo = true;
                    v.push(format!(
                        "c19-outcome-ok-out-of-order: outcome ok at step {} (`{}`) although the SASL frames before it were out of order (state {:?})",
                        i,
                        act.join(" "),
                        auth_at(i.saturating_sub(1))
                    ));
                } else {
                    v.push(format!("c19-outcome-ok-for-bad-credentials: outcome ok at step {} for `{}`", i, act.join(" ")));
                }
            }
            if t.starts_with("Out(") && !t.starts_with("Out(0") {
                told = true;
                if !accept_err_seen {
                    v.push(format!("c19-no-failure-reported: {} written at step {} but accept has not returned an error", t, i));
                }
            }
            if (t == "H" || t == "O") && !entitled(a) {
                let class = if ooo { "c19-open-after-out-of-order" } else { "c19-open-without-auth" };
                v.push(format!("{}: the listener wrote {} at step {} (state {:?})", class, t, i, a));
            }
        }
        if st.contains("accept=ok") && !entitled(a) {
            let class = if ooo { "c19-open-after-out-of-order" } else { "c19-open-without-auth" };
            v.push(format!("{}: accept returned Ok at step {} (state {:?})", class, i, a));
        }
        // a valid exchange makes progress
        if i >= 1 && i <= n && a == Auth::Challenged && auth[i - 1] == Auth::InSasl {
            let good = toks.iter().any(|t| {
                t.starts_with("Ch(r=ext:") && (t.contains(":s=ok:") || t.contains(":s=len")) && (cfg.lib_cred || t.ends_with(&format!(":i={})", cfg.it)))
            });
            if !good {
                v.push(format!("c19-valid-rejected: no usable challenge for a valid client-first message at step {}: {:?}", i, toks));
            }
        }
        if i >= 1 && i <= n && a == Auth::Authed && auth[i - 1] != Auth::Authed {
            let want = if cfg.mech == LMech::Plain { "Out(0" } else { "Out(0:v=ok)" };
            if !toks.iter().any(|t| t.starts_with(want)) {
                v.push(format!("c19-valid-rejected: the exchange completed validly at step {} but the listener wrote {:?}", i, toks));
            } else if !toks.iter().any(|t| t == "H") {
                v.push(format!("c19-valid-rejected: no AMQP header after outcome ok at step {}: {:?}", i, toks));
            }
            let rest: Vec<&str> = actions[i..].iter().map(|s| s.as_str()).collect();
            if rest == ["ha", "open"] && !trace.contains("accept=ok") {
                v.push(format!("c19-valid-rejected: valid exchange, header and open, but {}", steps[n + 1]));
            }
        }
    }
    let fin = steps.iter().rev().find_map(|s| result_of(s, "accept=")).unwrap_or_default();
    if !entitled(auth[n]) {
        if fin == "PENDING" {
            v.push("c19-no-failure-reported: accept still pending 60 s after the client closed its side of an invalid exchange".to_string());
        } else if fin == "ok" {
            v.push("c19-no-failure-reported: accept returned Ok for an invalid exchange".to_string());
        }
        if !told && fin != "ok" {
            v.push("c19-no-failure-reported: the client side saw neither a failure outcome nor the end of the stream".to_string());
        }
    } else if fin == "PENDING" {
        v.push("c19-hang: accept still pending 60 s after the client closed its side".to_string());
    }
    v
}

fn oracle_client(line: &str, trace: &str) -> Vec<String> {
    let mut v = Vec::new();
    let cfg = match parse_ccfg(line) {
        Some(c) => c,
        None => return v,
    };
    if trace.starts_with("TIMEOUT") {
        v.push(format!("c15-scram-iterations: i={} from the server makes the client do work out of proportion ({})", cfg.i, trace));
        return v;
    }
    if trace.contains("PANIC") {
        v.push(format!("c19-panic: the client panicked: {}", trace));
    }
    let toks: Vec<String> = trace.split(" ; ").flat_map(step_tokens).collect();
    let went_on = toks.iter().any(|t| t == "H" || t == "O");
    let ok = trace.contains("open=ok");
    let proven = honest(&cfg.t) && own_iters(&cfg.i).is_some();
    if !proven && (ok || went_on) {
        if cfg.t.starts_with("code") {
            v.push(format!("c19-client-ok-on-non-ok-outcome: tampering {}: {}", cfg.t, trace));
        } else {
            v.push(format!("c19-client-accepts-unproven-server: tampering {} i={}: {}", cfg.t, cfg.i, trace));
        }
    }
    if proven && own_iters(&cfg.i).map(|n| n >= 1).unwrap_or(false) && !ok {
        v.push(format!("c19-valid-rejected: honest server ({}) but {}", cfg.t, trace));
    }
    if trace.contains("open=PENDING") {
        v.push("c19-hang: open still pending 60 s after the server closed".to_string());
    }
    v
}

pub fn direct_oracle(case_line: &str, trace: &str) -> Vec<String> {
    if case_line.starts_with("sasl-l ") {
        oracle_listener(case_line, trace)
    } else if case_line.starts_with("sasl-c ") {
        oracle_client(case_line, trace)
    } else {
        vec![]
    }
}

// ------------------------------------------------------------------------------------------
// generation
// ------------------------------------------------------------------------------------------

const MECH_NAMES: [&str; 12] =
    ["PLAIN", "SCRAM-SHA-1", "SCRAM-SHA-256", "SCRAM-SHA-512", "ANONYMOUS", "EXTERNAL", "plain", "-", "PLAIN%20", "SCRAM-SHA-256-PLUS", "scram-sha-256", "X"];

const PLAIN_CFGS: [(&str, &str); 5] =
    [("guest", "secret"), ("user", "pencil"), ("u", "p"), ("admin@example.com", "p%C3%A4%20s%2C%3Dw0rd"), ("guest", "guest")];
const SCRAM_CFGS: [(&str, &str); 3] = [("user", "pencil"), ("guest", "secret"), ("u", "p")];

fn rbytes(r: &mut Rng, lo: u64, hi: u64) -> Vec<u8> {
    let n = r.range(lo, hi) as usize;
    r.bytes(n)
}

fn head(mech: &str, cred: &str, cu: &str, cp: &str, it: &str) -> String {
    format!("sasl-l mech={} cred={} cu={} cp={} it={}", mech, cred, cu, cp, it)
}

fn gen_head(r: &mut Rng) -> String {
    match r.below(20) {
        0..=7 => {
            let (u, p) = *r.pick(&PLAIN_CFGS);
            head("plain", "-", u, p, "-")
        }
        k => {
            let v = match k {
                8..=13 => "s256",
                14..=16 => "s1",
                _ => "s512",
            };
            let (u, p) = *r.pick(&SCRAM_CFGS);
            if r.chance(1, 5) {
                head(v, "lib", u, p, "4096")
            } else {
                head(v, "own", u, p, *r.pick(&["4096", "4096", "4096", "64", "1"]))
            }
        }
    }
}

fn rand_init(r: &mut Rng, plain: bool, right_mech: &str) -> String {
    let mech = if r.chance(9, 10) { right_mech.to_string() } else { r.pick(&MECH_NAMES).to_string() };
    let spec = match r.below(20) {
        0 => "none".to_string(),
        1 | 2 => format!("raw:{}", pct(&rbytes(r, 0, 11))),
        3 => format!("{}:{}", if plain { "scram" } else { "plain" }, "exact").replace("scram:exact", "scram:ok"),
        4..=10 => {
            if plain {
                format!("plain:{}", if r.chance(1, 4) { "authz" } else { "exact" })
            } else {
                "scram:ok".to_string()
            }
        }
        _ => {
            if plain {
                format!("plain:{}", r.pick(&PLAIN_VARIANTS))
            } else {
                format!("scram:{}", r.pick(&SCRAM_FIRST_VARIANTS))
            }
        }
    };
    format!("init {} {}", mech, spec)
}

fn rand_resp(r: &mut Rng) -> String {
    match r.below(10) {
        0 => format!("resp raw:{}", pct(&rbytes(r, 0, 11))),
        1..=5 => "resp scram:ok".to_string(),
        _ => format!("resp scram:{}", r.pick(&SCRAM_FINAL_VARIANTS)),
    }
}

fn rand_action(r: &mut Rng, plain: bool, right_mech: &str) -> String {
    match r.below(24) {
        0 | 1 => "hs".into(),
        2 => "ha".into(),
        3 => format!("hdr:{}", r.pick(&["414d515003010001", "414d515002010000", "414d515003000900", "414d5150030100", "0000000000000000"])),
        4..=6 => rand_init(r, plain, right_mech),
        7..=9 => rand_resp(r),
        10 => "mechs".into(),
        11 => "chal".into(),
        12 => format!("outc:{}", r.pick(&[0u8, 0, 1, 2, 7])),
        13 | 14 => "open".into(),
        15 => "empty".into(),
        16 => "sempty".into(),
        17 => "trunc".into(),
        18 => format!("short:{}", r.below(8)),
        19 => format!("garbage:{}", crate::val::hex(&rbytes(r, 1, 16))),
        20 | 21 => format!("minit:{}", r.pick(&["nomech", "nofields", "baddesc", "ftype2", "doff1", "respstr", "big"])),
        _ => "eof".into(),
    }
}

pub fn gen_listener(r: &mut Rng, thorough: bool) -> String {
    let h = gen_head(r);
    let plain = h.contains("mech=plain");
    let cfg = parse_lcfg(&h).unwrap();
    let right = cfg.mech_name();
    let mut acts: Vec<String> = Vec::new();
    if r.chance(1, 4) {
        // malformed stream
        for _ in 0..r.range(1, if thorough { 8 } else { 6 }) {
            acts.push(rand_action(r, plain, right));
        }
    } else {
        if r.chance(17, 20) {
            acts.push("hs".into());
        } else {
            acts.push(rand_action(r, plain, right));
        }
        if r.chance(1, 12) {
            acts.push(rand_action(r, plain, right));
        }
        acts.push(rand_init(r, plain, right));
        if !plain {
            if r.chance(1, 8) {
                acts.push(rand_action(r, plain, right));
            }
            acts.push(rand_resp(r));
        }
        if r.chance(1, 2) {
            acts.push("ha".into());
            acts.push("open".into());
        } else {
            for _ in 0..r.below(4) {
                acts.push(rand_action(r, plain, right));
            }
        }
    }
    let h = if r.chance(1, 8) { format!("{} frag={}", h, r.pick(&[1u8, 3, 7])) } else { h };
    format!("{} ; {}", h, acts.join(" ; "))
}

pub fn gen_client(r: &mut Rng, _thorough: bool) -> String {
    let v = *r.pick(&["s1", "s256", "s256", "s512"]);
    let (u, p) = *r.pick(&[("user", "pencil"), ("guest", "secret"), ("u", "p"), ("admin@example.com", "correct%20horse")]);
    let salt = pct(&rbytes(r, 0, 32));
    let i = *r.pick(&["1", "2", "100", "4096", "4096", "4096"]);
    let t = if r.chance(1, 4) { "none" } else { *r.pick(&TAMPERS) };
    format!("sasl-c v={} u={} p={} salt={} i={} t={}", v, u, p, salt, i, t)
}

pub fn gen_case(r: &mut Rng, thorough: bool) -> String {
    if r.chance(3, 4) {
        gen_listener(r, thorough)
    } else {
        gen_client(r, thorough)
    }
}

fn enumerate(out: &mut Vec<String>, head: &str, alphabet: &[&str], max_len: usize) {
    let mut cur: Vec<Vec<&str>> = vec![vec![]];
    for _ in 0..max_len {
        let mut next = Vec::new();
        for s in &cur {
            for a in alphabet {
                let mut t = s.clone();
                t.push(*a);
                out.push(format!("{} ; {}", head, t.join(" ; ")));
                next.push(t);
            }
        }
        cur = next;
    }
}

/// the systematic part of the campaign
fn systematic(thorough: bool) -> Vec<String> {
    let mut v = Vec::new();
    // all short action sequences over reduced alphabets
    let plain_small = ["hs", "ha", "init PLAIN plain:exact", "init PLAIN plain:wrongpw", "resp raw:00", "outc:0", "open", "empty", "eof", "garbage:0000000c02010000"];
    let plain_more = ["init PLAIN plain:extranul", "init ANONYMOUS plain:exact", "init PLAIN none", "sempty"];
    let s256_small = [
        "hs",
        "ha",
        "init SCRAM-SHA-256 scram:ok",
        "init SCRAM-SHA-256 scram:unknownuser",
        "resp scram:ok",
        "resp scram:wrongpw",
        "outc:0",
        "open",
        "eof",
        "mechs",
    ];
    let s256_more = ["resp scram:badnonce", "init PLAIN plain:exact", "empty", "chal"];
    let hp = head("plain", "-", "guest", "secret", "-");
    let hs = head("s256", "own", "user", "pencil", "4096");
    if thorough {
        let a: Vec<&str> = plain_small.iter().chain(plain_more.iter()).cloned().collect();
        enumerate(&mut v, &hp, &a, 4);
        let b: Vec<&str> = s256_small.iter().chain(s256_more.iter()).cloned().collect();
        enumerate(&mut v, &hs, &b, 4);
        enumerate(&mut v, &hs, &["hs", "init SCRAM-SHA-256 scram:ok", "resp scram:ok", "resp scram:flip", "ha", "open"], 6);
    } else {
        enumerate(&mut v, &hp, &plain_small, 4);
        enumerate(&mut v, &hs, &s256_small, 4);
    }
    for m in ["s1", "s512"] {
        let name = V::from_tag(m).unwrap().mech();
        let i = format!("init {} scram:ok", name);
        enumerate(&mut v, &head(m, "own", "user", "pencil", "4096"), &["hs", &i, "resp scram:ok", "resp scram:flip", "ha", "open"], if thorough { 5 } else { 4 });
        enumerate(&mut v, &head(m, "lib", "user", "pencil", "4096"), &["hs", &i, "resp scram:ok", "resp scram:pw1", "ha"], 3);
    }
    // every credential variant, every mechanism name, followed by the AMQP layer
    for (u, p) in PLAIN_CFGS {
        let h = head("plain", "-", u, p, "-");
        for var in PLAIN_VARIANTS {
            v.push(format!("{} ; hs ; init PLAIN plain:{} ; ha ; open", h, var));
        }
        for m in MECH_NAMES {
            v.push(format!("{} ; hs ; init {} plain:exact ; ha ; open", h, m));
            v.push(format!("{} ; hs ; init {} plain:wrongpw ; ha ; open", h, m));
        }
        v.push(format!("{} ; hs ; init PLAIN none ; ha ; open", h));
        v.push(format!("{} ; ha ; init PLAIN plain:exact ; ha ; open", h));
        v.push(format!("{} ; ha ; open", h));
        v.push(format!("{} ; open", h));
        v.push(format!("{} ; hs ; ha ; open", h));
        v.push(format!("{} ; hs ; init PLAIN plain:wrongpw ; init PLAIN plain:exact ; ha ; open", h));
        for k in ["nomech", "nofields", "baddesc", "ftype2", "doff1", "respstr", "big"] {
            v.push(format!("{} ; hs ; minit:{} ; ha ; open", h, k));
        }
        for k in ["short:0", "short:4", "short:5", "short:7", "sempty", "trunc", "empty", "mechs", "chal", "outc:0", "outc:1", "open"] {
            v.push(format!("{} ; hs ; {} ; init PLAIN plain:exact ; ha ; open", h, k));
            v.push(format!("{} ; hs ; {}", h, k));
        }
    }
    for ver in ["s1", "s256", "s512"] {
        let name = V::from_tag(ver).unwrap().mech();
        for cred in ["own", "lib"] {
            for (u, p) in SCRAM_CFGS {
                if cred == "lib" && u != "user" {
                    continue;
                }
                for it in ["4096", "1"] {
                    if cred == "lib" && it != "4096" {
                        continue;
                    }
                    let h = head(ver, cred, u, p, it);
                    for f in SCRAM_FIRST_VARIANTS {
                        v.push(format!("{} ; hs ; init {} scram:{} ; resp scram:ok ; ha ; open", h, name, f));
                    }
                    for f in SCRAM_FINAL_VARIANTS {
                        v.push(format!("{} ; hs ; init {} scram:ok ; resp scram:{} ; ha ; open", h, name, f));
                    }
                    for m in MECH_NAMES {
                        v.push(format!("{} ; hs ; init {} scram:ok ; resp scram:ok ; ha ; open", h, m));
                    }
                    v.push(format!("{} ; hs ; init {} none ; resp scram:ok ; ha ; open", h, name));
                    v.push(format!("{} ; hs ; init {} plain:exact ; resp scram:ok ; ha ; open", h, name));
                    v.push(format!("{} ; hs ; resp scram:ok ; ha ; open", h));
                    v.push(format!("{} ; hs ; init {} scram:ok ; ha ; open", h, name));
                    v.push(format!("{} ; hs ; init {} scram:ok ; init {} scram:ok ; resp scram:ok ; ha ; open", h, name, name));
                    v.push(format!("{} ; hs ; init {} scram:unknownuser ; init {} scram:ok ; resp scram:ok ; ha ; open", h, name, name));
                    v.push(format!("{} ; hs ; init {} scram:ok ; resp scram:wrongpw ; resp scram:ok ; ha ; open", h, name));
                    v.push(format!("{} ; hs ; init {} scram:ok ; resp scram:ok ; resp scram:ok ; ha ; open", h, name));
                    v.push(format!("{} ; hs ; init {} scram:ok ; empty ; resp scram:ok ; ha ; open", h, name));
                    v.push(format!("{} ; hs ; init {} scram:ok ; mechs ; resp scram:ok ; ha ; open", h, name));
                    v.push(format!("{} ; ha ; init {} scram:ok ; resp scram:ok ; ha ; open", h, name));
                }
            }
        }
    }
    for frag in [1, 5] {
        let h = format!("{} frag={}", head("plain", "-", "guest", "secret", "-"), frag);
        for var in ["exact", "wrongpw", "pwprefix", "extranul"] {
            v.push(format!("{} ; hs ; init PLAIN plain:{} ; ha ; open", h, var));
        }
        v.push(format!("{} ; ha ; open", h));
        for ver in ["s1", "s256", "s512"] {
            let name = V::from_tag(ver).unwrap().mech();
            let h = format!("{} frag={}", head(ver, "own", "user", "pencil", "4096"), frag);
            for f in ["ok", "wrongpw", "flip", "badnonce"] {
                v.push(format!("{} ; hs ; init {} scram:ok ; resp scram:{} ; ha ; open", h, name, f));
            }
        }
    }
    // the library's own client against the listener
    let heads = [
        head("plain", "-", "guest", "secret", "-"),
        head("s1", "own", "user", "pencil", "4096"),
        head("s256", "own", "user", "pencil", "4096"),
        head("s256", "lib", "user", "pencil", "4096"),
        head("s512", "lib", "user", "pencil", "4096"),
    ];
    for h in heads.iter() {
        let cfg = parse_lcfg(h).unwrap();
        let (cu, cp) = (pct(cfg.cu.as_bytes()), pct(cfg.cp.as_bytes()));
        for kind in ["plain", "s1", "s256", "s512", "anon", "none"] {
            v.push(format!("{} ; real {} {} {}", h, kind, cu, cp));
            if kind != "anon" && kind != "none" {
                v.push(format!("{} ; real {} {} {}x", h, kind, cu, cp));
                v.push(format!("{} ; real {} nobody {}", h, kind, cp));
                v.push(format!("{} ; real {} {} -", h, kind, cu));
            }
        }
    }
    // every tampering of the scripted server, for every SCRAM variant
    for ver in ["s1", "s256", "s512"] {
        for t in TAMPERS {
            v.push(format!("sasl-c v={} u=user p=pencil salt=W22ZaJ0SNY7soEsUEjb6gQ i=4096 t={}", ver, t));
        }
        for i in ["0", "1", "2", "4096", "4294967295", "abc", "%2D1", "4294967296", "-", "4096x", "%204096", "0x1000"] {
            v.push(format!("sasl-c v={} u=user p=pencil salt=W22ZaJ0SNY7soEsUEjb6gQ i={} t=none", ver, i));
        }
        for salt in ["-", "%00", "s"] {
            v.push(format!("sasl-c v={} u=user p=pencil salt={} i=4096 t=none", ver, salt));
        }
    }
    v
}

// ------------------------------------------------------------------------------------------
// campaign
// ------------------------------------------------------------------------------------------

fn account(out: &mut Outputs, line: &str, trace: &str) {
    if line.starts_with("sasl-l ") {
        out.count("listener_cases");
        let (h, actions) = split_line(line);
        if let Some(cfg) = parse_lcfg(&h) {
            out.count(&format!(
                "l_mech_{}{}",
                match cfg.mech {
                    LMech::Plain => "plain",
                    LMech::Scram(v) => v.tag(),
                },
                if cfg.lib_cred { "_libcred" } else { "" }
            ));
            if cfg.frag > 0 {
                out.count("l_fragmented_writes");
            }
            if actions.first().map(|a| a.starts_with("real")).unwrap_or(false) {
                out.count("l_real_client");
                out.count(&format!("l_real_{}", if trace.contains("accept=ok") { "accepted" } else { "refused" }));
                out.nontrivial(line);
            } else {
                let mut a = Auth::Fresh;
                for act in &actions {
                    a = step_auth(&cfg, a, act);
                    let w: Vec<&str> = act.split_whitespace().collect();
                    let k = w[0].split(':').next().unwrap_or("?");
                    out.count(&format!("l_act_{}", k));
                    if k == "init" || k == "resp" {
                        let spec = w.last().unwrap();
                        let kind = if spec.starts_with("raw:") { "raw".to_string() } else { spec.replace(':', "_") };
                        out.count(&format!("l_{}_{}", k, kind));
                    }
                }
                out.count(&format!("l_exchange_{:?}", a).to_lowercase());
                out.add("l_actions", actions.len() as u64);
                out.count(&format!("l_len_{}", actions.len().min(8)));
            }
            for c in 0..5 {
                if trace.contains(&format!("Out({}", c)) {
                    out.count(&format!("l_outcome_{}", c));
                }
            }
            if trace.contains("Ch(") {
                out.count("l_challenge_sent");
            }
            let res = trace.split_whitespace().rev().find_map(|w| w.strip_prefix("accept=")).unwrap_or("none");
            out.count(&format!("l_accept_{}", res.split('(').next().unwrap_or(res).replace("err:", "err_")));
            if trace.contains("Out(") {
                out.nontrivial(line);
            }
        }
    } else {
        out.count("client_cases");
        if let Some(cfg) = parse_ccfg(line) {
            out.count(&format!("c_variant_{}", cfg.v.tag()));
            out.count(&format!("c_tamper_{}", cfg.t));
            out.count(&format!("c_iter_{}", pct(cfg.i.as_bytes())));
            let res = trace.split_whitespace().rev().find_map(|w| w.strip_prefix("open=")).unwrap_or("none");
            out.count(&format!("c_open_{}", res.split('(').next().unwrap_or(res).replace("err:", "err_")));
            if trace.contains("Resp(") {
                out.count("c_client_final_sent");
                out.nontrivial(line);
            }
            if trace.contains("p=ok") {
                out.count("c_client_proof_verified");
            }
        }
    }
}

pub fn run(seed: u64, n: u64, thorough: bool, corpus: &[String], dir: &str) {
    crate::codec::quiet_panics();
    let mut out = Outputs::new(dir);
    let mut r = Rng::new(seed);
    let mut lines: Vec<String> = Vec::new();
    for l in corpus {
        if l.starts_with("sasl-l ") || l.starts_with("sasl-c ") {
            out.count("corpus_cases");
            lines.push(l.clone());
        }
    }
    let sys = systematic(thorough);
    out.add("systematic_cases", sys.len() as u64);
    lines.extend(sys);
    for _ in 0..n {
        lines.push(gen_listener(&mut r, thorough));
    }
    let nc = if n == 0 { 0 } else { (n / 3).max(1) };
    for _ in 0..nc {
        lines.push(gen_client(&mut r, thorough));
    }
    out.add("random_cases", n + nc);
    // cases under a real-time budget run beside the others
    let mut budgeted: Vec<(String, std::sync::mpsc::Receiver<String>, std::time::Instant)> = Vec::new();
    let mut done = std::collections::HashSet::new();
    for l in &lines {
        if l.starts_with("sasl-c ") && !done.contains(l) {
            if let Some(cfg) = parse_ccfg(l) {
                if needs_real_time_budget(&cfg) {
                    done.insert(l.clone());
                    budgeted.push((l.clone(), spawn_budgeted(cfg), std::time::Instant::now()));
                }
            }
        }
    }
    let finish = |out: &mut Outputs, line: &str, t: &str| {
        account(out, line, t);
        for v in direct_oracle(line, t) {
            let class = v.split(':').next().unwrap_or("?").to_string();
            out.violation(&class, &format!("{} | case `{}` -> {}", v, line, t), line);
        }
        out.case(line, t);
    };
    for l in &lines {
        if done.contains(l) {
            continue;
        }
        let t = run_case(l);
        finish(&mut out, l, &t);
    }
    for (l, rx, t0) in budgeted {
        let left = Duration::from_secs(3).saturating_sub(t0.elapsed());
        let t = rx.recv_timeout(left).unwrap_or_else(|_| TIMEOUT_TRACE.to_string());
        out.count("c_real_time_budgeted");
        finish(&mut out, &l, &t);
    }
    out.finish(dir);
}

#[cfg(test)]
mod tests {
    use super::*;

    #[test]
    fn rfc_vectors() {
        // RFC 5802 section 5
        let bare = b"n=user,r=fyko+d2lbbFgONRv9qkxdawL";
        let sf = b"r=fyko+d2lbbFgONRv9qkxdawL3rfcNHYJY1ZVvWVs7j,s=QSXCR+Q6sek8bf92,i=4096";
        let wo = b"c=biws,r=fyko+d2lbbFgONRv9qkxdawL3rfcNHYJY1ZVvWVs7j";
        let k = keys(V::S1, b"pencil", &unb64("QSXCR+Q6sek8bf92").unwrap(), 4096);
        let am = auth_message(bare, sf, wo);
        assert_eq!(b64(&client_proof(V::S1, &k, &am)), "v0X8v3Bz2T0CJGbJQyF0X+HI4Ts=");
        assert_eq!(b64(&server_signature(V::S1, &k, &am)), "rmF9pqV8S7suAoZWja4dJRkFsKQ=");
        assert!(proof_ok(V::S1, &k, &am, &unb64("v0X8v3Bz2T0CJGbJQyF0X+HI4Ts=").unwrap()));
        // RFC 7677 section 3
        let bare = b"n=user,r=rOprNGfwEbeRWgbNEkqO";
        let sf = b"r=rOprNGfwEbeRWgbNEkqO%hvYDpWUa2RaTCAfuxFIlj)hNlF$k0,s=W22ZaJ0SNY7soEsUEjb6gQ==,i=4096";
        let wo = b"c=biws,r=rOprNGfwEbeRWgbNEkqO%hvYDpWUa2RaTCAfuxFIlj)hNlF$k0";
        let k = keys(V::S256, b"pencil", &unb64("W22ZaJ0SNY7soEsUEjb6gQ==").unwrap(), 4096);
        let am = auth_message(bare, sf, wo);
        assert_eq!(b64(&client_proof(V::S256, &k, &am)), "dHzbZapWIk4jUhN+Ute9ytag9zjfMHgsqmmiz7AndVQ=");
        assert_eq!(b64(&server_signature(V::S256, &k, &am)), "6rriTRBi23WpRR/wtup+mMhUZUn/dB5nLTJRsjl95G4=");
        assert_eq!(unpct(&pct(b"a b%\x00\xff-")), b"a b%\x00\xff-");
        assert_eq!(unb64("QQ==").unwrap(), b"A");
        assert!(unb64("Q=Q=").is_none());
    }

    fn classes(line: &str, trace: &str) -> Vec<String> {
        direct_oracle(line, trace).iter().map(|v| v.split(':').next().unwrap().to_string()).collect()
    }

    #[test]
    fn oracle_fires() {
        let h = "sasl-l mech=plain cred=- cu=guest cp=secret it=-";
        let good = "Hs ; M[PLAIN] ; Out(0),H ; O ; - accept=ok ; #";
        assert!(classes(&format!("{} ; hs ; init PLAIN plain:exact ; ha ; open", h), good).is_empty());
        let c = classes(&format!("{} ; hs ; init PLAIN plain:wrongpw ; ha ; open", h), good);
        assert!(c.contains(&"c19-open-without-auth".to_string()) && c.contains(&"c19-outcome-ok-for-bad-credentials".to_string()), "{:?}", c);
        let c = classes(&format!("{} ; hs ; init PLAIN plain:exact ; ha ; open", h), "Hs ; M[PLAIN] ; Out(1) accept=err:SaslError(Auth) EOF ; - ; - ; #");
        assert!(!c.is_empty() && c.iter().all(|x| x == "c19-valid-rejected"), "{:?}", c);
        let c = classes(&format!("{} ; hs ; init PLAIN plain:wrongpw", h), "Hs ; M[PLAIN] ; Out(1) ; # accept=PENDING");
        assert!(c.iter().all(|x| x == "c19-no-failure-reported") && c.len() == 2, "{:?}", c);
        let c = classes(&format!("{} ; ha", h), "Hs ; H ; # accept=err:Io EOF");
        assert_eq!(c, vec!["c19-open-without-auth"]);
        let c = classes(&format!("{} ; hs ; init PLAIN plain:exact ; eof", h), "Hs ; M[PLAIN] ; Out(0),H ; - ; # accept=PENDING");
        assert_eq!(c, vec!["c19-hang"]);
        let hs = "sasl-l mech=s256 cred=own cu=user cp=pencil it=4096";
        let c = classes(
            &format!("{} ; hs ; init SCRAM-SHA-256 scram:ok ; resp scram:ok ; ha ; open", hs),
            "Hs ; M[SCRAM-SHA-256] ; Ch(r=ext:s=ok:i=4096) ; Out(0:v=bad),H ; O ; - accept=ok ; #",
        );
        assert_eq!(c, vec!["c19-valid-rejected"]);
        let c = classes(
            &format!("{} ; hs ; init SCRAM-SHA-256 scram:ok ; resp scram:flip ; ha ; open", hs),
            "Hs ; M[SCRAM-SHA-256] ; Ch(r=ext:s=ok:i=4096) ; Out(0:v=ok),H ; O ; - accept=ok ; #",
        );
        assert!(c.contains(&"c19-outcome-ok-for-bad-credentials".to_string()), "{:?}", c);
        let c = classes(&format!("{} ; real s256 user wrong", hs), "real: accept=ok client=ok");
        assert!(c.contains(&"c19-open-without-auth".to_string()) && c.contains(&"c19-client-ok-on-non-ok-outcome".to_string()));
        let base = "sasl-c v=s256 u=user p=pencil salt=s i=4096 t=";
        let okt = "start:Hs ; hdr:- ; mechs:Init(SCRAM-SHA-256:gs2=ok:n=ok:r=44) ; chal:Resp(c=ok:r=ok:p=ok) ; outcome:H ; amqp:O open=ok";
        assert!(classes(&format!("{}none", base), okt).is_empty());
        assert_eq!(classes(&format!("{}sig-flip", base), okt), vec!["c19-client-accepts-unproven-server"]);
        assert_eq!(classes(&format!("{}code3", base), okt), vec!["c19-client-ok-on-non-ok-outcome"]);
        assert_eq!(
            classes(&format!("{}none", base), "start:Hs ; hdr:- ; mechs:- ; #:- open=err:Io"),
            vec!["c19-valid-rejected"]
        );
        assert_eq!(
            classes(&format!("{}nonce-replace", base), "start:Hs ; hdr:- ; mechs:Init(X:gs2=ok:n=ok:r=44) ; chal:Resp(c=ok:r=ok:p=ok) ; outcome:H ; #:- open=err:Io"),
            vec!["c19-client-accepts-unproven-server"]
        );
    }
}

// ------------------------------------------------------------------------------------------
// abstract view of listener cases, compared with the Coq model (tag `saslm`)
// ------------------------------------------------------------------------------------------

/// the client's action as the model sees it; None: outside the model's alphabet (malformed bytes: C15)
fn abstract_action(cfg: &LCfg, act: &str) -> Option<&'static str> {
    let w: Vec<&str> = act.split_whitespace().collect();
    Some(match w.as_slice() {
        ["hs"] => "hs",
        ["ha"] => "ha",
        ["open"] => "open",
        ["eof"] => "eof",
        ["mechs"] | ["chal"] => "cframe",
        // an outcome with a code outside 0..=4 does not decode: malformed, not in this alphabet
        [x] if x.starts_with("outc:") => match x[5..].parse::<u8>() { Ok(c) if c <= 4 => "cframe", _ => return None },
        // arbitrary header bytes may be a partial header: not at the granularity of this model
        [x] if x.starts_with("hdr:") => return None,
        ["init", mech, spec] => match cfg.mech {
            LMech::Plain => {
                let bytes = if let Some(r) = spec.strip_prefix("raw:") {
                    Some(unpct(r))
                } else {
                    spec.strip_prefix("plain:").map(|v| plain_resp(v, cfg.cu.as_bytes(), cfg.cp.as_bytes()))
                };
                // the PLAIN acceptor does not look at the mechanism name (not decided by the property)
                let _ = mech;
                match bytes {
                    Some(b) if plain_strictly_valid(&b, cfg.cu.as_bytes(), cfg.cp.as_bytes()) => "initok",
                    _ => "initbad",
                }
            }
            LMech::Scram(v) => {
                if *spec == "scram:ok" && unpct(mech) == v.mech().as_bytes() {
                    "initok"
                } else {
                    "initbad"
                }
            }
        },
        ["resp", spec] => {
            if *spec == "scram:ok" {
                "respok"
            } else {
                "respbad"
            }
        }
        _ => return None,
    })
}

fn abstract_trace(trace: &str) -> String {
    let body = trace.split('#').next().unwrap_or("");
    let mut steps: Vec<String> = Vec::new();
    for st in body.split(';') {
        let st = st.trim();
        let mut toks: Vec<String> = Vec::new();
        for t in step_tokens(st) {
            let a = if t == "Hs" {
                "Hs".to_string()
            } else if t.starts_with("M[") {
                "M".to_string()
            } else if t.starts_with("Ch(") {
                "Ch".to_string()
            } else if t.starts_with("Out(0") {
                "OutOk".to_string()
            } else if t.starts_with("Out(") {
                "OutFail".to_string()
            } else {
                t
            };
            toks.push(a);
        }
        let mut s = if toks.is_empty() { "-".to_string() } else { toks.join(",") };
        if st.contains("accept=ok") {
            s.push_str(" accept=ok");
        } else if st.contains("accept=err") {
            s.push_str(" accept=err");
        }
        if st.split_whitespace().any(|w| w == "EOF") {
            s.push_str(" EOF");
        }
        steps.push(s);
    }
    if let Some(last) = steps.last() {
        if last == "-" {
            steps.pop();
        }
    }
    steps.join(" ; ")
}

pub fn run_model(seed: u64, n: u64, thorough: bool, corpus: &[String], dir: &str) {
    crate::codec::quiet_panics();
    let mut out = Outputs::new(dir);
    let mut r = Rng::new(seed);
    let mut lines: Vec<String> = Vec::new();
    for l in corpus {
        if l.starts_with("sasl-l ") {
            lines.push(l.clone());
        }
    }
    lines.extend(systematic(thorough).into_iter().filter(|l| l.starts_with("sasl-l ")));
    for _ in 0..n {
        lines.push(gen_listener(&mut r, thorough));
    }
    let mut seen = std::collections::HashSet::new();
    for l in lines {
        let (head, actions) = split_line(&l);
        let cfg = match parse_lcfg(&head) {
            Some(c) => c,
            None => continue,
        };
        if actions.iter().any(|a| a.starts_with("real ")) {
            continue;
        }
        let abs: Option<Vec<&'static str>> = actions.iter().map(|a| abstract_action(&cfg, a)).collect();
        let abs = match abs {
            Some(a) => a,
            None => {
                out.count("outside_model_alphabet");
                continue;
            }
        };
        let kind = match cfg.mech {
            LMech::Plain => "plain",
            LMech::Scram(_) => "scram",
        };
        let t = run_case(&l);
        let case = format!("saslm {} | {}", kind, abs.join(" ; "));
        let at = abstract_trace(&t);
        // distinct concrete cases may share an abstract case: they must then share the abstract trace as well
        out.count(&format!("kind_{}", kind));
        if at.contains("accept=ok") {
            out.nontrivial(&case);
        }
        let key = format!("{} => {}", case, at);
        if seen.insert(key) {
            out.case(&case, &at);
        }
        for v in direct_oracle(&l, &t) {
            let class = v.split(':').next().unwrap_or("?").to_string();
            out.violation(&class, &format!("{} | case `{}` -> {}", v, l, t), &l);
        }
    }
    out.finish(dir);
}

// ------------------------------------------------------------------------------------------
// saslc: the SCRAM client against the Coq model Auth/ScramClient.v
// ------------------------------------------------------------------------------------------

/// the abstract server messages of one stage of a `sasl-c` case (model alphabet of Auth/ScramClient.v)
fn client_stage_events(cfg: &CCfg, stage: &str) -> Option<Vec<String>> {
    let t = cfg.t.as_str();
    // the client reads the iteration count as a decimal u32
    let i_ok = cfg.i.parse::<u32>().is_ok();
    let chal_tampered = matches!(
        t,
        "nonce-replace" | "nonce-trunc" | "nonce-empty" | "nonce-flip" | "nonce-prepend" | "nonce-shift" | "no-salt" | "salt-badb64" | "no-iter" | "mext" | "chal-nonutf8" | "chal-empty"
    );
    let good_chal = i_ok && !chal_tampered;
    // the server's signature is right unless the tampering spoils it, or the harness cannot compute it
    let data = match t {
        "sig-flip" | "sig-trunc" | "sig-empty" | "sig-nonb64" | "no-v" | "e-attr" | "data-empty" | "wrong-salt" | "wrong-pw" | "sig-other-nonce" => "bad",
        "no-data" | "code1n" | "code2n" | "code3n" | "code4n" => "none",
        _ if own_iters(&cfg.i).is_none() => "bad",
        _ => "good",
    };
    let code = match t.strip_prefix("code").map(|c| c.trim_end_matches('n')) {
        Some("1") => "auth",
        Some("2") => "sys",
        Some("3") => "sysperm",
        Some("4") => "systemp",
        Some(_) => "other",
        None => "ok",
    };
    Some(match stage {
        "hdr" => vec![if t == "hdr-amqp" { "hx".into() } else { "hs".into() }],
        "mechs" => vec![match t {
            "mech-missing" => "m0".to_string(),
            "outcome-first" => "o:ok:bad".to_string(),
            _ => "m1".to_string(),
        }],
        "eof" => vec!["eof".into()],
        "chal" => vec![if t == "early-outcome" { "o:ok:bad".to_string() } else { format!("c{}", good_chal as u8) }],
        "chal2" => vec!["c1".into()],
        "outcome" => match t {
            "amqp-hdr-before-outcome" | "eof-before-outcome" => vec!["eof".into()],
            "garbage-outcome" => vec!["g".into()],
            "chal-after-outcome-fail" => vec!["o:auth:none".into(), "o:ok:good".into()],
            "extra-chal" => vec!["o:ok:good".into()],
            _ => vec![format!("o:{}:{}", code, data)],
        },
        "amqp" => vec!["amqp".into()],
        _ => return None,
    })
}

/// `saslc` case (the server's messages stage by stage) and the client's abstract behaviour stage by stage
pub fn abstract_client(line: &str, trace: &str) -> Option<(String, String)> {
    let cfg = parse_ccfg(line)?;
    if trace.starts_with("TIMEOUT") || trace.contains("PANIC") || trace.contains("PENDING") {
        return None;
    }
    let mut stages: Vec<String> = Vec::new();
    let mut obs: Vec<String> = Vec::new();
    for st in trace.split(" ; ") {
        let (name, rest) = st.split_once(':')?;
        let name = name.trim();
        if name == "start" {
            continue;
        }
        let mut toks: Vec<String> = Vec::new();
        let mut parts = rest.split_whitespace();
        let wire = parts.next().unwrap_or("-");
        for w in split_top(wire) {
            toks.push(match w.as_str() {
                "-" | "" => continue,
                "H" => "H".to_string(),
                "O" => "O".to_string(),
                x if x.starts_with("Init(") && x.contains(":gs2=ok:n=ok:") => "I".to_string(),
                "Resp(c=ok:r=ok:p=ok)" => "R".to_string(),
                other => format!("?{}", other),
            });
        }
        for p in parts {
            if let Some(r) = p.strip_prefix("open=") {
                toks.push(match r {
                    "ok" => "ok".to_string(),
                    "err:ProtocolHeaderMismatch" => "err(hdr)".to_string(),
                    "err:NotImplemented" => "err(notimpl)".to_string(),
                    "err:ScramError" => "err(scram)".to_string(),
                    "err:SaslError(Auth)" => "err(sasl:auth)".to_string(),
                    "err:SaslError(Sys)" => "err(sasl:sys)".to_string(),
                    "err:SaslError(SysPerm)" => "err(sasl:sysperm)".to_string(),
                    "err:SaslError(SysTemp)" => "err(sasl:systemp)".to_string(),
                    "err:DecodeError" => "err(decode)".to_string(),
                    "err:Io" => "err(io)".to_string(),
                    other => format!("?{}", other),
                });
            }
        }
        if name == "#" {
            // what happens after the script: nothing of the negotiation is left, unless open() only returns here
            if !toks.is_empty() {
                stages.push(String::new());
                obs.push(toks.join(","));
            }
            continue;
        }
        let evs = client_stage_events(&cfg, name)?;
        stages.push(evs.join(" "));
        obs.push(toks.join(","));
    }
    Some((format!("saslc | {}", stages.join(" ; ")), obs.join(" ; ")))
}

pub fn run_model_c(seed: u64, n: u64, thorough: bool, corpus: &[String], dir: &str) {
    crate::codec::quiet_panics();
    let mut out = Outputs::new(dir);
    let mut r = Rng::new(seed);
    let mut lines: Vec<String> = Vec::new();
    for l in corpus {
        if l.starts_with("sasl-c ") {
            lines.push(l.clone());
        }
    }
    lines.extend(systematic(thorough).into_iter().filter(|l| l.starts_with("sasl-c ") && !l.contains("i=4294967295 ")));
    for _ in 0..n {
        lines.push(gen_client(&mut r, thorough));
    }
    let mut seen = std::collections::HashSet::new();
    for l in lines {
        let t = run_case(&l);
        match abstract_client(&l, &t) {
            Some((case, obs)) => {
                let cfg = parse_ccfg(&l).unwrap();
                out.count(&format!("tamper_{}", cfg.t));
                if obs.contains("ok") && !obs.contains("err(") {
                    out.count("open_ok");
                }
                if obs.contains("R") {
                    out.nontrivial(&format!("{} / {}", case, cfg.t));
                }
                // distinct concrete cases may share an abstract case: they must then share the abstract behaviour
                if seen.insert(format!("{} => {}", case, obs)) {
                    out.case(&case, &obs);
                }
            }
            None => out.count("outside_model"),
        }
        for v in direct_oracle(&l, &t) {
            let class = v.split(':').next().unwrap_or("?").to_string();
            out.violation(&class, &format!("{} | `{}` -> {}", v, l, t), &l);
        }
    }
    out.finish(dir);
}

// ------------------------------------------------------------------------------------------
// saslp: a pipelining client - the whole valid PLAIN exchange, the AMQP header and the open in one byte stream,
// cut into writes at arbitrary places (C06: decoding is independent of read boundaries, also across the
// hand-over from the SASL layer to the AMQP layer)
// ------------------------------------------------------------------------------------------

fn pipelined_stream() -> Vec<u8> {
    let mut v = Vec::new();
    v.extend_from_slice(&SASL_HEADER);
    v.extend(f_init(b"PLAIN", Some(b"\0user\0pencil")));
    v.extend_from_slice(&AMQP_HEADER);
    v.extend(frame_bytes(0, &crate::c12::peer_open(None, 10, 4096), &[]));
    v
}

/// `saslp cuts=<a,b,..|->`: the stream is written in pieces ending at these offsets, one barrier between pieces
pub fn run_pipelined_case(line: &str) -> String {
    let cuts: Vec<usize> = line
        .split_whitespace()
        .find_map(|x| x.strip_prefix("cuts="))
        .map(|c| c.split(',').filter_map(|x| x.parse().ok()).collect())
        .unwrap_or_default();
    let r = std::panic::catch_unwind(move || {
        paused_rt().block_on(async move {
            let (a, b) = tokio::io::duplex(1 << 16);
            let acc = ConnectionAcceptor::builder().container_id("l").sasl_acceptor(SaslPlainMechanism::new("user".to_string(), "pencil".to_string())).build();
            let mut task = tokio::spawn(async move { acc.accept(a).await });
            let mut peer = Peer::new(b);
            let stream = pipelined_stream();
            let mut prev = 0usize;
            for c in cuts.iter().cloned().chain(std::iter::once(stream.len())) {
                let c = c.min(stream.len());
                if c > prev {
                    peer.write(&stream[prev..c]).await;
                    barrier().await;
                    prev = c;
                }
            }
            let res = match tokio::time::timeout(Duration::from_secs(60), &mut task).await {
                Err(_) => "PENDING".to_string(),
                Ok(Err(_)) => "PANIC".to_string(),
                Ok(Ok(Ok(_h))) => "ok".to_string(),
                Ok(Ok(Err(e))) => open_err(&e),
            };
            barrier().await;
            let ws = peer.drain().await;
            let toks: Vec<String> = ws.iter().map(wire_token).collect();
            format!("accept={} wire={}", res, toks.join(","))
        })
    });
    r.unwrap_or_else(|_| "PANIC".to_string())
}

pub fn run_pipelined(seed: u64, n: u64, thorough: bool, dir: &str) {
    crate::codec::quiet_panics();
    let mut out = Outputs::new(dir);
    let mut r = Rng::new(seed);
    let len = pipelined_stream().len();
    let mut lines: Vec<String> = vec!["saslp cuts=-".to_string()];
    for c in 1..len {
        lines.push(format!("saslp cuts={}", c));
    }
    lines.push(format!("saslp cuts={}", (1..len).map(|x| x.to_string()).collect::<Vec<_>>().join(",")));
    for _ in 0..(if thorough { n * 4 } else { n }) {
        let k = r.range(2, 5);
        let mut cs: Vec<usize> = (0..k).map(|_| r.range(1, len as u64 - 1) as usize).collect();
        cs.sort();
        cs.dedup();
        lines.push(format!("saslp cuts={}", cs.iter().map(|x| x.to_string()).collect::<Vec<_>>().join(",")));
    }
    let reference = run_pipelined_case("saslp cuts=-");
    for l in lines {
        let t = run_pipelined_case(&l);
        out.count(if l.contains(',') { "several_cuts" } else { "one_cut" });
        if t.contains("accept=ok") {
            out.nontrivial(&l);
        }
        if t != reference || !t.starts_with("accept=ok") {
            out.violation(
                "c06-pipelined-bytes-lost",
                &format!("c06-pipelined-bytes-lost: the valid exchange written in one piece gives `{}`, cut at these offsets it gives `{}` | `{}`", reference, t, l),
                &l,
            );
        }
        out.case(&l, &t);
    }
    out.finish(dir);
}
