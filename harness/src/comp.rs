//! `comp` sub-harness: the typed layer for list-encoded composite types (derive macros
//! `SerializeComposite` / `DeserializeComposite` + `DescribedAccess`) against the Coq model
//! `coq/Codec/Composite.v`.
//!
//! For a generated typed item `x : T` the *field vector* of `x` (every field encoded on its own,
//! `40` for None) is obtained through the generated impls of `gen_comp.rs` (the translator writes
//! them from the struct definitions, so field order and kinds come from the source of this run).
//!
//! Case line:  `comp <T> code=<n> name=<hex> kinds=<O|M|D|U per field> names=<wire names> dflts=<hex|-,..> fields=<hex,..> <form> <hex bytes|->`
//!   form `canon`: the implementation's line is `enc=<to_vec(x)> size=<serialized_size(x)> dec=<fields of from_slice(to_vec(x))>`,
//!                 the model's is `enc_composite` and `dec_composite` of it;
//!   form `var`:   the bytes are a layout built here from the field vector (absent fields as null or
//!                 written out, trailing absent fields kept or dropped, list8/list32 header, descriptor
//!                 by code in three widths or by name), or a broken one (list cut before a mandatory
//!                 field, null in a mandatory field, count beyond the bytes, more elements than fields);
//!                 both sides print `dec=<fields>` or `dec=err`.
//! Direct oracle (class c03-comp-roundtrip): from_slice(to_vec(x)) has the field vector of x;
//! (class c05-comp-variant): a spec-valid layout decodes to the field vector of x.
use crate::out::*;
use crate::rng::Rng;
use crate::typed;
use crate::val::{has_described_array_elem, has_unsupported_array, hex};
use fe2o3_amqp_types::messaging::{Accepted, DeliveryState, Outcome, Received, Rejected, Released};
use fe2o3_amqp_types::sasl::{SaslChallenge, SaslResponse};
use fe2o3_amqp_types::transaction::{Declare, Declared, Discharge, TransactionalState};
use serde::de::DeserializeOwned;
use serde::Serialize;
use serde_amqp::primitives::Array;
use serde_amqp::Value;
use serde_bytes::ByteBuf;
use std::panic::{catch_unwind, AssertUnwindSafe};

pub trait Comp {
    const TYPE: &'static str;
    const NAME: &'static str;
    const CODE: u64;
    const KINDS: &'static str;
    const FIELDS: &'static str;
    fn fields(&self) -> Vec<Vec<u8>>;
    fn defaults(&self) -> Vec<Option<Vec<u8>>>;
}
pub fn fv<T: Serialize>(x: &T) -> Vec<u8> {
    serde_amqp::to_vec(x).expect("field encodes")
}
pub fn dv<T: Serialize + Default>(_: &T) -> Vec<u8> {
    serde_amqp::to_vec(&T::default()).expect("default encodes")
}

fn join(v: &[Vec<u8>]) -> String {
    if v.is_empty() {
        "-".into()
    } else {
        v.iter().map(|b| hex(b)).collect::<Vec<_>>().join(",")
    }
}

fn list_bytes(elems: &[Vec<u8>], force32: bool) -> Vec<u8> {
    let body: Vec<u8> = elems.concat();
    let mut out = Vec::new();
    if elems.is_empty() && !force32 {
        out.push(0x45);
    } else if body.len() + 1 <= 255 && elems.len() <= 255 && !force32 {
        out.push(0xc0);
        out.push((body.len() + 1) as u8);
        out.push(elems.len() as u8);
        out.extend(body);
    } else {
        out.push(0xd0);
        out.extend(((body.len() + 4) as u32).to_be_bytes());
        out.extend((elems.len() as u32).to_be_bytes());
        out.extend(body);
    }
    out
}

fn descriptor_bytes(code: u64, name: &str, how: u64) -> Vec<u8> {
    let mut out = vec![0x00];
    match how {
        0 if code <= 255 => {
            out.push(0x53);
            out.push(code as u8);
        }
        1 | 0 => {
            out.push(0x80);
            out.extend(code.to_be_bytes());
        }
        2 => {
            out.push(0xa3);
            out.push(name.len() as u8);
            out.extend(name.as_bytes());
        }
        _ => {
            out.push(0xb3);
            out.extend((name.len() as u32).to_be_bytes());
            out.extend(name.as_bytes());
        }
    }
    out
}

fn decode_fields<T: Comp + DeserializeOwned>(bytes: &[u8]) -> String {
    match catch_unwind(AssertUnwindSafe(|| serde_amqp::from_slice::<T>(bytes).map(|y| y.fields()))) {
        Ok(Ok(f)) => join(&f),
        Ok(Err(_)) => "err".into(),
        Err(_) => "PANIC".into(),
    }
}


/// the field vector of the variant an enum of composites picks for these bytes (`-` when the type is not
/// a variant of Performative / DeliveryState)
fn decode_via_enum(code: u64, bytes: &[u8]) -> String {
    use fe2o3_amqp_types::performatives::Performative as P;
    let r = catch_unwind(AssertUnwindSafe(|| -> Result<(u64, Vec<Vec<u8>>), ()> {
        if (0x10..=0x18).contains(&code) {
            Ok(match serde_amqp::from_slice::<P>(bytes).map_err(|_| ())? {
                P::Open(x) => (0x10, x.fields()),
                P::Begin(x) => (0x11, x.fields()),
                P::Attach(x) => (0x12, x.fields()),
                P::Flow(x) => (0x13, x.fields()),
                P::Transfer(x) => (0x14, x.fields()),
                P::Disposition(x) => (0x15, x.fields()),
                P::Detach(x) => (0x16, x.fields()),
                P::End(x) => (0x17, x.fields()),
                P::Close(x) => (0x18, x.fields()),
            })
        } else {
            Ok(match serde_amqp::from_slice::<DeliveryState>(bytes).map_err(|_| ())? {
                DeliveryState::Received(x) => (0x23, x.fields()),
                DeliveryState::Accepted(x) => (0x24, x.fields()),
                DeliveryState::Rejected(x) => (0x25, x.fields()),
                DeliveryState::Released(x) => (0x26, x.fields()),
                DeliveryState::Modified(x) => (0x27, x.fields()),
                DeliveryState::Declared(x) => (0x33, x.fields()),
                DeliveryState::TransactionalState(x) => (0x34, x.fields()),
            })
        }
    }));
    if !((0x10..=0x18).contains(&code) || (0x23..=0x27).contains(&code) || code == 0x33 || code == 0x34) {
        return "-".into();
    }
    match r {
        Ok(Ok((c, f))) => format!("{}:{}", c, join(&f)),
        Ok(Err(())) => "err".into(),
        Err(_) => "PANIC".into(),
    }
}

/// is the field absent in the sense of the serializer (None / equal to its default)?
fn absent(kind: u8, field: &[u8], dflt: &Option<Vec<u8>>) -> bool {
    match kind {
        b'O' | b'U' => field == [0x40],
        b'D' => Some(field.to_vec()) == *dflt,
        _ => false,
    }
}

fn run_item<T: Comp + Serialize + DeserializeOwned>(x: &T, r: &mut Rng, out: &mut Outputs) {
    let fields = x.fields();
    let dflts = x.defaults();
    let kinds = T::KINDS.as_bytes();
    // the model decodes every field with the value decoder: stay inside the scope of its theorems
    for f in fields.iter().chain(dflts.iter().flatten()) {
        match serde_amqp::from_slice::<Value>(f) {
            Ok(v) if !has_unsupported_array(&v) && !has_described_array_elem(&v) => {}
            _ => {
                out.count("skipped: field outside the value model");
                return;
            }
        }
    }
    let head = format!(
        "comp {} code={} name={} kinds={} names={} dflts={} fields={}",
        T::TYPE,
        T::CODE,
        hex(T::NAME.as_bytes()),
        if T::KINDS.is_empty() { "-" } else { T::KINDS },
        if T::FIELDS.is_empty() { "-" } else { T::FIELDS },
        if dflts.is_empty() { "-".to_string() } else { dflts.iter().map(|d| d.as_ref().map(|b| hex(b)).unwrap_or("-".into())).collect::<Vec<_>>().join(",") },
        join(&fields)
    );
    // a `multiple` field holding a zero-length array is normalised to None by the decoder (the specification calls the two
    // semantically identical): that is what the decoded field vector is expected to show
    let normalised: Vec<Vec<u8>> = fields
        .iter()
        .zip(kinds)
        .map(|(f, k)| if *k == b'U' && (f[..] == [0xe0, 0x01, 0x00] || f[..] == [0xf0, 0, 0, 0, 4, 0, 0, 0, 0]) { vec![0x40] } else { f.clone() })
        .collect();
    if normalised != fields {
        out.count("items with a zero-length array in a `multiple` field");
    }
    let expect = join(&normalised);
    let normal = true;
    out.count(&format!("type {}", T::TYPE));
    // canonical form
    let enc = match catch_unwind(AssertUnwindSafe(|| serde_amqp::to_vec(x))) {
        Ok(Ok(b)) => b,
        _ => {
            out.violation("c04-typed-panic", "to_vec failed or panicked on a typed item", &head);
            return;
        }
    };
    let dec = decode_fields::<T>(&enc);
    let line = format!("{} canon -", head);
    let size = match catch_unwind(AssertUnwindSafe(|| serde_amqp::serialized_size(x))) {
        Ok(Ok(n)) => n.to_string(),
        Ok(Err(_)) => "ERR".to_string(),
        Err(_) => "PANIC".to_string(),
    };
    if size != enc.len().to_string() {
        out.violation("c20-comp-size", &format!("serialized_size reports {} for a composite whose encoding has {} octets", size, enc.len()), &line);
    }
    out.case(&line, &format!("enc={} size={} dec={} enum={}", hex(&enc), size, dec, decode_via_enum(T::CODE, &enc)));
    out.nontrivial(&line);
    if normal && dec != expect {
        out.violation("c03-comp-roundtrip", &format!("from_slice(to_vec(x)) has fields {} instead of {}", dec, expect), &line);
    }
    let n = fields.len();
    // spec-valid layouts
    let n_abs_trailing = (0..n).rev().take_while(|&i| absent(kinds[i], &fields[i], &dflts[i])).count();
    for _ in 0..3 {
        let keep = n - r.below(n_abs_trailing as u64 + 1) as usize;
        let mut elems = Vec::new();
        let mut revariant = false;
        for i in 0..keep {
            let a = absent(kinds[i], &fields[i], &dflts[i]);
            let e = if a {
                match (kinds[i], r.below(3)) {
                    (b'D', 0) => fields[i].clone(),            // the default written out
                    (b'U', 0) => vec![0xe0, 0x01, 0x00],       // an empty array for an absent `multiple` field
                    _ => vec![0x40],
                }
            } else if r.chance(1, 2) {
                // another spec-valid encoding of the same field value (other widths, list8/32, 0x56 booleans, descriptors by
                // name ...): the typed decoder of the field must take it for the same value
                match serde_amqp::from_slice::<Value>(&fields[i]) {
                    Ok(v) => {
                        let mut alt = Vec::new();
                        match crate::c05::encode_variant(&v, r, &mut alt) {
                            Some(()) => {
                                if alt != fields[i] {
                                    revariant = true;
                                }
                                alt
                            }
                            None => fields[i].clone(),
                        }
                    }
                    Err(_) => fields[i].clone(),
                }
            } else {
                fields[i].clone()
            };
            elems.push(e);
        }
        let mut bytes = descriptor_bytes(T::CODE, T::NAME, r.below(4));
        bytes.extend(list_bytes(&elems, r.chance(1, 3)));
        let dec = decode_fields::<T>(&bytes);
        let via = decode_via_enum(T::CODE, &bytes);
        let line = format!("{} var {}", head, hex(&bytes));
        out.case(&line, &format!("dec={} enum={}", dec, via));
        out.count("layout: spec-valid variant");
        if revariant {
            out.count("layout: spec-valid variant with re-encoded fields");
        }
        if normal && dec != expect {
            out.violation("c05-comp-variant", &format!("a spec-valid layout decodes to {} instead of {}", dec, expect), &line);
        }
        if normal && via != "-" && via != format!("{}:{}", T::CODE, expect) {
            out.violation(
                "c05-comp-variant-enum",
                &format!("a spec-valid layout read through the enum (Performative / DeliveryState) gives {} instead of {}:{}", via, T::CODE, expect),
                &line,
            );
        }
    }
    // broken layouts (compared with the model only)
    if n > 0 {
        let full: Vec<Vec<u8>> = fields.clone();
        // cut the list somewhere
        let k = r.below(n as u64) as usize;
        let mut b1 = descriptor_bytes(T::CODE, T::NAME, 0);
        b1.extend(list_bytes(&full[..k], false));
        out.case(&format!("{} var {}", head, hex(&b1)), &format!("dec={} enum={}", decode_fields::<T>(&b1), decode_via_enum(T::CODE, &b1)));
        out.count("layout: list cut short");
        // a null in one position
        let k = r.below(n as u64) as usize;
        let mut e2 = full.clone();
        e2[k] = vec![0x40];
        let mut b2 = descriptor_bytes(T::CODE, T::NAME, 0);
        b2.extend(list_bytes(&e2, false));
        out.case(&format!("{} var {}", head, hex(&b2)), &format!("dec={} enum={}", decode_fields::<T>(&b2), decode_via_enum(T::CODE, &b2)));
        out.count("layout: null in a random position");
        // the count promises more than the bytes hold
        let mut b3 = descriptor_bytes(T::CODE, T::NAME, 0);
        let k = r.below(n as u64) as usize;
        let body: Vec<u8> = full[..k].concat();
        b3.push(0xc0);
        b3.push(((body.len() + 1) & 0xff) as u8);
        b3.push(n as u8);
        b3.extend(body);
        out.case(&format!("{} var {}", head, hex(&b3)), &format!("dec={} enum={}", decode_fields::<T>(&b3), decode_via_enum(T::CODE, &b3)));
        out.count("layout: count beyond the bytes");
    }
    // one element more than the type has fields, and a foreign descriptor
    let mut e4 = fields.clone();
    e4.push(vec![0x52, 0x07]);
    let mut b4 = descriptor_bytes(T::CODE, T::NAME, 0);
    b4.extend(list_bytes(&e4, false));
    out.case(&format!("{} var {}", head, hex(&b4)), &format!("dec={} enum={}", decode_fields::<T>(&b4), decode_via_enum(T::CODE, &b4)));
    out.count("layout: one element too many");
    let mut b5 = descriptor_bytes(T::CODE ^ 0x80, "amqp:nothing:list", r.below(4));
    b5.extend(list_bytes(&fields, false));
    out.case(&format!("{} var {}", head, hex(&b5)), &format!("dec={} enum={}", decode_fields::<T>(&b5), decode_via_enum(T::CODE, &b5)));
    out.count("layout: foreign descriptor");
}

fn bin(r: &mut Rng) -> ByteBuf {
    let n = *r.pick(&[0usize, 1, 3, 16, 32, 200, 300]);
    ByteBuf::from(r.bytes(n))
}

const N_TYPES: u64 = 28;

fn one(r: &mut Rng, which: u64, deep: u32, out: &mut Outputs) {
    match which {
        0 => {
            let mut x = typed::gen_open(r, deep);
            if r.chance(1, 4) {
                // a zero-length array in a `multiple` field (the typed generator never makes one: the decoder turns it into None)
                match r.below(4) {
                    0 => x.outgoing_locales = Some(Array(vec![])),
                    1 => x.incoming_locales = Some(Array(vec![])),
                    2 => x.offered_capabilities = Some(Array(vec![])),
                    _ => x.desired_capabilities = Some(Array(vec![])),
                }
            }
            run_item(&x, r, out)
        }
        1 => {
            let mut x = typed::gen_begin(r, deep);
            if r.chance(1, 4) {
                if r.chance(1, 2) {
                    x.offered_capabilities = Some(Array(vec![]));
                } else {
                    x.desired_capabilities = Some(Array(vec![]));
                }
            }
            run_item(&x, r, out)
        }
        2 => {
            let mut x = typed::gen_attach(r, deep);
            if r.chance(1, 4) {
                if r.chance(1, 2) {
                    x.offered_capabilities = Some(Array(vec![]));
                } else {
                    x.desired_capabilities = Some(Array(vec![]));
                }
            }
            run_item(&x, r, out)
        }
        3 => run_item(&typed::gen_flow(r, deep), r, out),
        4 => run_item(&typed::gen_transfer(r, deep), r, out),
        5 => run_item(&typed::gen_disposition(r, deep), r, out),
        6 => run_item(&typed::gen_detach(r, deep), r, out),
        7 => run_item(&typed::gen_end(r, deep), r, out),
        8 => run_item(&typed::gen_close(r, deep), r, out),
        9 => run_item(&typed::gen_error(r, deep), r, out),
        10 => run_item(&typed::gen_source(r, deep), r, out),
        11 => run_item(&typed::gen_target(r, deep), r, out),
        12 => run_item(&typed::gen_coordinator(r), r, out),
        13 => run_item(&typed::gen_header(r), r, out),
        14 => run_item(&typed::gen_properties(r), r, out),
        15 => run_item(&typed::gen_sasl_init(r), r, out),
        16 => run_item(&typed::gen_sasl_outcome(r), r, out),
        17 => run_item(&SaslChallenge { challenge: bin(r) }, r, out),
        18 => run_item(&SaslResponse { response: bin(r) }, r, out),
        19 => run_item(&typed::gen_modified(r, deep), r, out),
        20 => run_item(&Accepted {}, r, out),
        21 => run_item(&Released {}, r, out),
        22 => loop {
            if let DeliveryState::Received(x) = typed::gen_delivery_state(r, deep) {
                run_item::<Received>(&x, r, out);
                break;
            }
        },
        23 => loop {
            if let Outcome::Rejected(x) = typed::gen_outcome(r, deep) {
                run_item::<Rejected>(&x, r, out);
                break;
            }
        },
        24 => run_item(&Declare { global_id: None }, r, out),
        25 => run_item(&Discharge { txn_id: bin(r).into(), fail: if r.chance(1, 3) { None } else { Some(r.chance(1, 2)) } }, r, out),
        26 => run_item(&Declared { txn_id: bin(r).into() }, r, out),
        _ => loop {
            if let DeliveryState::TransactionalState(x) = typed::gen_delivery_state(r, deep) {
                run_item::<TransactionalState>(&x, r, out);
                break;
            }
        },
    }
}

pub fn run(seed: u64, n: u64, thorough: bool, _corpus: &[String], dir: &str) {
    crate::codec::quiet_panics();
    let mut out = Outputs::new(dir);
    let mut r = Rng::new(seed ^ 0x636f6d70);
    for i in 0..n {
        let deep = if thorough && r.chance(1, 3) { 1 } else { 0 };
        one(&mut r, i % N_TYPES, deep, &mut out);
    }
    out.finish(dir);
}
