//! C06: frames on the wire.  `xfer` / `other` cases drive the real `Transport` as a Sink
//! over an in-memory pipe and compare the bytes written with the Coq model; an independent
//! frame parser checks the property directly.  `ldf` cases feed scripted read chunks to the
//! transport's configured length-delimited decoder; `rt` cases send frames through a
//! Transport and read them back through another one with the byte stream cut at random.
use crate::out::*;
use crate::rng::Rng;
use crate::val::hex;
use bytes::Bytes;
use fe2o3_amqp::frames::amqp::{Frame, FrameBody};
use fe2o3_amqp::transport::Transport;
use fe2o3_amqp_types::definitions::{DeliveryTag, Handle, ReceiverSettleMode};
use fe2o3_amqp_types::messaging::{Accepted, DeliveryState};
use fe2o3_amqp_types::performatives::{Begin, Close, Flow, Open, Performative, Transfer};
use futures_util::{SinkExt, StreamExt};
use std::collections::VecDeque;
use std::pin::Pin;
use std::task::{Context, Poll};
use tokio::io::{AsyncRead, AsyncReadExt, AsyncWrite, ReadBuf};

/// An Io whose reads return the scripted chunks one at a time and whose writes are collected
pub struct Scripted {
    pub chunks: VecDeque<Vec<u8>>,
    pub written: Vec<u8>,
}
impl AsyncRead for Scripted {
    fn poll_read(mut self: Pin<&mut Self>, _cx: &mut Context<'_>, buf: &mut ReadBuf<'_>) -> Poll<std::io::Result<()>> {
        loop {
            match self.chunks.front_mut() {
                None => return Poll::Ready(Ok(())), // EOF
                Some(c) if c.is_empty() => {
                    self.chunks.pop_front();
                }
                Some(c) => {
                    let n = c.len().min(buf.remaining());
                    buf.put_slice(&c[..n]);
                    c.drain(..n);
                    if c.is_empty() {
                        self.chunks.pop_front();
                    }
                    return Poll::Ready(Ok(()));
                }
            }
        }
    }
}
impl AsyncWrite for Scripted {
    fn poll_write(mut self: Pin<&mut Self>, _cx: &mut Context<'_>, buf: &[u8]) -> Poll<std::io::Result<usize>> {
        self.written.extend_from_slice(buf);
        Poll::Ready(Ok(buf.len()))
    }
    fn poll_flush(self: Pin<&mut Self>, _cx: &mut Context<'_>) -> Poll<std::io::Result<()>> {
        Poll::Ready(Ok(()))
    }
    fn poll_shutdown(self: Pin<&mut Self>, _cx: &mut Context<'_>) -> Poll<std::io::Result<()>> {
        Poll::Ready(Ok(()))
    }
}

/// An Io with a write buffer of its own (as a BufWriter, a TLS or a websocket stream has): bytes reach `written` only when the
/// Io is flushed, and a flush needs two polls (Pending once)
#[derive(Default)]
pub struct BufState {
    pub staged: Vec<u8>,
    pub written: Vec<u8>,
    armed: bool,
}
pub struct BufferedIo(pub std::sync::Arc<std::sync::Mutex<BufState>>);
impl AsyncRead for BufferedIo {
    fn poll_read(self: Pin<&mut Self>, _cx: &mut Context<'_>, _buf: &mut ReadBuf<'_>) -> Poll<std::io::Result<()>> {
        Poll::Ready(Ok(()))
    }
}
impl AsyncWrite for BufferedIo {
    fn poll_write(self: Pin<&mut Self>, _cx: &mut Context<'_>, buf: &[u8]) -> Poll<std::io::Result<usize>> {
        self.0.lock().unwrap().staged.extend_from_slice(buf);
        Poll::Ready(Ok(buf.len()))
    }
    fn poll_flush(self: Pin<&mut Self>, cx: &mut Context<'_>) -> Poll<std::io::Result<()>> {
        let mut g = self.0.lock().unwrap();
        if g.staged.is_empty() {
            return Poll::Ready(Ok(()));
        }
        if !g.armed {
            g.armed = true;
            cx.waker().wake_by_ref();
            return Poll::Pending;
        }
        g.armed = false;
        let st = std::mem::take(&mut g.staged);
        g.written.extend(st);
        Poll::Ready(Ok(()))
    }
    fn poll_shutdown(self: Pin<&mut Self>, cx: &mut Context<'_>) -> Poll<std::io::Result<()>> {
        self.poll_flush(cx)
    }
}

/// Send one frame through a real Transport over a [BufferedIo]: (bytes that had reached the wire when send() returned, bytes
/// still staged in the Io's own buffer at that moment)
pub fn send_frame_buffered(max_frame_size: usize, frame: Frame) -> Result<(Vec<u8>, Vec<u8>), String> {
    rt().block_on(async move {
        let st = std::sync::Arc::new(std::sync::Mutex::new(BufState::default()));
        let mut t = Transport::<_, Frame>::bind(BufferedIo(st.clone()), max_frame_size, None);
        let r = tokio::time::timeout(std::time::Duration::from_secs(5), t.send(frame)).await;
        let g = st.lock().unwrap();
        match r {
            Err(_) => Err("send() did not return".to_string()),
            Ok(Err(e)) => Err(format!("{:?}", e)),
            Ok(Ok(())) => Ok((g.written.clone(), g.staged.clone())),
        }
    })
}

fn rt() -> tokio::runtime::Runtime {
    tokio::runtime::Builder::new_current_thread().enable_all().build().unwrap()
}

/// Send one frame through a real Transport bound with `max_frame_size`; returns the bytes written
pub fn send_frame(max_frame_size: usize, frame: Frame) -> Result<Vec<u8>, String> {
    rt().block_on(async move {
        let (a, mut b) = tokio::io::duplex(1 << 24);
        let mut t = Transport::<_, Frame>::bind(a, max_frame_size, None);
        let r = t.send(frame).await;
        drop(t);
        let mut out = Vec::new();
        b.read_to_end(&mut out).await.map_err(|e| e.to_string())?;
        match r {
            Ok(()) => Ok(out),
            Err(e) => Err(format!("{:?} (wrote {} bytes)", e, out.len())),
        }
    })
}

pub fn clear_continuation(t: &Transfer, more: bool) -> Transfer {
    let mut c = t.clone();
    c.delivery_id = None;
    c.delivery_tag = None;
    c.message_format = None;
    c.settled = None;
    c.rcv_settle_mode = None;
    c.more = more;
    c
}

pub fn gen_transfer(r: &mut Rng) -> Transfer {
    let tag_len = *r.pick(&[0usize, 1, 4, 16, 31, 32]);
    Transfer {
        handle: Handle(*r.pick(&[0u32, 1, 255, 256, u32::MAX])),
        delivery_id: if r.chance(3, 4) { Some(r.next() as u32) } else { None },
        delivery_tag: if r.chance(3, 4) { Some(DeliveryTag::from(r.bytes(tag_len))) } else { None },
        message_format: if r.chance(3, 4) { Some(0) } else { None },
        settled: *r.pick(&[None, Some(false), Some(true)]),
        more: r.chance(1, 4),
        rcv_settle_mode: r.pick(&[None, Some(ReceiverSettleMode::First), Some(ReceiverSettleMode::Second)]).clone(),
        state: match r.below(6) {
            0 => Some(DeliveryState::Accepted(Accepted {})),
            1 => {
                let n = 1 + r.below(8) as usize;
                Some(DeliveryState::TransactionalState(fe2o3_amqp_types::transaction::TransactionalState { txn_id: r.bytes(n).into(), outcome: None }))
            }
            _ => None,
        },
        resume: r.chance(1, 10),
        aborted: false,
        batchable: r.chance(1, 5),
    }
}

/// independent parser of a wire byte string into (channel, body) frames; None if malformed
pub fn parse_wire(mut b: &[u8], max: usize) -> Result<Vec<(u16, Vec<u8>)>, String> {
    let mut out = Vec::new();
    while !b.is_empty() {
        if b.len() < 8 {
            return Err(format!("{} trailing bytes do not make a frame header", b.len()));
        }
        let size = u32::from_be_bytes([b[0], b[1], b[2], b[3]]) as usize;
        if size < 8 || size > b.len() {
            return Err(format!("size field {} (have {} bytes)", size, b.len()));
        }
        if size > max {
            return Err(format!("frame of {} bytes exceeds max-frame-size {}", size, max));
        }
        if b[4] != 2 || b[5] != 0 {
            return Err(format!("doff {} type {}", b[4], b[5]));
        }
        out.push((u16::from_be_bytes([b[6], b[7]]), b[8..size].to_vec()));
        b = &b[size..];
    }
    Ok(out)
}

/// decode `performative ++ payload`
pub fn split_body(body: &[u8]) -> Result<(Performative, Vec<u8>), String> {
    let mut cur = std::io::Cursor::new(body);
    let p: Performative = serde_amqp::from_reader(&mut cur).map_err(|e| format!("{:?}", e))?;
    // from_reader may buffer; find the consumed length by re-encoding
    let n = serde_amqp::to_vec(&p).map_err(|e| format!("{:?}", e))?.len();
    let _ = cur;
    if n > body.len() {
        return Err("performative longer than body".into());
    }
    Ok((p, body[n..].to_vec()))
}

fn check_transfer_wire(m: usize, ch: u16, t: &Transfer, payload: &[u8], wire: &[u8]) -> Vec<String> {
    let mut v = Vec::new();
    let frames = match parse_wire(wire, m) {
        Ok(f) => f,
        Err(e) => return vec![format!("frames: the bytes written are not a sequence of complete frames within the limit: {}", e)],
    };
    if frames.is_empty() {
        return vec!["frames: nothing written".into()];
    }
    let mut cat = Vec::new();
    let n = frames.len();
    for (i, (c, body)) in frames.iter().enumerate() {
        if *c != ch {
            v.push(format!("channel: frame {} on channel {}", i, c));
        }
        match split_body(body) {
            Ok((Performative::Transfer(p), pl)) => {
                let expect_more = if i + 1 < n { true } else { t.more };
                if p.more != expect_more {
                    v.push(format!("more: frame {}/{} has more={}", i + 1, n, p.more));
                }
                if i == 0 {
                    let mut e = t.clone();
                    e.more = expect_more;
                    if p != e {
                        v.push(format!("performative: first frame carries {:?}, expected {:?}", p, e));
                    }
                } else if p.handle != t.handle || p.delivery_id.is_some() && p.delivery_id != t.delivery_id
                    || p.delivery_tag.is_some() && p.delivery_tag != t.delivery_tag
                {
                    v.push(format!("continuation: frame {} carries {:?}", i + 1, p));
                }
                cat.extend_from_slice(&pl);
            }
            Ok((other, _)) => v.push(format!("performative: frame {} decodes as {:?}", i, other)),
            Err(e) => v.push(format!("performative: frame {} does not decode: {}", i, e)),
        }
    }
    if cat != payload {
        v.push(format!("payload: the frames' payloads concatenate to {} bytes, sent {}", cat.len(), payload.len()));
    }
    v
}

pub fn run(seed: u64, n: u64, thorough: bool, corpus: &[String], dir: &str) {
    crate::codec::quiet_panics();
    let mut out = Outputs::new(dir);
    let mut r = Rng::new(seed);
    let _ = corpus;

    // ---- transfers -------------------------------------------------------------------
    let ms: &[usize] = if thorough { &[512, 513, 600, 1024, 4096, 65536] } else { &[512, 513, 600, 1024] };
    for i in 0..n {
        let m = ms[(i as usize) % ms.len()];
        let ch = *r.pick(&[0u16, 1, 255, 256, 65535]);
        let t = gen_transfer(&mut r);
        let single = serde_amqp::to_vec(&t).unwrap();
        let mut first_t = t.clone();
        first_t.more = true;
        let first = serde_amqp::to_vec(&first_t).unwrap();
        let mid = serde_amqp::to_vec(&clear_continuation(&t, true)).unwrap();
        let last = serde_amqp::to_vec(&clear_continuation(&t, t.more)).unwrap();
        // payload lengths around the multiples of the frame body size
        let body = m - 8;
        let k = r.below(4) as usize;
        let base = k * body;
        let delta = r.range(0, 80) as i64 - 40;
        let len = if r.chance(1, 8) { r.below(3 * m as u64) as usize } else { (base as i64 + delta).max(0) as usize };
        let len = if m > 4096 && !thorough { len.min(3000) } else { len };
        let payload = r.bytes(len);
        let line = format!("xfer {} {} {} {} {} {} {}", m, ch, hex(&single), hex(&first), hex(&mid), hex(&last), hex(&payload));
        let frame = Frame::new(ch, FrameBody::Transfer { performative: t.clone(), payload: Bytes::from(payload.clone()) });
        let res = std::panic::catch_unwind(std::panic::AssertUnwindSafe(|| send_frame(m, frame)));
        let impl_line = match &res {
            Ok(Ok(w)) => format!("OK {}", hex(w)),
            Ok(Err(_)) => "NONE".to_string(),
            Err(_) => "PANIC".to_string(),
        };
        out.count(&format!("xfer_m_{}", m));
        match &res {
            Ok(Ok(w)) => {
                let nfr = parse_wire(w, usize::MAX).map(|f| f.len()).unwrap_or(0);
                out.count(&format!("xfer_frames_{}", nfr.min(5)));
                if nfr >= 2 {
                    out.nontrivial(&line);
                }
                for v in check_transfer_wire(m, ch, &t, &payload, w) {
                    let class = v.split(':').next().unwrap_or("?").to_string();
                    out.violation(&format!("c06-{}", class), &format!("c06-{} (M={} payload {} bytes)", v, m, len), &line);
                }
            }
            Ok(Err(e)) => out.violation("c06-send-error", &format!("c06-send-error: sending a transfer failed: {}", e), &line),
            Err(_) => out.violation("c06-panic", "c06-panic: the transport panicked while sending a transfer", &line),
        }
        // the same transfer over an Io that buffers writes: when send() returns Ok every byte has been flushed through
        if i % 3 == 0 {
            if let Ok(Ok(w)) = &res {
                let fr = Frame::new(ch, FrameBody::Transfer { performative: t.clone(), payload: Bytes::from(payload.clone()) });
                match std::panic::catch_unwind(std::panic::AssertUnwindSafe(|| send_frame_buffered(m, fr))) {
                    Ok(Ok((written, staged))) => {
                        out.count("xfer_over_buffering_io");
                        if !staged.is_empty() || &written != w {
                            out.violation(
                                "c06-flush-incomplete",
                                &format!("c06-flush-incomplete: send() returned Ok over an Io with a write buffer of its own while {} of {} bytes were still in that buffer", staged.len(), w.len()),
                                &line,
                            );
                        }
                    }
                    Ok(Err(e)) => out.violation("c06-send-error", &format!("c06-send-error: sending over a buffering Io failed: {}", e), &line),
                    Err(_) => out.violation("c06-panic", "c06-panic: the transport panicked while sending over a buffering Io", &line),
                }
            }
        }
        out.case(&line, &impl_line);
    }

    // ---- the session's own split (split_transfer): sizes against the model, every piece against the encoder ----
    for i in 0..n {
        let m = ms[(i as usize) % ms.len()];
        let mfb = m - 8;
        let mut t = gen_transfer(&mut r);
        // the session stamps the delivery-id afterwards: first transfers come without one
        if t.delivery_tag.is_some() {
            t.delivery_id = None;
        }
        let mut reserved = t.clone();
        if reserved.delivery_tag.is_some() {
            reserved.delivery_id = Some(u32::MAX);
        }
        let lf_single = serde_amqp::to_vec(&reserved).unwrap().len();
        reserved.more = true;
        let lf = serde_amqp::to_vec(&reserved).unwrap().len();
        let lr = serde_amqp::to_vec(&clear_continuation(&t, true)).unwrap().len();
        let k = r.below(4) as usize;
        let delta = r.range(0, 80) as i64 - 40;
        let len = if r.chance(1, 8) { r.below(3 * m as u64) as usize } else { ((k * mfb) as i64 + delta).max(0) as usize };
        let payload = r.bytes(len);
        let line = format!("ssplit {} {} {} {} {}", mfb, lf_single, lf, lr, len);
        let res = std::panic::catch_unwind(std::panic::AssertUnwindSafe(|| {
            fe2o3_amqp::verif::split_transfer_sizes(t.clone(), Bytes::from(payload.clone()), mfb)
        }));
        let impl_line = match &res {
            Ok(Ok(pieces)) => {
                out.count(&format!("ssplit_pieces_{}", pieces.len().min(5)));
                if pieces.len() >= 2 {
                    out.nontrivial(&line);
                }
                // nothing lost, fields on the first piece only, `more` on all but the last, and each piece is ONE frame for the encoder
                let joined: Vec<u8> = pieces.iter().flat_map(|(_, p)| p.to_vec()).collect();
                if joined != payload {
                    out.violation("c06-ssplit-payload", "c06-ssplit-payload: the pieces do not add up to the payload", &line);
                }
                for (j, (pt, pp)) in pieces.iter().enumerate() {
                    let last = j == pieces.len() - 1;
                    if (j > 0 && (pt.delivery_tag.is_some() || pt.delivery_id.is_some())) || (!last && !pt.more) || (last && pt.more != t.more) {
                        out.violation("c06-ssplit-fields", &format!("c06-ssplit-fields: piece {} of {} has tag/more fields wrong", j, pieces.len()), &line);
                    }
                    // what belongs to the delivery as a whole travels on every piece: the handle, and the delivery state - a
                    // transactional post carries its transaction in the state of every transfer frame
                    if pt.handle != t.handle || pt.state != t.state || pt.resume != t.resume || pt.batchable != t.batchable {
                        out.violation(
                            "c06-ssplit-fields",
                            &format!("c06-ssplit-fields: piece {} of {} does not carry the handle / state / resume / batchable of the transfer", j, pieces.len()),
                            &line,
                        );
                        if pt.state != t.state && matches!(t.state, Some(DeliveryState::TransactionalState(_))) {
                            out.violation(
                                "c18-split-drops-txn-state",
                                &format!("c18-split-drops-txn-state: piece {} of {} of a transactional post (state {:?}) goes out with state {:?}", j, pieces.len(), t.state, pt.state),
                                &line,
                            );
                        }
                    }
                    // as the session would send it: with the widest delivery-id on the first piece
                    let mut stamped = pt.clone();
                    if stamped.delivery_tag.is_some() {
                        stamped.delivery_id = Some(u32::MAX);
                    }
                    let frame = Frame::new(0u16, FrameBody::Transfer { performative: stamped, payload: pp.clone() });
                    match send_frame(m, frame) {
                        Ok(w) => {
                            let nfr = parse_wire(&w, usize::MAX).map(|f| f.len()).unwrap_or(0);
                            if nfr != 1 {
                                out.violation("c07-frame-not-numbered", &format!("c07-frame-not-numbered: piece {} ({} payload bytes) is written as {} frames: frames on the wire outnumber the transfer-ids", j, pp.len(), nfr), &line);
                            }
                        }
                        Err(e) => out.violation("c06-send-error", &format!("c06-send-error: sending a piece failed: {}", e), &line),
                    }
                }
                format!("OK {}", pieces.iter().map(|(_, p)| p.len().to_string()).collect::<Vec<_>>().join(","))
            }
            Ok(Err(e)) => format!("ERR {}", e),
            Err(_) => "PANIC".to_string(),
        };
        out.case(&line, &impl_line);
    }

    // ---- other performatives ---------------------------------------------------------
    for i in 0..(n / 4).max(8) {
        let m = *r.pick(&[512usize, 600, 1024]);
        let ch = r.below(4) as u16;
        // an Open with 0..80 offered capabilities: from a few bytes to well over the limit
        let ncap = *r.pick(&[0usize, 1, 10, 25, 28, 30, 40, 60, 80]);
        let frame_body = match i % 4 {
            0 => {
                let caps: Vec<serde_amqp::primitives::Symbol> = (0..ncap).map(|j| serde_amqp::primitives::Symbol::from(format!("capability-{:04}", j))).collect();
                let open = Open {
                    container_id: "c".repeat(r.range(1, 40) as usize),
                    hostname: None,
                    max_frame_size: Default::default(),
                    channel_max: Default::default(),
                    idle_time_out: None,
                    outgoing_locales: None,
                    incoming_locales: None,
                    offered_capabilities: if caps.is_empty() { None } else { Some(caps.into()) },
                    desired_capabilities: None,
                    properties: None,
                };
                FrameBody::Open(open)
            }
            1 => FrameBody::Begin(Begin {
                remote_channel: Some(1),
                next_outgoing_id: r.next() as u32,
                incoming_window: 5000,
                outgoing_window: 5000,
                handle_max: Default::default(),
                offered_capabilities: None,
                desired_capabilities: None,
                properties: None,
            }),
            2 => FrameBody::Flow(Flow {
                next_incoming_id: Some(1),
                incoming_window: 2,
                next_outgoing_id: 3,
                outgoing_window: 4,
                handle: Some(Handle(1)),
                delivery_count: Some(1),
                link_credit: Some(100),
                available: None,
                drain: false,
                echo: r.chance(1, 2),
                properties: None,
            }),
            _ => FrameBody::Close(Close { error: None }),
        };
        let perf_bytes = match &frame_body {
            FrameBody::Open(p) => serde_amqp::to_vec(p).unwrap(),
            FrameBody::Begin(p) => serde_amqp::to_vec(p).unwrap(),
            FrameBody::Flow(p) => serde_amqp::to_vec(p).unwrap(),
            FrameBody::Close(p) => serde_amqp::to_vec(p).unwrap(),
            _ => unreachable!(),
        };
        let line = format!("other {} {} {}", m, ch, hex(&perf_bytes));
        let res = std::panic::catch_unwind(std::panic::AssertUnwindSafe(|| send_frame(m, Frame::new(ch, frame_body))));
        let impl_line = match &res {
            Ok(Ok(w)) => format!("OK {}", hex(w)),
            Ok(Err(_)) => "NONE".to_string(),
            Err(_) => "PANIC".to_string(),
        };
        out.count(if perf_bytes.len() + 8 > m { "other_oversize" } else { "other_fits" });
        match &res {
            Ok(Ok(w)) => match parse_wire(w, m) {
                Ok(f) if f.len() == 1 && f[0].0 == ch && f[0].1 == perf_bytes => {}
                Ok(f) => out.violation("c06-frames", &format!("c06-frames: a {}-byte performative was written as {} frames", perf_bytes.len(), f.len()), &line),
                Err(e) => out.violation("c06-frames", &format!("c06-frames: a {}-byte performative through M={} is not written as complete frames: {}", perf_bytes.len(), m, e), &line),
            },
            Ok(Err(e)) => {
                if perf_bytes.len() + 8 <= m {
                    out.violation("c06-send-error", &format!("c06-send-error: a frame within the limit was refused: {}", e), &line);
                } else if !e.contains("wrote 0 bytes") {
                    out.violation("c06-frames", &format!("c06-frames: an oversize frame was refused but bytes were written: {}", e), &line);
                }
            }
            Err(_) => out.violation("c06-panic", "c06-panic: the transport panicked while sending", &line),
        }
        out.nontrivial(&line);
        out.case(&line, &impl_line);
    }

    // ---- length-delimited decoder under scripted reads --------------------------------
    for _ in 0..(n / 2).max(8) {
        let maxf = *r.pick(&[512usize, 600]);
        // a stream of 1..4 frames, some hostile
        let mut stream = Vec::new();
        for _ in 0..r.range(1, 4) {
            let body_len = match r.below(10) {
                0 => 0,
                1 => maxf - 4,
                2 => maxf - 3, // too big by one
                _ => r.below(40) as usize,
            };
            let size = match r.below(12) {
                0 => r.below(4) as u32,      // size field below 4: underflow after adjustment
                1 => (maxf + 1 + r.below(50) as usize) as u32,
                _ => (body_len + 4) as u32,
            };
            stream.extend_from_slice(&size.to_be_bytes());
            stream.extend_from_slice(&r.bytes(body_len));
        }
        if r.chance(1, 4) {
            let cut = r.below(stream.len() as u64 + 1) as usize;
            stream.truncate(cut);
        }
        // cut into reads
        let mut chunks: Vec<Vec<u8>> = Vec::new();
        let mut pos = 0;
        let style = r.below(3);
        while pos < stream.len() {
            let k = match style {
                0 => 1,
                1 => r.range(1, 9) as usize,
                _ => r.range(1, 200) as usize,
            }
            .min(stream.len() - pos);
            chunks.push(stream[pos..pos + k].to_vec());
            pos += k;
        }
        let line = format!("ldf {} {}", maxf, chunks.iter().map(|c| hex(c)).collect::<Vec<_>>().join("|"));
        let res = rt().block_on(async {
            let io = Scripted { chunks: chunks.iter().cloned().collect(), written: vec![] };
            let t = Transport::<_, Frame>::bind(io, maxf, None);
            let (_w, mut rd) = t.into_framed_codec();
            let mut frames: Vec<Vec<u8>> = Vec::new();
            let mut err = false;
            loop {
                match rd.next().await {
                    Some(Ok(b)) => frames.push(b.to_vec()),
                    Some(Err(_)) => {
                        err = true;
                        break;
                    }
                    None => break,
                }
            }
            (frames, err)
        });
        // a stream that ends inside a frame makes tokio report "bytes remaining on stream": compare the frames,
        // and the error flag only when the model says the decoder itself failed
        let impl_line = format!("{}", res.0.iter().map(|f| format!("F {}", hex(f))).collect::<Vec<_>>().join(" "));
        out.count(match style { 0 => "ldf_1byte_reads", 1 => "ldf_small_reads", _ => "ldf_large_reads" });
        if res.1 {
            out.count("ldf_stream_errors");
        }
        if chunks.len() > 1 {
            out.nontrivial(&line);
        }
        out.case(&line, &impl_line);
    }

    // ---- round trip through two transports with random cuts ------------------------------
    for _ in 0..(n / 4).max(8) {
        let m = *r.pick(&[512usize, 600, 1024]);
        let nf = r.range(1, 4);
        let mut sent: Vec<(u16, Transfer, Vec<u8>)> = Vec::new();
        let mut wire = Vec::new();
        for _ in 0..nf {
            let mut t = gen_transfer(&mut r);
            t.state = None;
            let plen = r.below(2 * m as u64) as usize;
            let payload = r.bytes(plen);
            let ch = r.below(3) as u16;
            if let Ok(w) = send_frame(m, Frame::new(ch, FrameBody::Transfer { performative: t.clone(), payload: Bytes::from(payload.clone()) })) {
                wire.extend_from_slice(&w);
                sent.push((ch, t, payload));
            }
        }
        let mut chunks = VecDeque::new();
        let mut pos = 0;
        while pos < wire.len() {
            let k = (*r.pick(&[1usize, 2, 3, 5, 7, 8, 9, 64, 511, 512, 513, 4096])).min(wire.len() - pos);
            chunks.push_back(wire[pos..pos + k].to_vec());
            pos += k;
        }
        let got = rt().block_on(async {
            let io = Scripted { chunks, written: vec![] };
            let mut t = Transport::<_, Frame>::bind(io, m, None);
            let mut frames: Vec<(u16, String, Vec<u8>)> = Vec::new();
            while let Some(x) = t.next().await {
                match x {
                    Ok(Frame { channel, body: FrameBody::Transfer { performative, payload } }) => frames.push((channel, format!("{:?}", performative), payload.to_vec())),
                    Ok(other) => frames.push((other.channel, format!("{:?}", other.body), vec![])),
                    Err(_) => break, // EOF after the last frame is reported as an error by the idle/eof handling
                }
            }
            frames
        });
        // reassemble per delivery: continuation frames concatenate
        let mut re: Vec<(u16, Vec<u8>)> = Vec::new();
        let mut open = false;
        for (ch, perf, pl) in &got {
            if open {
                re.last_mut().unwrap().1.extend_from_slice(pl);
            } else {
                re.push((*ch, pl.clone()));
            }
            open = perf.contains("more: true");
        }
        let line = format!("rt {} frames={} wire={}", m, got.len(), wire.len());
        let expect: Vec<(u16, Vec<u8>, bool)> = sent.iter().map(|(c, t, p)| (*c, p.clone(), t.more)).collect();
        // a sent transfer with more=true stays open and absorbs the next one: compare on the flattened payload stream
        let flat_sent: Vec<u8> = expect.iter().flat_map(|e| e.1.clone()).collect();
        let flat_got: Vec<u8> = re.iter().flat_map(|e| e.1.clone()).collect();
        if flat_sent != flat_got {
            out.violation("c06-fragmentation", &format!("c06-fragmentation: {} bytes of payload sent, {} received after cutting the stream into reads (M={})", flat_sent.len(), flat_got.len(), m), &line);
        }
        out.count("rt_cases");
    }
    out.finish(dir);
}
