//! `saslx` sub-harness (C19), direct oracle only - two families the byte-level `sasl` sub does not have:
//!
//! `saslx replay v=<s1|s256|s512> n=<k>`: the library's own SCRAM client logs in at a listener (one acceptor, as a server
//!    keeps it) through a tap that records everything the client writes; the recording is then played back k times on new
//!    connections of the SAME acceptor.  A peer that only replays never knew the password: every replay must be refused
//!    (class c19-replay-accepted) - the server's nonce has to be fresh per negotiation.
//! `saslx anon | act ; act ; ...`: a listener with the ANONYMOUS mechanism against a scripted client; actions
//!    `hs` (SASL header) `ha` (AMQP header) `init:<mech>` `resp` `chal` (a frame only a server sends) `open` `eof`.
//!    The exchange that may be granted is `hs ; init:<any> ; ha ; open` (the ANONYMOUS acceptor takes whatever the sasl-init holds): when
//!    accept() returns a connection, or an outcome `ok` is written, the client's actions must have begun with the SASL header
//!    and a sasl-init (class c19-granted-out-of-turn); `hs ; init:ANONYMOUS ; ha ; open` must be granted.
use crate::eng::*;
use crate::out::*;
use crate::rng::Rng;
use fe2o3_amqp::acceptor::{ConnectionAcceptor, SaslAnonymousMechanism};
use fe2o3_amqp::auth::scram::{ScramAuthenticator, ScramVersion};
use fe2o3_amqp::sasl_profile::{SaslScramSha1, SaslScramSha256, SaslScramSha512};
use fe2o3_amqp::Connection;
use fe2o3_amqp_types::performatives::{Open, Performative};
use fe2o3_amqp_types::sasl::{SaslChallenge, SaslInit, SaslResponse};
use serde_bytes::ByteBuf;
use std::sync::{Arc, Mutex};
use std::time::Duration;
use tokio::io::{AsyncRead, AsyncReadExt, AsyncWrite, AsyncWriteExt};

const USER: &str = "alice";
const PASSWORD: &str = "correct horse";

async fn pump<R: AsyncRead + Unpin, W: AsyncWrite + Unpin>(mut from: R, mut to: W, tap: Option<Arc<Mutex<Vec<u8>>>>) {
    let mut buf = [0u8; 1024];
    loop {
        match from.read(&mut buf).await {
            Ok(0) | Err(_) => break,
            Ok(n) => {
                if let Some(t) = &tap {
                    t.lock().unwrap().extend_from_slice(&buf[..n]);
                }
                if to.write_all(&buf[..n]).await.is_err() {
                    break;
                }
            }
        }
    }
    let _ = to.shutdown().await;
}

fn run_replay(v: &str, n: usize) -> String {
    let v = v.to_string();
    paused_rt().block_on(async move {
        let ver = match v.as_str() {
            "s1" => ScramVersion::Sha1,
            "s512" => ScramVersion::Sha512,
            _ => ScramVersion::Sha256,
        };
        let cred = match fe2o3_amqp::acceptor::scram::SingleScramCredential::new(USER, PASSWORD, ver) {
            Ok(c) => c,
            Err(_) => return "BAD-CREDENTIAL".to_string(),
        };
        let acceptor = ConnectionAcceptor::builder().container_id("l").sasl_acceptor(ScramAuthenticator::new(Arc::new(cred))).build();
        let recorded = Arc::new(Mutex::new(Vec::new()));
        let (client_io, tap_c) = tokio::io::duplex(1 << 16);
        let (tap_s, server_io) = tokio::io::duplex(1 << 16);
        let (c_rd, c_wr) = tokio::io::split(tap_c);
        let (s_rd, s_wr) = tokio::io::split(tap_s);
        let up = tokio::spawn(pump(c_rd, s_wr, Some(recorded.clone())));
        let down = tokio::spawn(pump(s_rd, c_wr, None));
        let b = Connection::builder().container_id("c");
        let client = async {
            match v.as_str() {
                "s1" => b.sasl_profile(SaslScramSha1::new(USER, PASSWORD)).open_with_stream(client_io).await.map(|_| ()).map_err(|e| format!("{:?}", e)),
                "s512" => b.sasl_profile(SaslScramSha512::new(USER, PASSWORD)).open_with_stream(client_io).await.map(|_| ()).map_err(|e| format!("{:?}", e)),
                _ => b.sasl_profile(SaslScramSha256::new(USER, PASSWORD)).open_with_stream(client_io).await.map(|_| ()).map_err(|e| format!("{:?}", e)),
            }
        };
        let r = tokio::time::timeout(Duration::from_secs(600), async { tokio::join!(acceptor.accept(server_io), client) }).await;
        let first = match r {
            Err(_) => "login=HANG".to_string(),
            Ok((s, c)) => format!("login={}/{}", if s.is_ok() { "ok" } else { "err" }, if c.is_ok() { "ok" } else { "err" }),
        };
        up.abort();
        down.abort();
        let replay: Vec<u8> = recorded.lock().unwrap().clone();
        let mut out = vec![first, format!("recorded={}", replay.len())];
        for _ in 0..n {
            let (mut att, server_io) = tokio::io::duplex(1 << 16);
            let rp = replay.clone();
            let attacker = tokio::spawn(async move {
                let _ = att.write_all(&rp).await;
                let mut sink = [0u8; 1024];
                let _ = tokio::time::timeout(Duration::from_secs(300), async {
                    while let Ok(k) = att.read(&mut sink).await {
                        if k == 0 {
                            break;
                        }
                    }
                })
                .await;
            });
            let res = tokio::time::timeout(Duration::from_secs(600), acceptor.accept(server_io)).await;
            attacker.abort();
            out.push(match res {
                Err(_) => "replay=HANG".to_string(),
                Ok(Ok(_)) => "replay=GRANTED".to_string(),
                Ok(Err(_)) => "replay=refused".to_string(),
            });
        }
        out.join(" ")
    })
}

fn sasl_frame(body: &[u8]) -> Vec<u8> {
    raw_frame(0, 2, 1, body)
}

fn run_anon(script: &str) -> String {
    let acts: Vec<String> = script.split(';').map(|s| s.trim().to_string()).filter(|s| !s.is_empty()).collect();
    paused_rt().block_on(async move {
        let (a, b) = tokio::io::duplex(1 << 16);
        let acceptor = ConnectionAcceptor::builder().container_id("l").sasl_acceptor(SaslAnonymousMechanism::new()).build();
        let app = tokio::spawn(async move { acceptor.accept(a).await.map(|_h| ()).map_err(|e| format!("{:?}", e)) });
        let mut peer = Peer::new(b);
        peer.parser.expect_headers = 2;
        let mut wrote: Vec<String> = Vec::new();
        for act in &acts {
            let bytes: Vec<u8> = match act.as_str() {
                "hs" => SASL_HEADER.to_vec(),
                "ha" => AMQP_HEADER.to_vec(),
                "resp" => sasl_frame(&serde_amqp::to_vec(&SaslResponse { response: ByteBuf::from(vec![]) }).unwrap()),
                "chal" => sasl_frame(&serde_amqp::to_vec(&SaslChallenge { challenge: ByteBuf::from(vec![1, 2]) }).unwrap()),
                "open" => frame_bytes(
                    0,
                    &Performative::Open(Open {
                        container_id: "p".into(),
                        hostname: None,
                        max_frame_size: Default::default(),
                        channel_max: Default::default(),
                        idle_time_out: None,
                        outgoing_locales: None,
                        incoming_locales: None,
                        offered_capabilities: None,
                        desired_capabilities: None,
                        properties: None,
                    }),
                    &[],
                ),
                "eof" => {
                    peer.shutdown().await;
                    barrier().await;
                    wrote.push(tokens(&peer.drain().await));
                    continue;
                }
                m if m.starts_with("init:") => {
                    sasl_frame(&serde_amqp::to_vec(&SaslInit { mechanism: m[5..].into(), initial_response: None, hostname: None }).unwrap())
                }
                _ => return "BADCASE".to_string(),
            };
            peer.write(&bytes).await;
            barrier().await;
            wrote.push(tokens(&peer.drain().await));
        }
        tokio::time::sleep(Duration::from_secs(2)).await;
        wrote.push(tokens(&peer.drain().await));
        peer.shutdown().await;
        let res = match tokio::time::timeout(Duration::from_secs(600), app).await {
            Err(_) => "accept=HANG".to_string(),
            Ok(Err(_)) => "accept=PANIC".to_string(),
            Ok(Ok(Ok(()))) => "accept=ok".to_string(),
            Ok(Ok(Err(e))) => format!("accept=err({})", &e[..e.len().min(60)]),
        };
        format!("{} | {}", wrote.join(" ; "), res)
    })
}

pub fn run_case(line: &str) -> String {
    let rest = line.strip_prefix("saslx ").unwrap_or(line);
    if let Some(r) = rest.strip_prefix("replay ") {
        let w: Vec<&str> = r.split_whitespace().collect();
        let v = w.iter().find_map(|x| x.strip_prefix("v=")).unwrap_or("s256");
        let n: usize = w.iter().find_map(|x| x.strip_prefix("n=")).and_then(|x| x.parse().ok()).unwrap_or(1);
        return run_replay(v, n);
    }
    if let Some(r) = rest.strip_prefix("anon |") {
        return run_anon(r);
    }
    "BADCASE".to_string()
}

pub fn oracle(line: &str, trace: &str) -> Vec<(String, String)> {
    let mut v = Vec::new();
    if trace.contains("PANIC") || trace.contains("HANG") {
        v.push(("c19-hang-or-panic".to_string(), format!("the negotiation hangs or panics: {}", trace)));
    }
    if line.contains(" replay ") {
        if !trace.starts_with("login=ok/ok") {
            v.push(("c19-valid-login-refused".to_string(), format!("the library's own client with the right password is not let in: {}", trace)));
        }
        if trace.contains("replay=GRANTED") {
            v.push((
                "c19-replay-accepted".to_string(),
                format!("a peer that replayed the recorded bytes of an earlier SCRAM login was given a connection (it never knew the password): {}", trace),
            ));
        }
    } else {
        let script = line.split_once('|').map(|x| x.1).unwrap_or("");
        let acts: Vec<&str> = script.split(';').map(|s| s.trim()).filter(|s| !s.is_empty()).collect();
        // the ANONYMOUS acceptor is documented to accept anything a client puts into its sasl-init (there are no credentials
        // to check, and the mechanism name is not one): what must hold is the ORDER - SASL header, then a sasl-init
        let valid_prefix = acts.len() >= 2 && acts[0] == "hs" && acts[1].starts_with("init:");
        // tokens() prints a SASL frame the listener wrote as S(<hex of the body>): an outcome with code ok is 00 53 44 c0 .. 50 00
        let ok_outcome = trace.split(|c| c == ' ' || c == ';' || c == ',').any(|t| t.starts_with("S(005344") && t.contains("5000"));
        let granted = trace.ends_with("accept=ok") || ok_outcome;
        if granted && !valid_prefix {
            v.push((
                "c19-granted-out-of-turn".to_string(),
                format!("the listener granted the negotiation although the client did not begin with the SASL header and a sasl-init: {}", trace),
            ));
        }
        let full = acts.len() >= 4 && valid_prefix && acts[1] == "init:ANONYMOUS" && acts[2] == "ha" && acts[3] == "open";
        if full && !trace.contains("accept=ok") {
            v.push(("c19-valid-login-refused".to_string(), format!("the valid ANONYMOUS exchange is refused: {}", trace)));
        }
    }
    v
}

pub fn run(seed: u64, n: u64, thorough: bool, _corpus: &[String], dir: &str) {
    crate::codec::quiet_panics();
    let mut out = Outputs::new(dir);
    let mut r = Rng::new(seed ^ 0x7361736c78);
    let mut lines: Vec<String> = Vec::new();
    for v in ["s1", "s256", "s512"] {
        lines.push(format!("saslx replay v={} n={}", v, if thorough { 4 } else { 2 }));
    }
    let alpha = ["hs", "ha", "init:ANONYMOUS", "init:PLAIN", "resp", "chal", "open"];
    // every sequence of up to 3 actions, followed by the tail a granted client would send
    let mut seqs: Vec<Vec<&str>> = vec![vec![]];
    for _ in 0..3 {
        let mut next = Vec::new();
        for s in &seqs {
            for a in alpha {
                let mut t = s.clone();
                t.push(a);
                next.push(t);
            }
        }
        for s in &next {
            let mut full = s.clone();
            if !(full.ends_with(&["ha", "open"])) {
                full.extend(["ha", "open"]);
            }
            lines.push(format!("saslx anon | {}", full.join(" ; ")));
        }
        seqs = next;
    }
    for _ in 0..n {
        let k = r.range(2, 6) as usize;
        let mut s: Vec<&str> = vec!["hs"];
        for _ in 0..k {
            s.push(*r.pick(&alpha));
        }
        s.extend(["ha", "open"]);
        lines.push(format!("saslx anon | {}", s.join(" ; ")));
    }
    lines.sort();
    lines.dedup();
    for line in lines {
        let t = run_case(&line);
        out.count(if line.contains("replay") { "replay" } else { "anon" });
        if t.contains("accept=ok") || t.contains("login=ok/ok") {
            out.nontrivial(&line);
        }
        for (c, w) in oracle(&line, &t) {
            out.violation(&c, &w, &line);
        }
        out.case(&line, &t);
    }
    out.finish(dir);
}
