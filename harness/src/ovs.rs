//! `ovs` sub-harness (C06, C15): the max-frame-size this endpoint announced is the limit for what it reads, whatever the
//! peer announced.  A real client (and a real listener) with local max-frame-size L is opened against a scripted peer that
//! announces R; the peer then sends a close frame padded to exactly S octets (a long error description), or only the first
//! 8 octets of a frame that claims S octets.
//!
//! Direct oracle
//!  * S <= max(L, 512): the frame is a valid close: close()/on_close() reports the peer's close (class c06-valid-frame-refused
//!    when it does not);
//!  * S > max(L, 512): the frame must not be acted on: the connection ends with an error that is NOT the peer's close and no
//!    close frame answers it as if it had been read (class c15-oversized-frame-accepted / c06-oversized-frame-accepted);
//!  * header only, S > max(L, 512): the endpoint must give up at once (within 1 s of virtual time), not wait for octets that
//!    a peer can withhold for ever (class c15-oversized-frame-awaited).
//! Case line: `ovs side=<client|listener> l=<L> r=<R> s=<S> part=<whole|head>`; impl line = the verdict-relevant trace.
use crate::eng::*;
use crate::out::*;
use crate::rng::Rng;
use fe2o3_amqp::acceptor::ConnectionAcceptor;
use fe2o3_amqp::Connection;
use fe2o3_amqp_types::definitions::{AmqpError, Error as AmqpErr};
use fe2o3_amqp_types::performatives::{Close, MaxFrameSize, Open, Performative};
use std::time::Duration;

fn peer_open(r: u32) -> Vec<u8> {
    let open = Open {
        container_id: "p".into(),
        hostname: None,
        max_frame_size: MaxFrameSize(r),
        channel_max: Default::default(),
        idle_time_out: None,
        outgoing_locales: None,
        incoming_locales: None,
        offered_capabilities: None,
        desired_capabilities: None,
        properties: None,
    };
    frame_bytes(0, &Performative::Open(open), &[])
}

/// a close frame of exactly `size` octets on the wire (size field included)
fn padded_close(size: usize) -> Option<Vec<u8>> {
    for pad in (0..=size).rev() {
        let c = Close { error: Some(AmqpErr::new(AmqpError::InternalError, Some("x".repeat(pad)), None)) };
        let f = frame_bytes(0, &Performative::Close(c), &[]);
        if f.len() == size {
            return Some(f);
        }
        if f.len() < size {
            break;
        }
    }
    None
}

pub fn run_case(side: &str, l: u32, r: u32, s: usize, head_only: bool) -> String {
    let rt = paused_rt();
    rt.block_on(async move {
        let (a, b) = tokio::io::duplex(1 << 22);
        let mut peer = Peer::new(b);
        let frame = match padded_close(s) {
            Some(f) => f,
            None => return "no-such-frame".to_string(),
        };
        let stim: Vec<u8> = if head_only { frame[..8].to_vec() } else { frame };
        let listener = side == "listener";
        let app = tokio::spawn(async move {
            async fn watch<R>(opened: Result<fe2o3_amqp::connection::ConnectionHandle<R>, String>) -> String {
                match opened {
                    Err(e) => format!("open=Err({})", &e[..e.len().min(80)]),
                    Ok(mut c) => {
                        let t0 = tokio::time::Instant::now();
                        let r = tokio::time::timeout(Duration::from_secs(600), c.on_close()).await;
                        let dt = t0.elapsed().as_millis();
                        match r {
                            Ok(Ok(())) => format!("open=ok on_close=ok after={}ms", dt),
                            Ok(Err(e)) => {
                                let e = format!("{:?}", e);
                                format!("open=ok on_close=Err({}) after={}ms", &e[..e.len().min(120)], dt)
                            }
                            Err(_) => "open=ok on_close=PENDING".to_string(),
                        }
                    }
                }
            }
            if listener {
                watch(ConnectionAcceptor::builder().container_id("l").max_frame_size(l).build().accept(a).await.map_err(|e| format!("{:?}", e))).await
            } else {
                watch(Connection::builder().container_id("c").max_frame_size(l).open_with_stream(a).await.map_err(|e| format!("{:?}", e))).await
            }
        });
        peer.write(&AMQP_HEADER).await;
        peer.write(&peer_open(r)).await;
        barrier().await;
        let _ = peer.drain().await;
        peer.write(&stim).await;
        barrier().await;
        // give the endpoint 2 s of virtual time, then look at what it wrote and let the stream end
        tokio::time::sleep(Duration::from_secs(2)).await;
        let wrote = peer.drain().await;
        let early = if app.is_finished() { "1" } else { "0" };
        peer.shutdown().await;
        let res = match tokio::time::timeout(Duration::from_secs(700), app).await {
            Ok(Ok(s)) => s,
            Ok(Err(_)) => "PANIC".to_string(),
            Err(_) => "HANG".to_string(),
        };
        format!("{} | wrote={} | done-before-eof={}", res, tokens(&wrote), early)
    })
}

pub fn oracle(l: u32, s: usize, head_only: bool, trace: &str) -> Vec<(String, String)> {
    let mut v = Vec::new();
    let limit = std::cmp::max(l as usize, 512);
    if trace == "no-such-frame" {
        return v;
    }
    if trace.starts_with("PANIC") || trace.starts_with("HANG") {
        v.push(("c15-panic".to_string(), format!("the endpoint panicked or hung: {}", trace)));
        return v;
    }
    let peer_close_seen = trace.contains("RemoteClosedWithError") || trace.contains("on_close=ok");
    if s <= limit && !head_only {
        if !peer_close_seen {
            v.push(("c06-valid-frame-refused".to_string(), format!("a close frame of {} octets (limit {}) is not read as the peer's close: {}", s, limit, trace)));
        }
    } else if s > limit {
        if !head_only && peer_close_seen {
            for c in ["c15-oversized-frame-accepted", "c06-oversized-frame-accepted"] {
                v.push((c.to_string(), format!("a frame of {} octets was read and acted on although this endpoint announced max-frame-size {}: {}", s, l, trace)));
            }
        }
        if head_only && trace.ends_with("done-before-eof=0") {
            v.push((
                "c15-oversized-frame-awaited".to_string(),
                format!("the header of a frame of {} octets (announced limit {}) is not refused at once: the endpoint waits for the octets: {}", s, l, trace),
            ));
        }
    }
    v
}

pub fn run(seed: u64, n: u64, _thorough: bool, _corpus: &[String], dir: &str) {
    crate::codec::quiet_panics();
    let mut out = Outputs::new(dir);
    let mut r = Rng::new(seed ^ 0x6f7673);
    let mut cases: Vec<(String, u32, u32, usize, bool)> = Vec::new();
    for side in ["client", "listener"] {
        for l in [512u32, 1024, 4096] {
            for rr in [512u32, l, 4 * l, 1 << 24, u32::MAX] {
                for s in [l as usize - 1, l as usize, l as usize + 1, 2 * l as usize, 4 * l as usize] {
                    cases.push((side.to_string(), l, rr, s, false));
                }
                cases.push((side.to_string(), l, rr, 4 * l as usize, true));
                cases.push((side.to_string(), l, rr, 1 << 23, true));
            }
        }
    }
    for _ in 0..n {
        let side = if r.chance(1, 2) { "client" } else { "listener" };
        let l = *r.pick(&[512u32, 600, 1024, 2048, 4096, 65536]);
        let rr = *r.pick(&[512u32, 1024, 65536, 1 << 20, u32::MAX]);
        let s = (l as usize + r.below(3 * l as u64) as usize).saturating_sub(l as usize / 2).max(200);
        cases.push((side.to_string(), l, rr, s, r.chance(1, 4)));
    }
    for (side, l, rr, s, head) in cases {
        let line = format!("ovs side={} l={} r={} s={} part={}", side, l, rr, s, if head { "head" } else { "whole" });
        let t = run_case(&side, l, rr, s, head);
        out.count(&format!("{} {}", if s > std::cmp::max(l as usize, 512) { "oversized" } else { "within limit" }, if head { "header only" } else { "whole frame" }));
        if rr > l {
            out.nontrivial(&line);
        }
        for (c, w) in oracle(l, s, head, &t) {
            out.violation(&c, &w, &line);
        }
        out.case(&line, &t);
    }
    out.finish(dir);
}
