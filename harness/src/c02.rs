//! C02: settlement bookkeeping of the session + link relay, through the facade.
use crate::out::*;
use crate::rng::Rng;
use fe2o3_amqp::verif::{VFrame, VSession};

#[derive(Clone, Debug)]
pub enum Ev {
    /// link index, tag
    Send(usize, u32),
    /// role_is_receiver first last settled state
    Disp(bool, u32, Option<u32>, bool, Option<u8>),
}

#[derive(Clone, Debug)]
pub struct Case {
    pub noi: u32,
    /// per sender link: rcv-settle-mode second?
    pub links: Vec<bool>,
    pub evs: Vec<Ev>,
}

fn opt_u8(x: Option<u8>) -> String {
    x.map(|v| v.to_string()).unwrap_or_else(|| "-".into())
}

impl Case {
    pub fn line(&self) -> String {
        let links: Vec<&str> = self.links.iter().map(|b| if *b { "2" } else { "1" }).collect();
        let evs: Vec<String> = self
            .evs
            .iter()
            .map(|e| match e {
                Ev::Send(l, t) => format!("S {} {}", l, t),
                Ev::Disp(r, f, l, s, st) => format!("D {} {} {} {} {}", b(*r), f, opt_u32(*l), b(*s), opt_u8(*st)),
            })
            .collect();
        format!("c02 {} {} | {}", self.noi, links.join(""), evs.join(" ; "))
    }
    pub fn parse(line: &str) -> Option<Case> {
        let rest = line.strip_prefix("c02 ")?;
        let mut parts = rest.splitn(2, '|');
        let hdr: Vec<&str> = parts.next()?.split_whitespace().collect();
        if hdr.len() != 2 {
            return None;
        }
        let links = hdr[1].chars().map(|c| c == '2').collect();
        let mut evs = Vec::new();
        for e in parts.next().unwrap_or("").split(';') {
            let w: Vec<&str> = e.split_whitespace().collect();
            match w.as_slice() {
                [] => {}
                ["S", l, t] => evs.push(Ev::Send(l.parse().ok()?, t.parse().ok()?)),
                ["D", r, f, l, s, st] => evs.push(Ev::Disp(
                    *r == "1",
                    f.parse().ok()?,
                    parse_opt_u32(l),
                    *s == "1",
                    if *st == "-" { None } else { Some(st.parse().ok()?) },
                )),
                _ => return None,
            }
        }
        Some(Case { noi: hdr[0].parse().ok()?, links, evs })
    }
}

pub fn run_case(c: &Case) -> (String, Vec<String>) {
    let mut viol = Vec::new();
    let mut s = VSession::new(0, 1, c.noi, 5000, 5000);
    s.on_incoming_begin(0, 0, u32::MAX, 5000).unwrap();
    // sender links: local output handle h, peer's handle 100 + i
    let mut handles = Vec::new();
    for (i, second) in c.links.iter().enumerate() {
        let name = format!("s{}", i);
        let h = s.allocate_sender_link(&name).unwrap();
        s.on_incoming_attach(&name, 100 + i as u32, true, *second).unwrap();
        handles.push(h);
    }
    // specification side
    #[derive(Clone)]
    struct Sent {
        link: usize,
        tag: u32,
        id: u32,
        resolved: Option<Option<u8>>,
        expect: Option<Option<u8>>, // outcome of the first settling-or-terminal disposition covering id
        echoed: bool,
        terminal_reported_unsettled: bool,
    }
    let mut sent: Vec<Sent> = Vec::new();
    let mut next_id = c.noi;
    let mut trace = String::new();
    for e in &c.evs {
        match e {
            Ev::Send(l, tag) => {
                let ih = 100 + *l as u32;
                let tagb = tag.to_be_bytes().to_vec();
                s.sender_add_unsettled(handles[*l], tagb.clone());
                let fr = s.on_outgoing_transfer(ih, handles[*l], Some(tagb), Some(false), false, vec![0, 0, 0, 0]).unwrap();
                let did = match fr.first() {
                    Some(VFrame::Transfer { delivery_id, .. }) => *delivery_id,
                    _ => None,
                };
                if did != Some(next_id) {
                    viol.push(format!("delivery-id: send stamped {:?}, expected {}", did, next_id));
                }
                sent.push(Sent { link: *l, tag: *tag, id: next_id, resolved: None, expect: None, echoed: false, terminal_reported_unsettled: false });
                next_id = next_id.wrapping_add(1);
                trace.push_str("S");
            }
            Ev::Disp(role, first, last, settled, st) => {
                let frames = s.on_incoming_disposition(*role, *first, *last, *settled, *st).unwrap();
                let lastv = last.unwrap_or(*first);
                let terminal = matches!(st, Some(x) if *x < 4);
                // expectations
                for d in sent.iter_mut() {
                    if *role && d.id >= *first && d.id <= lastv && d.expect.is_none() && (*settled || terminal) {
                        d.expect = Some(*st);
                    }
                    if *role && d.id >= *first && d.id <= lastv && !*settled && terminal && d.resolved.is_none() && c.links[d.link] {
                        d.terminal_reported_unsettled = true;
                    }
                }
                // echoes
                let mut es = Vec::new();
                for f in &frames {
                    if let VFrame::Disposition { role_is_receiver, first, last, settled, state, .. } = f {
                        if *role_is_receiver || !*settled {
                            viol.push(format!("echo-shape: echo {:?}", f));
                        }
                        if *state != *st {
                            viol.push(format!("echo-state: echo carries state {:?}, the receiver reported {:?}", state, st));
                        }
                        let l = last.unwrap_or(*first);
                        for d in sent.iter_mut() {
                            if d.id >= *first && d.id <= l {
                                d.echoed = true;
                                if !d.terminal_reported_unsettled {
                                    viol.push(format!("echo-nonterminal: settled echo for delivery {} which has no terminal unsettled outcome pending (state {:?})", d.id, st));
                                }
                            }
                        }
                        es.push(format!("{}-{}:{}", first, l, opt_u8(*state)));
                    }
                }
                for d in sent.iter() {
                    if d.terminal_reported_unsettled && !d.echoed {
                        viol.push(format!("echo-missing: delivery {} got a terminal unsettled outcome in rcv-settle-mode=second but no settled echo", d.id));
                    }
                }
                trace.push_str(&format!("D[{}]", es.join(",")));
            }
        }
        // outcomes
        let mut rs = Vec::new();
        for d in sent.iter_mut() {
            if d.resolved.is_none() {
                if let Some(o) = s.sender_poll_outcome(handles[d.link], &d.tag.to_be_bytes()) {
                    d.resolved = Some(o);
                    rs.push(format!("{}/{}={}", 100 + d.link, d.tag, opt_u8(o)));
                    match d.expect {
                        Some(x) if x == o => {}
                        other => viol.push(format!("outcome: delivery {} (link {}, tag {}) resolved with {:?}, expected {:?}", d.id, d.link, d.tag, o, other)),
                    }
                }
            } else if s.sender_poll_outcome(handles[d.link], &d.tag.to_be_bytes()).map(|o| o != Some(255)).unwrap_or(false) {
                viol.push(format!("twice: delivery {} resolved twice", d.id));
            }
        }
        for d in sent.iter() {
            if d.expect.is_some() && d.resolved.is_none() {
                viol.push(format!("unresolved: delivery {} was covered by a settling/terminal disposition but its send is still pending", d.id));
            }
        }
        rs.sort();
        // retained state
        let dm = s.delivery_map();
        let mut uns: Vec<String> = Vec::new();
        for (i, h) in handles.iter().enumerate() {
            let mut t: Vec<u32> = s.sender_unsettled_tags(*h).iter().map(|t| u32::from_be_bytes([t[0], t[1], t[2], t[3]])).collect();
            t.sort();
            uns.push(format!("{}:{:?}", i, t));
        }
        for d in sent.iter() {
            let in_map = dm.iter().any(|(r, id, _, _)| *r && *id == d.id);
            let in_uns = s.sender_unsettled_tags(handles[d.link]).iter().any(|t| t[..] == d.tag.to_be_bytes()[..]);
            if d.resolved.is_some() && in_uns {
                viol.push(format!("retained: delivery {} resolved but still in the sender's unsettled map", d.id));
            }
            if d.echoed && in_map {
                viol.push(format!("retained: delivery {} settled by the echo but still in the session's delivery map", d.id));
            }
        }
        let ids: Vec<u32> = dm.iter().filter(|x| x.0).map(|x| x.1).collect();
        trace.push_str(&format!(" R[{}] M{:?} U[{}] ; ", rs.join(","), ids, uns.join(" ")));
    }
    (trace, viol)
}

pub fn gen_case(r: &mut Rng, max_len: u64) -> Case {
    let noi = match r.below(3) {
        0 => 0,
        1 => u32::MAX - r.below(6) as u32,
        _ => r.below(1000) as u32,
    };
    let nl = r.range(1, 3) as usize;
    let links: Vec<bool> = (0..nl).map(|_| r.chance(1, 2)).collect();
    let n = r.range(1, max_len);
    let mut evs = Vec::new();
    let mut sent = 0u32;
    for _ in 0..n {
        if sent == 0 || r.chance(1, 2) {
            evs.push(Ev::Send(r.below(nl as u64) as usize, sent));
            sent += 1;
        } else {
            let base = noi.wrapping_add(r.below(sent as u64) as u32);
            let span = *r.pick(&[0u32, 0, 1, 2, 5]);
            let last = match r.below(3) {
                0 => None,
                _ => Some(base.saturating_add(span)),
            };
            let first = if r.chance(1, 10) { base.saturating_sub(2) } else { base };
            let st = *r.pick(&[None, Some(0u8), Some(0), Some(1), Some(2), Some(3), Some(4)]);
            evs.push(Ev::Disp(r.chance(9, 10), first, last, r.chance(1, 2), st));
        }
    }
    Case { noi, links, evs }
}

pub fn run(seed: u64, n: u64, thorough: bool, corpus: &[String], dir: &str) {
    let mut out = Outputs::new(dir);
    let mut r = Rng::new(seed);
    let do_case = |c: Case, out: &mut Outputs| {
        let line = c.line();
        let (trace, viol) = run_case(&c);
        for e in &c.evs {
            match e {
                Ev::Send(..) => out.count("ev_send"),
                Ev::Disp(_, _, _, true, _) => out.count("ev_disp_settled"),
                Ev::Disp(_, _, _, false, Some(x)) if *x < 4 => out.count("ev_disp_unsettled_terminal"),
                Ev::Disp(..) => out.count("ev_disp_unsettled_nonterminal"),
            }
        }
        if trace.contains("=") {
            out.nontrivial(&line);
        }
        if trace.contains("D[") && !trace.contains("D[]") {
            out.count("cases_with_echo");
        }
        for v in viol {
            let class = v.split(':').next().unwrap_or("?").to_string();
            out.violation(&format!("c02-{}", class), &format!("c02-{}", v), &line);
        }
        out.case(&line, &trace);
    };
    for l in corpus {
        if let Some(c) = Case::parse(l) {
            out.count("corpus_cases");
            do_case(c, &mut out);
        }
    }
    for _ in 0..n {
        let c = gen_case(&mut r, if thorough { 40 } else { 16 });
        do_case(c, &mut out);
    }
    out.finish(dir);
}
