//! `fdec` sub-harness: the AMQP frame codec (`frames/amqp.rs` FrameEncoder / FrameDecoder) against the Coq model
//! `coq/Frame/AmqpFrame.v`, on the bytes that follow the 4-byte size field.
//!
//! Case lines
//!   `fdec enc ch=<n> code=<descriptor code> fields=<hex,..|-> payload=<hex|->` : a generated frame is written by the real
//!        FrameEncoder (limit far above its size) and read back by the real FrameDecoder; trace
//!        `enc=<hex> dec=<result>`; the model runs enc_frame and dec_frame;
//!   `fdec xfer m=<M> ch=<n> fields=<..> payload=<hex>` : a transfer with a payload around 0..3 frame bodies through the real Transport bound
//!        with max-frame-size M: trace `wire=<all bytes written> frames=<result of the real decoder per frame>`; the model runs
//!        transfer_perfs, wire_transfer and dec_frame on each of its chunks;
//!   `fdec dec <hex>` : bytes built here - a valid frame under another header (doff 0..4, 255; type 1, 2, 255), cut short at
//!        every interesting place, the heartbeat frame, the descriptor by name (sym8 / sym32) or by the long ulong form,
//!        unknown and foreign descriptors, trailing bytes after a performative that takes no payload, random bytes -
//!        through the real FrameDecoder and dec_frame; trace `<result>`.
//!   result = `ok ch=<n> empty` | `ok ch=<n> code=<c> fields=<..> payload=<hex|->` | `err` | `PANIC`
//! Direct oracle: no panic (class c15-frame-decoder-panic, c04-panic-frame-decoder); a frame written by the encoder is read
//! back as the same channel, performative and payload (class c06-frame-roundtrip).
use crate::comp::Comp;
use crate::out::*;
use crate::rng::Rng;
use crate::typed;
use crate::val::{has_described_array_elem, has_unsupported_array, hex};
use bytes::{Bytes, BytesMut};
use fe2o3_amqp::frames::amqp::{Frame, FrameBody, FrameDecoder};
use fe2o3_amqp_types::performatives::Performative;
use serde_amqp::Value;
use std::panic::{catch_unwind, AssertUnwindSafe};
use tokio_util::codec::Decoder;

fn join(v: &[Vec<u8>]) -> String {
    if v.is_empty() {
        "-".into()
    } else {
        v.iter().map(|b| hex(b)).collect::<Vec<_>>().join(",")
    }
}
fn hexd(b: &[u8]) -> String {
    if b.is_empty() {
        "-".into()
    } else {
        hex(b)
    }
}

fn perf_fields(p: &Performative) -> (u64, Vec<Vec<u8>>) {
    match p {
        Performative::Open(x) => (0x10, x.fields()),
        Performative::Begin(x) => (0x11, x.fields()),
        Performative::Attach(x) => (0x12, x.fields()),
        Performative::Flow(x) => (0x13, x.fields()),
        Performative::Transfer(x) => (0x14, x.fields()),
        Performative::Disposition(x) => (0x15, x.fields()),
        Performative::Detach(x) => (0x16, x.fields()),
        Performative::End(x) => (0x17, x.fields()),
        Performative::Close(x) => (0x18, x.fields()),
    }
}

fn body_of(p: Performative, payload: Vec<u8>) -> FrameBody {
    match p {
        Performative::Open(x) => FrameBody::Open(x),
        Performative::Begin(x) => FrameBody::Begin(x),
        Performative::Attach(x) => FrameBody::Attach(x),
        Performative::Flow(x) => FrameBody::Flow(x),
        Performative::Transfer(x) => FrameBody::Transfer { performative: x, payload: Bytes::from(payload).into() },
        Performative::Disposition(x) => FrameBody::Disposition(x),
        Performative::Detach(x) => FrameBody::Detach(x),
        Performative::End(x) => FrameBody::End(x),
        Performative::Close(x) => FrameBody::Close(x),
    }
}

fn show_frame(f: &Frame) -> String {
    let (code, fields, payload) = match &f.body {
        FrameBody::Empty => return format!("ok ch={} empty", f.channel),
        FrameBody::Open(x) => (0x10, x.fields(), vec![]),
        FrameBody::Begin(x) => (0x11, x.fields(), vec![]),
        FrameBody::Attach(x) => (0x12, x.fields(), vec![]),
        FrameBody::Flow(x) => (0x13, x.fields(), vec![]),
        FrameBody::Transfer { performative, payload } => (0x14, performative.fields(), payload.to_vec()),
        FrameBody::Disposition(x) => (0x15, x.fields(), vec![]),
        FrameBody::Detach(x) => (0x16, x.fields(), vec![]),
        FrameBody::End(x) => (0x17, x.fields(), vec![]),
        FrameBody::Close(x) => (0x18, x.fields(), vec![]),
    };
    format!("ok ch={} code={} fields={} payload={}", f.channel, code, join(&fields), hexd(&payload))
}

pub fn decode(bytes: &[u8]) -> String {
    let owned = bytes.to_vec();
    let r = crate::out::guarded(10, move || {
        let r = catch_unwind(AssertUnwindSafe(|| {
            let mut src = BytesMut::from(&owned[..]);
            FrameDecoder {}.decode(&mut src)
        }));
        match r {
            Ok(Ok(Some(f))) => show_frame(&f),
            Ok(Ok(None)) => "none".into(),
            Ok(Err(_)) => "err".into(),
            Err(_) => "PANIC".into(),
        }
    });
    r.unwrap_or_else(|| "SPIN".to_string())
}


/// byte ranges (within the frame bytes after the size field) of the top-level list elements that are described values
fn nested_ranges(enc: &[u8]) -> Vec<(usize, usize)> {
    let mut out = Vec::new();
    if enc.len() < 8 || enc[4] != 0 || enc[5] != 0x53 {
        return out;
    }
    let (mut pos, count) = match enc[7] {
        0xc0 if enc.len() >= 10 => (10usize, enc[9] as usize),
        0xd0 if enc.len() >= 16 => (16usize, u32::from_be_bytes([enc[12], enc[13], enc[14], enc[15]]) as usize),
        _ => return out,
    };
    for _ in 0..count {
        if pos >= enc.len() {
            break;
        }
        let mut cur = std::io::Cursor::new(&enc[pos..]);
        if serde_amqp::from_reader::<Value>(&mut cur).is_err() {
            break;
        }
        let end = pos + cur.position() as usize;
        if enc[pos] == 0 {
            out.push((pos, end));
        }
        pos = end;
    }
    out
}

fn in_model_scope(fields: &[Vec<u8>]) -> bool {
    fields.iter().all(|f| match serde_amqp::from_slice::<Value>(f) {
        Ok(v) => !has_unsupported_array(&v) && !has_described_array_elem(&v),
        Err(_) => false,
    })
}

fn dec_case(bytes: &[u8], what: &str, out: &mut Outputs) {
    let line = format!("fdec dec {}", hexd(bytes));
    let res = decode(bytes);
    if res == "PANIC" {
        out.violation("c15-frame-decoder-panic", &format!("the frame decoder panics ({})", what), &line);
        out.violation("c04-panic-frame-decoder", &format!("the frame decoder panics ({})", what), &line);
    }
    if res == "SPIN" && !out.violations.iter().any(|v| v.0 == "c04-spin") {
        out.violation("c04-spin", &format!("c04-spin: the frame decoder had not returned after 10 s on a frame of {} bytes ({})", bytes.len(), what), &line);
        out.violation("c15-frame-decoder-spin", &format!("the frame decoder had not returned after 10 s on a frame of {} bytes ({})", bytes.len(), what), &line);
    }
    out.count(&format!("dec: {}", what));
    if res.starts_with("ok") {
        out.nontrivial(&line);
    }
    out.case(&line, &res);
}

fn one(r: &mut Rng, deep: u32, out: &mut Outputs) {
    let p = typed::gen_performative(r, deep);
    one_perf(r, p, false, out);
}

fn one_perf(r: &mut Rng, p: Performative, force_xfer: bool, out: &mut Outputs) {
    let (code, fields) = perf_fields(&p);
    if !in_model_scope(&fields) {
        out.count("skipped: field outside the value model");
        return;
    }
    let ch = match r.below(4) {
        0 => 0u16,
        1 => 65535,
        2 => r.below(4) as u16,
        _ => r.next() as u16,
    };
    let payload: Vec<u8> = if code == 0x14 {
        let n = *r.pick(&[0usize, 1, 5, 40, 300]);
        r.bytes(n)
    } else {
        vec![]
    };
    let line = format!("fdec enc ch={} code={} fields={} payload={}", ch, code, join(&fields), hexd(&payload));
    let frame = Frame { channel: ch, body: body_of(p.clone(), payload.clone()) };
    // FrameEncoder::new is crate-private: the frame goes through the real Transport (length-delimited layer on top);
    // the 4-byte size field is checked and taken off
    let enc = catch_unwind(AssertUnwindSafe(|| {
        crate::frame::send_frame(1 << 22, frame).and_then(|w| {
            if w.len() >= 4 && u32::from_be_bytes([w[0], w[1], w[2], w[3]]) as usize == w.len() {
                Ok(w[4..].to_vec())
            } else {
                Err("size field".to_string())
            }
        })
    }));
    let enc = match enc {
        Ok(Ok(b)) => b,
        Ok(Err(_)) => {
            out.case(&line, "enc=ERR");
            return;
        }
        Err(_) => {
            out.violation("c04-typed-panic", "the frame encoder panics", &line);
            out.case(&line, "enc=PANIC");
            return;
        }
    };
    let dec = decode(&enc);
    // a `multiple` field holding an empty array comes back as None: not a round-trip failure
    let normal = !fields.iter().any(|f| f[..] == [0xe0, 0x01, 0x00]);
    out.count(&format!("enc: code {}", code));
    out.nontrivial(&line);
    let expect = format!("ok ch={} code={} fields={} payload={}", ch, code, join(&fields), hexd(&payload));
    if normal && dec != expect {
        out.violation("c06-frame-roundtrip", &format!("the frame is read back as `{}`", &dec[..dec.len().min(300)]), &line);
    }
    out.case(&line, &format!("enc={} dec={}", hex(&enc), dec));

    // a transfer that does not fit: the frames the real encoder cuts it into (Transport with a small limit), each read back
    // by the real decoder - against transfer_perfs / wire_transfer / dec_frame
    if code == 0x14 && (force_xfer || r.chance(1, 2)) {
        let m = *r.pick(&[512usize, 513, 600, 1024]);
        let mfb = m - 8;
        let k = r.below(4) as usize;
        let delta = r.range(0, 60) as i64 - 30;
        let len = ((k * mfb) as i64 + delta).max(0) as usize;
        let big = r.bytes(len);
        let xline = format!("fdec xfer m={} ch={} fields={} payload={}", m, ch, join(&fields), hexd(&big));
        let frame = Frame { channel: ch, body: body_of(p.clone(), big.clone()) };
        let w = catch_unwind(AssertUnwindSafe(|| crate::frame::send_frame(m, frame)));
        let line_impl = match w {
            Ok(Ok(w)) => {
                let mut decs: Vec<String> = Vec::new();
                let mut parts: Vec<u8> = Vec::new();
                let mut pos = 0usize;
                let mut bad = false;
                while pos + 4 <= w.len() {
                    let sz = u32::from_be_bytes([w[pos], w[pos + 1], w[pos + 2], w[pos + 3]]) as usize;
                    if sz < 4 || pos + sz > w.len() {
                        bad = true;
                        break;
                    }
                    let d = decode(&w[pos + 4..pos + sz]);
                    if let Some(ph) = d.rsplit("payload=").next() {
                        if ph != "-" && d.starts_with("ok") {
                            parts.extend(crate::val::unhex(ph).unwrap_or_default());
                        }
                    }
                    decs.push(d);
                    pos += sz;
                }
                if bad || pos != w.len() {
                    out.violation("c06-frame-roundtrip", "the wire bytes of a transfer are not a sequence of whole frames", &xline);
                } else if normal && parts != big {
                    out.violation("c06-frame-roundtrip", "the payload parts read back from the frames of a transfer do not concatenate to the payload", &xline);
                }
                out.count(&format!("xfer: {} frame(s)", decs.len().min(5)));
                if decs.len() >= 2 {
                    out.nontrivial(&xline);
                }
                format!("wire={} frames={}", hex(&w), decs.join("/"))
            }
            Ok(Err(_)) => "wire=ERR".to_string(),
            Err(_) => {
                out.violation("c06-panic", "c06-panic: the transport panics while sending a transfer", &xline);
                "wire=PANIC".to_string()
            }
        };
        out.case(&xline, &line_impl);
    }
    // the same frame under other headers
    let body = &enc[4..];
    for (doff, ty) in [(0u8, 0u8), (1, 0), (3, 0), (4, 0), (255, 0), (2, 1), (2, 2), (2, 255)] {
        if r.chance(1, 3) {
            let mut b = vec![doff, ty];
            b.extend(ch.to_be_bytes());
            b.extend(body);
            dec_case(&b, "other doff / type", out);
        }
    }
    // cut short.  A cut that falls strictly inside a nested composite (an error, a terminus, a delivery state) is left out:
    // the typed decoder of the nested struct takes the end of the input for the end of its list, the model decodes a
    // field with the value decoder, which reports the truncation (typed nested decoding is not modelled)
    let nested = nested_ranges(&enc);
    for _ in 0..2 {
        let k = r.below(enc.len() as u64) as usize;
        if nested.iter().any(|(a, b)| *a < k && k < *b) {
            out.count("skipped: cut inside a nested composite");
            continue;
        }
        dec_case(&enc[..k], "cut short", out);
    }
    for k in 0..=4usize.min(enc.len()) {
        if r.chance(1, 4) {
            dec_case(&enc[..k], "cut inside the header", out);
        }
    }
    // descriptor by name / long ulong
    let perf = serde_amqp::to_vec(&p).unwrap();
    if perf.len() > 3 && perf[0] == 0 && perf[1] == 0x53 {
        let name = match code {
            0x10 => "amqp:open:list",
            0x11 => "amqp:begin:list",
            0x12 => "amqp:attach:list",
            0x13 => "amqp:flow:list",
            0x14 => "amqp:transfer:list",
            0x15 => "amqp:disposition:list",
            0x16 => "amqp:detach:list",
            0x17 => "amqp:end:list",
            _ => "amqp:close:list",
        };
        let rest = &perf[3..];
        let mut hdr = vec![2u8, 0];
        hdr.extend(ch.to_be_bytes());
        let variants: Vec<(Vec<u8>, &str)> = vec![
            ([vec![0x00, 0xa3, name.len() as u8], name.as_bytes().to_vec()].concat(), "descriptor by name (sym8)"),
            ([vec![0x00, 0xb3], (name.len() as u32).to_be_bytes().to_vec(), name.as_bytes().to_vec()].concat(), "descriptor by name (sym32)"),
            ([vec![0x00, 0x80], (code as u64).to_be_bytes().to_vec()].concat(), "descriptor as ulong"),
            (vec![0x00, 0x53, 0x19], "unknown descriptor"),
            (vec![0x00, 0x53, 0x24], "foreign descriptor (accepted)"),
            ([vec![0x00, 0xa3, 9], b"amqp:nope".to_vec()].concat(), "unknown descriptor name"),
        ];
        for (d, what) in variants {
            if r.chance(1, 2) {
                let b = [hdr.clone(), d, rest.to_vec(), payload.clone()].concat();
                dec_case(&b, what, out);
            }
        }
        if code != 0x14 && r.chance(1, 2) {
            let k = 1 + r.below(6) as usize;
            let b = [enc.clone(), r.bytes(k)].concat();
            dec_case(&b, "trailing bytes after a performative without payload", out);
        }
    }
}

pub fn run(seed: u64, n: u64, thorough: bool, _corpus: &[String], dir: &str) {
    crate::codec::quiet_panics();
    let mut out = Outputs::new(dir);
    let mut r = Rng::new(seed ^ 0x66646563);
    // fixed cases first
    for b in [
        vec![],
        vec![2],
        vec![2, 0],
        vec![2, 0, 0],
        vec![2, 0, 0, 0],
        vec![2, 0, 255, 255],
        vec![2, 1, 0, 0],
        vec![3, 0, 0, 0, 0, 0, 0, 0],
        vec![2, 0, 0, 0, 0],
        vec![2, 0, 0, 0, 0x40],
        vec![2, 0, 0, 0, 0x00, 0x53],
        vec![2, 0, 0, 0, 0x00, 0x53, 0x17],
        vec![2, 0, 0, 0, 0x00, 0x53, 0x17, 0x45],
        vec![2, 0, 0, 0, 0x00, 0x53, 0x17, 0xc0, 0x01, 0x00],
        vec![2, 0, 0, 0, 0x00, 0x53, 0x10, 0x45],
        vec![2, 0, 0, 0, 0x00, 0x53, 0x10, 0xc0, 0x03, 0x01, 0xa1, 0x00],
        vec![2, 0, 0, 0, 0x00, 0x53, 0x10, 0xc0, 0x03, 0x01, 0x40],
        vec![2, 0, 0, 0, 0x00, 0x53, 0x14, 0xc0, 0x03, 0x01, 0x43, 1, 2, 3],
        vec![2, 0, 0, 0, 0x00, 0x53, 0x14, 0xc0, 0x03, 0x09, 0x43],
    ] {
        dec_case(&b, "fixed", &mut out);
    }
    for _ in 0..n {
        let deep = if thorough && r.chance(1, 3) { 1 } else { 0 };
        one(&mut r, deep, &mut out);
        if r.chance(1, 3) {
            let t = typed::gen_transfer(&mut r, deep);
            one_perf(&mut r, Performative::Transfer(t), true, &mut out);
        }
        if r.chance(1, 5) {
            let k = r.below(24) as usize;
            let mut b = r.bytes(k);
            if k >= 2 && r.chance(2, 3) {
                b[0] = 2;
                b[1] = 0;
            }
            dec_case(&b, "random bytes", &mut out);
        }
    }
    out.finish(dir);
}
