//! C14 — failures propagate: no call hangs and every handle learns why it stopped.
//!
//! The library's CLIENT (one `ConnectionHandle`, one `SessionHandle`, one `Sender`, one `Receiver`)
//! talks to a SCRIPTED byte-level peer over `tokio::io::duplex` under the paused clock. The
//! application is four small tasks, each owning one handle and running a fixed programme; every
//! API call is preceded by a 1 ms barrier (so calls are issued at quiescent points only), is
//! bounded in virtual time, and its result is recorded:
//!
//! ```text
//!   conn: open ; begin ; (wait for sess) ; close
//!   sess: attach_s ; attach_r ; (wait for tx, rx) ; end
//!   tx  : send#1 (send "m1") ; send#2 (send_batchable "m2", keeps the future) ; send#3 (send, 600 byte body,
//!         two frames) ; out#2 (await the future of send#2) ; (wait until rx has received) ; detach_s
//!   rx  : recv#1 ; acc#1 ; recv#2 (two-frame delivery) ; acc#2 ; (wait until tx has detached) ; close_r
//! ```
//!
//! The programme goes on after an error (the later calls are the "issued afterwards" of the property).
//! The peer is a reactive state machine (answers header/open/begin/attach(+flow, credit 10), settles
//! every complete incoming delivery with `accepted` (`late=1`: the second one only after the third),
//! sends its two transfers once it has credit and has settled the client's third delivery (or has itself
//! detached the client's sender link), echoes detach/end/close, answers a re-attach, and shuts the pipe
//! down after the close). The byte streams of the undisturbed conversation (`cut ref`) are deterministic:
//! they are recorded first (503 bytes / 15 frames from the peer, 985 bytes from the client on the
//! snapshot this was written against) and give the offsets / frame indices that the cases range over.
//!
//! Case lines (`pipe` = capacity of each direction of the duplex, `late` see above; both optional,
//! defaults 65536 and 0)
//! * `cut ref pipe=<n> late=<0|1>`
//! * `cut dir=<p2c|c2p> at=<k> how=<eof|reset|stall> pipe=<n> late=<0|1>`
//!   p2c: as soon as the peer has written k bytes of its stream it stops writing and
//!   eof = shuts down its write half (it goes on consuming what the client writes),
//!   reset = the client's stream fails every read and write with `ConnectionReset` and the peer's end
//!   is dropped, stall = neither reads nor writes for 300 s, then eof.
//!   c2p: the peer consumes exactly k bytes of the client's stream (frames completely contained in
//!   them are answered as in the reference), never reads again and eof/reset/stall as above (eof: its
//!   write half is shut down, its read half stays open and unread until the case is over).
//! * `cut inject=<close|closee|end|ende|detach_s|detache_s|detach_r|detache_r> <before|after>=<j>
//!   then=<answer|silent> dc=<0|1> pipe=<n> late=<0|1>`: the peer plays the reference but writes that
//!   performative (`e`: with error `amqp:internal-error`, description "peer"; `dc`: the `closed` flag of an
//!   injected detach, default 1) immediately before it would write its j-th frame (`before`, j = 1 is the
//!   open) or right after having written its j-th frame (`after`; "one past the last" is `after=N`).
//!   Afterwards it answers what the protocol requires and nothing on the entity it has just terminated
//!   (`then=answer`) or says nothing more, keeps reading, and drops the pipe 120 s later (`then=silent`).
//!
//! Trace: `pw=<peer frames completely written before the failure> | cw=<client frames completely written
//! before the failure>[;<those written between the failure and the moment the silent peer dropped the pipe>]
//! | at:<task>=<step at the failure>,.. | conn:<call>=<result>,..,closed=<is_closed()> | sess:..,ended=<is_ended()>
//! | tx:.. | rx:.. | eng=<alive engine tasks (RuntimeMetrics::num_alive_tasks) when the application is done and
//! the peer still holds its end>/<after everything is dropped> valid=<0|1> pc=<peer close delivered> tfail=<ms>
//! len=<p2c>/<c2p>/<peer frames> panics=<n>`.
//! Tokens of `cw`: `T<d>[m]` transfer frame of delivery d (`m`: more), `T<d>p` / `+<n>`: a frame of which only
//! a prefix was written. A call token is `name[*|**]=ok|Err(Type::path)|PENDING[~]`: `*` issued strictly after
//! the failure (at a later virtual instant, i.e. after the library had been polled to quiescence), `**` issued
//! after the silent peer dropped the pipe, `~` completed after the silent peer dropped the pipe. The failure
//! instant is the cut (for `stall`: the final EOF) or the injected frame. Bound of a call: 600 s of virtual time
//! after max(failure, issue); a call pending at its bound is `PENDING`, its future is dropped and the programme
//! goes on (so later hangs remain visible).
//!
//! Direct oracle. Classes:
//! * `c14-hang-send-outcome` (known): a pending `send#k`/`out#k` whose transfer (at least the beginning of its
//!   first frame) was on the wire before the failure that concerns the handle;
//!   `c14-hang-engine-stuck`: a pending call in a case where the connection engine itself never stopped
//!   (`is_closed()` false / engine tasks alive while the peer still holds its end); `c14-hang`: any other.
//! * `c14-panic`; `c14-engine-alive`.
//! * `c14-data-op-ok-after-failure[-engine-stuck]`: a data-path call (begin, attach, send, outcome, recv, accept)
//!   marked `*` on an affected handle (or `**` on any handle) returned Ok, unless the frame that completes it had
//!   been delivered before the failure (`recv#k`: the k-th transfer complete in `pw`, `out#2`: `P1` in `pw`).
//! * `c14-wrong-scope`: an error of an affected handle does not name the level the case stopped (table).
//! * `c14-peer-error-lost-during-shutdown`: slow-shutdown cases (`shut=<ms>`): a `Session::begin` issued while the engine is
//!   closing the transport does not report the peer's error although the connection handle does.
//! * `c14-peer-error-lost`: `e` injection and no result of the affected handles contains `InternalError`
//!   (`-hung-call`: the call in progress on an affected handle never returned, `-after-pipe-drop`: `then=silent`
//!   and the affected handles were only touched after the pipe had been dropped).
//! * `c14-handle-silent`: `ConnectionHandle::close()` returned Ok although the peer's close never arrived.
//!
//! Expected scope of an error = the level that the case stopped:
//!
//! | case                              | handles            | expected | accepted Debug paths (markers)                                   |
//! |-----------------------------------|--------------------|----------|------------------------------------------------------------------|
//! | transport cut, peer close/closee  | all                | conn     | `ConnectionStopped(`, `TransportError(`, `Io(`, and on the       |
//! |                                   |                    |          | connection handle `OpenError::RemoteClosed[WithError]`,          |
//! |                                   |                    |          | `connection::Error::RemoteClosed[WithError]`                     |
//! | peer end/ende                     | sess, tx, rx       | session  | `SessionStopped(` without `ConnectionStopped(`; `RemoteEnded`    |
//! |                                   |                    |          | (`session::Error::RemoteEnded[WithError]`)                       |
//! | peer detach_s / detach_r          | tx / rx            | link     | `RemoteDetached`, `RemoteClosed`, `ClosedByRemote`,              |
//! |                                   |                    |          | `DetachedByRemote` (`..WithError` included)                      |
//! | `then=silent`, result marked `~`  | all                | + conn   | as conn (the pipe was dropped before the call completed)         |
//! | injected where the performative   | —                  | none     | only hang / panic / engine checks (that is C15's ground);        |
//! | is a protocol error (`valid=0`)   |                    |          | e.g. close before open, end before begin, detach before attach   |
//!
//! Handles that the case does not affect (e.g. `rx` after `detach_s`, `then=answer`) are expected to complete
//! the reference programme: an error there is reported as `c14-wrong-scope` with an empty expected set.
#![allow(unexpected_cfgs)]
use crate::c12::{peer_begin, peer_open};
use crate::eng::{barrier, frame_bytes, paused_rt, Parser, Wire, AMQP_HEADER};
use crate::out::Outputs;
use crate::rng::Rng;
use fe2o3_amqp::link::receiver::CreditMode;
use fe2o3_amqp::session::SessionHandle;
use fe2o3_amqp::types::definitions::{self, AmqpError, Role};
use fe2o3_amqp::types::messaging::message::__private::Serializable;
use fe2o3_amqp::types::messaging::{Accepted, Body, DeliveryState, Message, Outcome};
use fe2o3_amqp::types::performatives::{Attach, Close, Detach, Disposition, End, Flow, Performative, Transfer};
use fe2o3_amqp::types::primitives::Value;
use fe2o3_amqp::{Connection, Receiver, Sender, Session};
use serde_amqp::primitives::Binary;
use std::future::Future;
use std::pin::Pin;
use std::sync::{Arc, Mutex};
use std::task::{Context, Poll};
use std::time::Duration;
use tokio::io::{AsyncRead, AsyncReadExt, AsyncWrite, AsyncWriteExt, DuplexStream, ReadBuf};
use tokio::sync::oneshot;
use tokio::time::Instant;

/// bound of one call, virtual ms after max(failure, issue)
const BOUND: u64 = 600_000;
const STALL_MS: u64 = 300_000;
const SILENT_MS: u64 = 120_000;
const DEFAULT_PIPE: usize = 65536;
const MAX_FRAME: u32 = 512;

/* ------------------------------------------------------------------------------------- */
/* case                                                                                   */
/* ------------------------------------------------------------------------------------- */

#[derive(Clone, Copy, Debug, PartialEq, Eq)]
pub enum How {
    Eof,
    Reset,
    Stall,
}
#[derive(Clone, Copy, Debug, PartialEq, Eq)]
pub enum Inj {
    Close,
    End,
    DetS,
    DetR,
}
#[derive(Clone, Copy, Debug, PartialEq, Eq)]
pub enum Pos {
    Before(usize),
    After(usize),
}
#[derive(Clone, Copy, Debug, PartialEq, Eq)]
pub enum Kind {
    Ref,
    Cut { p2c: bool, at: usize, how: How },
    Inject { what: Inj, err: bool, closed: bool, pos: Pos, silent: bool },
}
#[derive(Clone, Copy, Debug, PartialEq, Eq)]
pub struct Case {
    pub kind: Kind,
    pub pipe: usize,
    /// the peer settles the client's second delivery only after the third one
    pub late: bool,
    /// virtual milliseconds the client's stream takes to shut down (poll_shutdown stays pending that long)
    pub shut: u64,
}

fn kv<'a>(w: &[&'a str], k: &str) -> Option<&'a str> {
    w.iter().find_map(|x| x.strip_prefix(k).and_then(|v| v.strip_prefix('=')))
}

pub fn parse_case(line: &str) -> Option<Case> {
    let rest = line.trim().strip_prefix("cut")?.trim();
    let w: Vec<&str> = rest.split_whitespace().collect();
    let pipe = kv(&w, "pipe").map(|v| v.parse().ok()).unwrap_or(Some(DEFAULT_PIPE))?;
    let late = kv(&w, "late").unwrap_or("0") == "1";
    let shut: u64 = kv(&w, "shut").and_then(|v| v.parse().ok()).unwrap_or(0);
    if w.first() == Some(&"ref") {
        return Some(Case { kind: Kind::Ref, pipe, late, shut });
    }
    if let Some(d) = kv(&w, "dir") {
        let p2c = match d {
            "p2c" => true,
            "c2p" => false,
            _ => return None,
        };
        let at = kv(&w, "at")?.parse().ok()?;
        let how = match kv(&w, "how")? {
            "eof" => How::Eof,
            "reset" => How::Reset,
            "stall" => How::Stall,
            _ => return None,
        };
        return Some(Case { kind: Kind::Cut { p2c, at, how }, pipe, late, shut });
    }
    let i = kv(&w, "inject")?;
    let (what, err) = match i {
        "close" => (Inj::Close, false),
        "closee" => (Inj::Close, true),
        "end" => (Inj::End, false),
        "ende" => (Inj::End, true),
        "detach_s" => (Inj::DetS, false),
        "detache_s" => (Inj::DetS, true),
        "detach_r" => (Inj::DetR, false),
        "detache_r" => (Inj::DetR, true),
        _ => return None,
    };
    let pos = if let Some(j) = kv(&w, "before") {
        Pos::Before(j.parse().ok()?)
    } else {
        Pos::After(kv(&w, "after")?.parse().ok()?)
    };
    let silent = match kv(&w, "then").unwrap_or("answer") {
        "answer" => false,
        "silent" => true,
        _ => return None,
    };
    let closed = kv(&w, "dc").unwrap_or("1") == "1";
    Some(Case { kind: Kind::Inject { what, err, closed, pos, silent }, pipe, late, shut })
}

pub fn case_line(c: &Case) -> String {
    let base = case_line_base(c);
    if c.shut > 0 {
        format!("{} shut={}", base, c.shut)
    } else {
        base
    }
}

fn case_line_base(c: &Case) -> String {
    match c.kind {
        Kind::Ref => format!("cut ref pipe={} late={}", c.pipe, c.late as u8),
        Kind::Cut { p2c, at, how } => format!(
            "cut dir={} at={} how={} pipe={} late={}",
            if p2c { "p2c" } else { "c2p" },
            at,
            match how {
                How::Eof => "eof",
                How::Reset => "reset",
                How::Stall => "stall",
            },
            c.pipe,
            c.late as u8
        ),
        Kind::Inject { what, err, closed, pos, silent } => format!(
            "cut inject={} {} then={} dc={} pipe={} late={}",
            match (what, err) {
                (Inj::Close, false) => "close",
                (Inj::Close, true) => "closee",
                (Inj::End, false) => "end",
                (Inj::End, true) => "ende",
                (Inj::DetS, false) => "detach_s",
                (Inj::DetS, true) => "detache_s",
                (Inj::DetR, false) => "detach_r",
                (Inj::DetR, true) => "detache_r",
            },
            match pos {
                Pos::Before(j) => format!("before={}", j),
                Pos::After(j) => format!("after={}", j),
            },
            if silent { "silent" } else { "answer" },
            closed as u8,
            c.pipe,
            c.late as u8
        ),
    }
}

/* ------------------------------------------------------------------------------------- */
/* panic bookkeeping (a panic inside a task the library spawned never reaches a JoinHandle */
/* of the harness): everything of a case runs on the calling thread                        */
/* ------------------------------------------------------------------------------------- */

thread_local! {
    static PANICS: std::cell::Cell<u64> = const { std::cell::Cell::new(0) };
    static PANIC_LOC: std::cell::RefCell<String> = const { std::cell::RefCell::new(String::new()) };
}

fn install_hook() {
    static ONCE: std::sync::Once = std::sync::Once::new();
    ONCE.call_once(|| {
        std::panic::set_hook(Box::new(|info| {
            let loc = info.location().map(|l| format!("{}:{}", l.file().rsplit('/').next().unwrap_or("?"), l.line())).unwrap_or_default();
            PANICS.with(|p| p.set(p.get() + 1));
            PANIC_LOC.with(|p| {
                if p.borrow().is_empty() {
                    *p.borrow_mut() = loc;
                }
            });
        }));
    });
}

/* ------------------------------------------------------------------------------------- */
/* the client's stream: a duplex end that logs what the client writes and can be "reset"  */
/* ------------------------------------------------------------------------------------- */

#[derive(Default, Debug)]
struct IoShared {
    reset: bool,
    written: Vec<u8>,
    /// bytes of the peer's stream that the client has read
    read: usize,
}

#[derive(Debug)]
struct ClientIo {
    inner: DuplexStream,
    sh: Arc<Mutex<IoShared>>,
    /// a shutdown of the stream takes this long (virtual time): AsyncWrite::poll_shutdown may stay pending
    shut_ms: u64,
    shut_sleep: Option<Pin<Box<tokio::time::Sleep>>>,
}

fn reset_err() -> std::io::Error {
    std::io::Error::from(std::io::ErrorKind::ConnectionReset)
}

impl AsyncRead for ClientIo {
    fn poll_read(mut self: Pin<&mut Self>, cx: &mut Context<'_>, buf: &mut ReadBuf<'_>) -> Poll<std::io::Result<()>> {
        if self.sh.lock().unwrap().reset {
            return Poll::Ready(Err(reset_err()));
        }
        let before = buf.filled().len();
        let r = Pin::new(&mut self.inner).poll_read(cx, buf);
        if let Poll::Ready(Ok(())) = &r {
            self.sh.lock().unwrap().read += buf.filled().len() - before;
        }
        r
    }
}

impl AsyncWrite for ClientIo {
    fn poll_write(mut self: Pin<&mut Self>, cx: &mut Context<'_>, buf: &[u8]) -> Poll<std::io::Result<usize>> {
        if self.sh.lock().unwrap().reset {
            return Poll::Ready(Err(reset_err()));
        }
        let r = Pin::new(&mut self.inner).poll_write(cx, buf);
        if let Poll::Ready(Ok(n)) = &r {
            self.sh.lock().unwrap().written.extend_from_slice(&buf[..*n]);
        }
        r
    }
    fn poll_flush(mut self: Pin<&mut Self>, cx: &mut Context<'_>) -> Poll<std::io::Result<()>> {
        if self.sh.lock().unwrap().reset {
            return Poll::Ready(Err(reset_err()));
        }
        Pin::new(&mut self.inner).poll_flush(cx)
    }
    fn poll_shutdown(mut self: Pin<&mut Self>, cx: &mut Context<'_>) -> Poll<std::io::Result<()>> {
        if self.shut_ms > 0 {
            if self.shut_sleep.is_none() {
                let d = std::time::Duration::from_millis(self.shut_ms);
                self.shut_sleep = Some(Box::pin(tokio::time::sleep(d)));
            }
            if let Some(sl) = self.shut_sleep.as_mut() {
                if sl.as_mut().poll(cx).is_pending() {
                    return Poll::Pending;
                }
            }
            self.shut_ms = 0;
        }
        Pin::new(&mut self.inner).poll_shutdown(cx)
    }
}

/* ------------------------------------------------------------------------------------- */
/* observation shared by the application tasks and the peer                               */
/* ------------------------------------------------------------------------------------- */

const CONN: usize = 0;
const SESS: usize = 1;
const TX: usize = 2;
const RX: usize = 3;
const TASKS: [&str; 4] = ["conn", "sess", "tx", "rx"];

struct ObInner {
    t0: Instant,
    t_fail: Option<u64>,
    t_fail2: Option<u64>,
    step: [String; 4],
    at_fail: Option<[String; 4]>,
    res: [Vec<String>; 4],
    /// tokens of the frames the peer has completely written
    pw: Vec<String>,
    /// offset in the peer's stream at which each of them ends
    pw_end: Vec<usize>,
    pw_at_fail: usize,
    cw_len_at_fail: usize,
    cw_len_at_fail2: usize,
    valid: bool,
    p2c_len: usize,
    nat_frames: usize,
}

#[derive(Clone)]
struct Ob {
    i: Arc<Mutex<ObInner>>,
    io: Arc<Mutex<IoShared>>,
}

impl Ob {
    fn now(&self) -> u64 {
        let t0 = self.i.lock().unwrap().t0;
        Instant::now().saturating_duration_since(t0).as_millis() as u64
    }
    fn set_step(&self, task: usize, s: &str) {
        self.i.lock().unwrap().step[task] = s.to_string();
    }
    fn push(&self, task: usize, s: String) {
        self.i.lock().unwrap().res[task].push(s);
    }
    /// the silent peer drops the pipe now
    fn fail2_now(&self) {
        let now = self.now();
        let cw = self.io.lock().unwrap().written.len();
        let mut g = self.i.lock().unwrap();
        g.t_fail2 = Some(now);
        g.cw_len_at_fail2 = cw;
    }
    /// the failure happens now
    fn fail_now(&self) {
        let now = self.now();
        let cw = self.io.lock().unwrap().written.len();
        let mut g = self.i.lock().unwrap();
        if g.t_fail.is_none() {
            g.t_fail = Some(now);
            g.at_fail = Some(g.step.clone());
            g.pw_at_fail = g.pw.len();
            g.cw_len_at_fail = cw;
        }
    }
}

fn type_prefix<E>() -> String {
    let n = std::any::type_name::<E>();
    let n = n.split('<').next().unwrap_or(n);
    let segs: Vec<&str> = n.split("::").collect();
    let last = segs.last().copied().unwrap_or("?");
    if last == "Error" && segs.len() >= 3 {
        format!("{}::Error", segs[1])
    } else {
        last.to_string()
    }
}

/// `Debug` output of an error reduced to its variant path: string literals dropped,
/// `Error { condition: X, .. }` -> innermost identifier of X, io errors -> their kind
pub fn compact(dbg: &str) -> String {
    // 1. drop string literals
    let mut s = String::new();
    let mut it = dbg.chars().peekable();
    while let Some(c) = it.next() {
        if c == '"' {
            while let Some(d) = it.next() {
                if d == '\\' {
                    it.next();
                } else if d == '"' {
                    break;
                }
            }
            s.push('_');
        } else {
            s.push(c);
        }
    }
    // 2. structs
    loop {
        let Some(open) = s.find(" { ") else { break };
        // name of the struct: identifier before " { "
        let name_start = s[..open].rfind(|c: char| !(c.is_alphanumeric() || c == '_')).map(|i| i + 1).unwrap_or(0);
        let name = s[name_start..open].to_string();
        // matching close
        let bytes = s.as_bytes();
        let mut depth = 0i32;
        let mut close = None;
        for (i, b) in bytes.iter().enumerate().skip(open + 1) {
            match b {
                b'{' => depth += 1,
                b'}' => {
                    depth -= 1;
                    if depth == 0 {
                        close = Some(i);
                        break;
                    }
                }
                _ => {}
            }
        }
        let Some(close) = close else { break };
        let body = s[open + 3..close].to_string();
        let field = |f: &str| -> Option<String> {
            let k = format!("{}: ", f);
            let st = body.find(&k)? + k.len();
            // up to the next top-level comma
            let mut d = 0i32;
            let mut end = body.len();
            for (i, c) in body[st..].char_indices() {
                match c {
                    '(' | '{' | '[' => d += 1,
                    ')' | '}' | ']' => d -= 1,
                    ',' if d == 0 => {
                        end = st + i;
                        break;
                    }
                    _ => {}
                }
            }
            Some(body[st..end].trim().to_string())
        };
        let innermost = |x: &str| -> String {
            x.trim_end_matches(')').rsplit('(').next().unwrap_or(x).trim().to_string()
        };
        let repl = if let Some(c) = field("condition") {
            innermost(&c)
        } else if let Some(k) = field("kind") {
            innermost(&k)
        } else {
            format!("{}{{}}", name)
        };
        s.replace_range(name_start..=close, &repl);
    }
    s = s.replace("Kind(", "(").replace("((", "(").replace("))", ")");
    // `Io((X)` artefacts of the replacement above are avoided by balancing
    let opens = s.matches('(').count();
    let closes = s.matches(')').count();
    for _ in closes..opens {
        s.push(')');
    }
    s.retain(|c| c != ' ' && c != '\n');
    s
}

fn mark_of(issue: u64, g: &ObInner) -> &'static str {
    match (g.t_fail, g.t_fail2) {
        (_, Some(t2)) if issue > t2 => "**",
        (Some(t), _) if issue > t => "*",
        _ => "",
    }
}

/// One API call of the application: paced, bounded, recorded
async fn call<T, E, F>(ob: &Ob, task: usize, name: &str, okf: impl Fn(&T) -> String, fut: F) -> Option<Result<T, E>>
where
    E: std::fmt::Debug,
    F: Future<Output = Result<T, E>>,
{
    barrier().await;
    let issue = ob.now();
    let mark = {
        let mut g = ob.i.lock().unwrap();
        g.step[task] = name.to_string();
        mark_of(issue, &g)
    };
    tokio::pin!(fut);
    let res = loop {
        let tf = ob.i.lock().unwrap().t_fail;
        let now = ob.now();
        let dl = match tf {
            Some(tf) => tf.max(issue) + BOUND,
            None => issue + 4 * BOUND,
        };
        if now >= dl {
            break None;
        }
        let wake = match tf {
            Some(_) => dl,
            None => (now + BOUND).min(dl),
        };
        tokio::select! {
            biased;
            r = &mut fut => break Some(r),
            _ = tokio::time::sleep(Duration::from_millis(wake - now)) => {}
        }
    };
    let done = ob.now();
    let late = {
        let g = ob.i.lock().unwrap();
        matches!(g.t_fail2, Some(t2) if done >= t2)
    };
    let r = match &res {
        Some(Ok(t)) => okf(t),
        Some(Err(e)) => {
            if std::env::var_os("CUT_RAW").is_some() {
                eprintln!("RAW {} {}: {:?}", TASKS[task], name, e);
            }
            format!("Err({}::{})", type_prefix::<E>(), compact(&format!("{:?}", e)))
        }
        None => "PENDING".to_string(),
    };
    ob.push(task, format!("{}{}={}{}", name, mark, r, if late { "~" } else { "" }));
    res
}

fn ok<T>(_: &T) -> String {
    "ok".to_string()
}

/* ------------------------------------------------------------------------------------- */
/* the application                                                                        */
/* ------------------------------------------------------------------------------------- */

async fn conn_task(ob: Ob, io: ClientIo, to_sess: oneshot::Sender<Option<SessionHandle<()>>>, sess_done: oneshot::Receiver<()>) {
    let slow_shutdown = io.shut_ms > 0;
    let r = call(&ob, CONN, "open", ok, Connection::builder().container_id("c").max_frame_size(MAX_FRAME).open_with_stream(io)).await;
    let mut conn = match r {
        Some(Ok(c)) => c,
        _ => {
            ob.set_step(CONN, "done");
            return;
        }
    };
    let s = call(&ob, CONN, "begin", ok, Session::builder().begin(&mut conn)).await;
    let _ = to_sess.send(s.and_then(|r| r.ok()));
    ob.set_step(CONN, "idle");
    let _ = sess_done.await;
    if slow_shutdown {
        // only in the cases whose stream takes a while to shut down: a session begun while the engine is still closing
        // the transport must fail for the reason the connection stopped
        let _ = call(&ob, CONN, "begin2", |_: &SessionHandle<()>| "ok".to_string(), Session::builder().begin(&mut conn)).await;
    }
    let _ = call(&ob, CONN, "close", ok, conn.close()).await;
    ob.push(CONN, format!("closed={}", conn.is_closed() as u8));
    ob.set_step(CONN, "done");
    drop(conn);
}

#[allow(clippy::too_many_arguments)]
async fn sess_task(
    ob: Ob,
    from_conn: oneshot::Receiver<Option<SessionHandle<()>>>,
    to_tx: oneshot::Sender<Option<Sender>>,
    to_rx: oneshot::Sender<Option<Receiver>>,
    tx_done: oneshot::Receiver<()>,
    rx_done: oneshot::Receiver<()>,
    done: oneshot::Sender<()>,
) {
    ob.set_step(SESS, "idle");
    let Some(mut sess) = from_conn.await.ok().flatten() else {
        ob.set_step(SESS, "done");
        return;
    };
    let s = call(&ob, SESS, "attach_s", ok, Sender::builder().name("s").target("q").attach(&mut sess)).await;
    let r = call(
        &ob,
        SESS,
        "attach_r",
        ok,
        Receiver::builder().name("r").source("q").credit_mode(CreditMode::Auto(10)).auto_accept(false).attach(&mut sess),
    )
    .await;
    let _ = to_tx.send(s.and_then(|r| r.ok()));
    let _ = to_rx.send(r.and_then(|r| r.ok()));
    ob.set_step(SESS, "idle");
    let _ = tx_done.await;
    let _ = rx_done.await;
    let _ = call(&ob, SESS, "end", ok, sess.end()).await;
    ob.push(SESS, format!("ended={}", sess.is_ended() as u8));
    ob.set_step(SESS, "done");
    drop(sess);
    let _ = done.send(());
}

fn outcome_str(o: &Outcome) -> String {
    match o {
        Outcome::Accepted(_) => "ok".into(),
        other => format!("ok({})", compact(&format!("{:?}", other))),
    }
}

async fn tx_task(ob: Ob, from_sess: oneshot::Receiver<Option<Sender>>, rx_received: oneshot::Receiver<()>, detached: oneshot::Sender<()>, done: oneshot::Sender<()>) {
    ob.set_step(TX, "idle");
    let Some(mut snd) = from_sess.await.ok().flatten() else {
        ob.set_step(TX, "done");
        return;
    };
    let _ = call(&ob, TX, "send#1", outcome_str, snd.send("m1")).await;
    let fut = call(&ob, TX, "send#2", ok, snd.send_batchable("m2")).await.and_then(|r| r.ok());
    let _ = call(&ob, TX, "send#3", outcome_str, snd.send("x".repeat(600))).await;
    if let Some(f) = fut {
        let _ = call(&ob, TX, "out#2", outcome_str, f).await;
    }
    ob.set_step(TX, "idle");
    let _ = rx_received.await;
    let _ = call(&ob, TX, "detach_s", ok, async { snd.detach().await.map_err(|e| e.1) }).await;
    ob.set_step(TX, "done");
    let _ = detached.send(());
    let _ = done.send(());
}

async fn rx_task(ob: Ob, from_sess: oneshot::Receiver<Option<Receiver>>, received: oneshot::Sender<()>, tx_detached: oneshot::Receiver<()>, done: oneshot::Sender<()>) {
    ob.set_step(RX, "idle");
    let Some(mut rcv) = from_sess.await.ok().flatten() else {
        ob.set_step(RX, "done");
        return;
    };
    for k in 1..=2 {
        let d = call(&ob, RX, &format!("recv#{}", k), ok, rcv.recv::<Body<Value>>()).await.and_then(|r| r.ok());
        if let Some(d) = d {
            let _ = call(&ob, RX, &format!("acc#{}", k), ok, rcv.accept(&d)).await;
        }
    }
    ob.set_step(RX, "idle");
    let _ = received.send(());
    let _ = tx_detached.await;
    let _ = call(&ob, RX, "close_r", ok, rcv.close()).await;
    ob.set_step(RX, "done");
    let _ = done.send(());
}

/* ------------------------------------------------------------------------------------- */
/* the scripted peer                                                                      */
/* ------------------------------------------------------------------------------------- */

#[derive(Clone, Copy, PartialEq, Eq)]
enum Ent {
    Conn,
    Sess,
    LinkS,
    LinkR,
}

const PEER_H_S: u32 = 0;
const PEER_H_R: u32 = 1;

struct PeerSt {
    io: Option<DuplexStream>,
    parser: Parser,
    ob: Ob,
    case: Case,
    written: usize,
    consumed: usize,
    /// natural frames reached so far (written or suppressed)
    nat: usize,
    opened: bool,
    begun: bool,
    s_att: bool,
    r_att: bool,
    s_det: bool,
    r_det: bool,
    ended: bool,
    closed: bool,
    s_handle_c: Option<u32>,
    r_handle_c: Option<u32>,
    cur_in: Option<u32>,
    in_frames: u32,
    accepted: u32,
    credit: u32,
    sent_transfers: bool,
    injected: bool,
    silent: bool,
    cut_done: bool,
    close_at: Option<Instant>,
    want_transfers: bool,
    deferred: Option<u32>,
}

fn peer_error(err: bool) -> Option<definitions::Error> {
    if err {
        Some(definitions::Error::new(AmqpError::InternalError, Some("peer".into()), None))
    } else {
        None
    }
}

fn msg_payload(body: &str) -> Vec<u8> {
    serde_amqp::to_vec(&Serializable(Message::builder().value(body.to_string()).build())).unwrap()
}

impl PeerSt {
    fn is_cut(&self, want_p2c: bool) -> Option<(usize, How)> {
        match self.case.kind {
            Kind::Cut { p2c, at, how } if p2c == want_p2c => Some((at, how)),
            _ => None,
        }
    }

    async fn do_cut(&mut self, how: How) {
        self.cut_done = true;
        match how {
            How::Eof => {
                if let Some(io) = self.io.as_mut() {
                    let _ = io.shutdown().await;
                }
                self.ob.fail_now();
            }
            How::Reset => {
                self.ob.io.lock().unwrap().reset = true;
                self.io = None;
                self.ob.fail_now();
            }
            How::Stall => {
                tokio::time::sleep(Duration::from_millis(STALL_MS)).await;
                if let Some(io) = self.io.as_mut() {
                    let _ = io.shutdown().await;
                }
                self.ob.fail_now();
            }
        }
    }

    /// write (a prefix of) `bytes`; `tok`: token recorded when the whole of it went out
    async fn write_bytes(&mut self, tok: &str, bytes: &[u8]) {
        if self.cut_done || self.io.is_none() {
            return;
        }
        let mut n = bytes.len();
        if let Some((at, _)) = self.is_cut(true) {
            n = n.min(at.saturating_sub(self.written));
        }
        if n > 0 {
            let ok = self.io.as_mut().unwrap().write_all(&bytes[..n]).await.is_ok();
            if !ok {
                return;
            }
            self.written += n;
        }
        if n == bytes.len() {
            let mut g = self.ob.i.lock().unwrap();
            g.pw.push(tok.to_string());
            g.pw_end.push(self.written);
            g.p2c_len = self.written;
        }
        if let Some((at, how)) = self.is_cut(true) {
            if self.written >= at {
                self.do_cut(how).await;
            }
        }
    }

    fn suppressed(&self, ent: Ent) -> bool {
        if self.silent || self.closed || self.cut_done {
            return true;
        }
        match ent {
            Ent::Conn => false,
            Ent::Sess => self.ended,
            Ent::LinkS => self.ended || self.s_det,
            Ent::LinkR => self.ended || self.r_det,
        }
    }

    /// a frame of the reference behaviour
    async fn emit(&mut self, ent: Ent, tok: &str, perf: Performative, payload: &[u8]) {
        self.nat += 1;
        self.ob.i.lock().unwrap().nat_frames = self.nat;
        if let Kind::Inject { pos: Pos::Before(j), .. } = self.case.kind {
            if j == self.nat && !self.injected {
                self.inject().await;
            }
        }
        if !self.suppressed(ent) {
            let b = frame_bytes(0, &perf, payload);
            self.write_bytes(tok, &b).await;
            match &perf {
                Performative::Open(_) => self.opened = true,
                Performative::Begin(_) => self.begun = true,
                Performative::Attach(_) if ent == Ent::LinkS => self.s_att = true,
                Performative::Attach(_) if ent == Ent::LinkR => self.r_att = true,
                Performative::Detach(_) if ent == Ent::LinkS => self.s_det = true,
                Performative::Detach(_) if ent == Ent::LinkR => self.r_det = true,
                Performative::End(_) => self.ended = true,
                Performative::Close(_) => self.closed = true,
                _ => {}
            }
        }
        if let Kind::Inject { pos: Pos::After(j), .. } = self.case.kind {
            if j == self.nat && !self.injected {
                self.inject().await;
            }
        }
    }

    async fn inject(&mut self) {
        let Kind::Inject { what, err, closed, silent, .. } = self.case.kind else { return };
        self.injected = true;
        if self.cut_done || self.io.is_none() {
            return;
        }
        let alive = self.opened && !self.closed;
        let (valid, tok, perf) = match what {
            Inj::Close => (alive, "!C", Performative::Close(Close { error: peer_error(err) })),
            Inj::End => (alive && self.begun && !self.ended, "!E", Performative::End(End { error: peer_error(err) })),
            Inj::DetS => (
                alive && self.begun && !self.ended && self.s_att && !self.s_det,
                "!Ds",
                Performative::Detach(Detach { handle: PEER_H_S.into(), closed, error: peer_error(err) }),
            ),
            Inj::DetR => (
                alive && self.begun && !self.ended && self.r_att && !self.r_det,
                "!Dr",
                Performative::Detach(Detach { handle: PEER_H_R.into(), closed, error: peer_error(err) }),
            ),
        };
        self.ob.i.lock().unwrap().valid = valid;
        let tok = format!("{}{}", tok, if err { "e" } else { "" });
        let b = frame_bytes(0, &perf, &[]);
        self.write_bytes(&tok, &b).await;
        match what {
            Inj::Close => self.closed = true,
            Inj::End => self.ended = true,
            Inj::DetS => self.s_det = true,
            Inj::DetR => self.r_det = true,
        }
        self.ob.fail_now();
        if silent {
            self.silent = true;
            self.close_at = Some(Instant::now() + Duration::from_millis(SILENT_MS));
        }
        self.want_transfers = true;
    }

    async fn try_transfers(&mut self) {
        // the transfers go out once the client's third delivery is settled (or its sender link is gone)
        if self.sent_transfers || (self.accepted < 3 && !self.s_det) || self.credit < 2 || !self.r_att {
            return;
        }
        self.sent_transfers = true;
        let tr = |id: u32, first: bool, more: bool| {
            Performative::Transfer(Transfer {
                handle: PEER_H_R.into(),
                delivery_id: if first { Some(id) } else { None },
                delivery_tag: if first { Some(Binary::from(vec![id as u8])) } else { None },
                message_format: if first { Some(0) } else { None },
                settled: if first { Some(false) } else { None },
                more,
                rcv_settle_mode: None,
                state: None,
                resume: false,
                aborted: false,
                batchable: false,
            })
        };
        let p0 = msg_payload("p1");
        self.emit(Ent::LinkR, "t0", tr(0, true, false), &p0).await;
        let p1 = msg_payload(&"y".repeat(150));
        let (a, b) = p1.split_at(p1.len() / 2);
        self.emit(Ent::LinkR, "t1m", tr(1, true, true), a).await;
        self.emit(Ent::LinkR, "t1", tr(1, false, false), b).await;
    }

    async fn on_wire(&mut self, w: Wire) {
        match w {
            Wire::Header(_) => {
                // the protocol header is not a frame: no index
                if !self.suppressed(Ent::Conn) {
                    self.write_bytes("H", &AMQP_HEADER).await;
                }
            }
            Wire::Frame { channel, perf, payload: _ } => match perf {
                Performative::Open(_) => self.emit(Ent::Conn, "O", peer_open(None, 10, MAX_FRAME), &[]).await,
                Performative::Begin(_) => self.emit(Ent::Sess, "B", peer_begin(Some(channel)), &[]).await,
                Performative::Attach(a) => {
                    let client_is_sender = matches!(a.role, Role::Sender);
                    let mut p: Attach = a.clone();
                    p.unsettled = None;
                    if client_is_sender {
                        self.s_handle_c = Some(a.handle.0);
                        self.s_det = false;
                        p.handle = PEER_H_S.into();
                        p.role = Role::Receiver;
                        p.initial_delivery_count = None;
                        self.emit(Ent::LinkS, "As", Performative::Attach(p), &[]).await;
                        let f = Flow {
                            next_incoming_id: Some(self.in_frames),
                            incoming_window: 100,
                            next_outgoing_id: 0,
                            outgoing_window: 100,
                            handle: Some(PEER_H_S.into()),
                            delivery_count: Some(a.initial_delivery_count.unwrap_or(0)),
                            link_credit: Some(10),
                            available: None,
                            drain: false,
                            echo: false,
                            properties: None,
                        };
                        self.emit(Ent::LinkS, "Fs", Performative::Flow(f), &[]).await;
                    } else {
                        self.r_handle_c = Some(a.handle.0);
                        self.r_det = false;
                        p.handle = PEER_H_R.into();
                        p.role = Role::Sender;
                        p.initial_delivery_count = Some(0);
                        self.emit(Ent::LinkR, "Ar", Performative::Attach(p), &[]).await;
                    }
                }
                Performative::Flow(f) => {
                    if let (Some(h), Some(c)) = (f.handle.as_ref(), f.link_credit) {
                        if Some(h.0) == self.r_handle_c {
                            self.credit = c;
                            self.try_transfers().await;
                        }
                    }
                }
                Performative::Transfer(t) => {
                    self.in_frames += 1;
                    if let Some(d) = t.delivery_id {
                        self.cur_in = Some(d);
                    }
                    if !t.more {
                        let id = self.cur_in.take().unwrap_or(0);
                        let disp = |id: u32| {
                            Performative::Disposition(Disposition {
                                role: Role::Receiver,
                                first: id,
                                last: None,
                                settled: true,
                                state: Some(DeliveryState::Accepted(Accepted {})),
                                batchable: false,
                            })
                        };
                        if self.case.late && id == 1 {
                            self.deferred = Some(id);
                            // meanwhile the delivery is only acknowledged as received (non-terminal, not settled): its
                            // outcome is still to come - and must fail like any other when something stops
                            let rcvd = Performative::Disposition(Disposition {
                                role: Role::Receiver,
                                first: id,
                                last: None,
                                settled: false,
                                state: Some(DeliveryState::Received(fe2o3_amqp::types::messaging::Received { section_number: 0, section_offset: 0 })),
                                batchable: false,
                            });
                            let b = frame_bytes(0, &rcvd, &[]);
                            self.write_bytes("R1", &b).await;
                        } else {
                            self.accepted += 1;
                            self.emit(Ent::LinkS, &format!("P{}", id), disp(id), &[]).await;
                            if let Some(d) = self.deferred.take() {
                                self.accepted += 1;
                                self.emit(Ent::LinkS, &format!("P{}", d), disp(d), &[]).await;
                            }
                        }
                        self.try_transfers().await;
                    }
                }
                Performative::Disposition(_) => {}
                Performative::Detach(d) => {
                    // the client's handle is free again once it has detached (a re-attach may reuse the number)
                    let (ent, tok, h) = if Some(d.handle.0) == self.s_handle_c {
                        self.s_handle_c = None;
                        (Ent::LinkS, "Ds", PEER_H_S)
                    } else if Some(d.handle.0) == self.r_handle_c {
                        self.r_handle_c = None;
                        (Ent::LinkR, "Dr", PEER_H_R)
                    } else {
                        return;
                    };
                    let det = Detach { handle: h.into(), closed: d.closed, error: None };
                    self.emit(ent, tok, Performative::Detach(det), &[]).await;
                }
                Performative::End(_) => self.emit(Ent::Sess, "E", Performative::End(End { error: None }), &[]).await,
                Performative::Close(_) => {
                    let injected_close = self.closed;
                    self.emit(Ent::Conn, "C", Performative::Close(Close { error: None }), &[]).await;
                    if !self.silent && !self.cut_done && (self.closed || injected_close) {
                        if let Some(io) = self.io.as_mut() {
                            let _ = io.shutdown().await;
                        }
                    }
                }
            },
            _ => {}
        }
    }

    async fn run(mut self) {
        for p2c in [true, false] {
            if let Some((0, how)) = self.is_cut(p2c) {
                self.do_cut(how).await;
            }
        }
        let mut buf = vec![0u8; 4096];
        loop {
            let c2p_cut = self.is_cut(false);
            if self.io.is_none() || (c2p_cut.is_some() && self.cut_done) {
                // hold whatever is left of the pipe until the case is over
                std::future::pending::<()>().await;
            }
            let limit = match c2p_cut {
                Some((at, _)) => (at - self.consumed).min(buf.len()),
                None => buf.len(),
            };
            let close_at = self.close_at;
            let io = self.io.as_mut().unwrap();
            let r = tokio::select! {
                biased;
                _ = async { tokio::time::sleep_until(close_at.unwrap()).await }, if close_at.is_some() => None,
                r = io.read(&mut buf[..limit]) => Some(r),
            };
            match r {
                None => {
                    // the silent peer drops the pipe
                    self.io = None;
                    self.ob.fail2_now();
                    self.close_at = None;
                }
                Some(Ok(0)) | Some(Err(_)) => {
                    // the client has shut its side down / the pipe is gone
                    if self.close_at.is_some() {
                        tokio::time::sleep_until(self.close_at.unwrap()).await;
                        self.io = None;
                        self.ob.fail2_now();
                        self.close_at = None;
                    }
                    std::future::pending::<()>().await;
                }
                Some(Ok(n)) => {
                    self.consumed += n;
                    let ws = self.parser.feed(&buf[..n]);
                    for w in ws {
                        self.on_wire(w).await;
                        if self.want_transfers {
                            // the client's sender link has just been detached by the peer: no delivery will come any more
                            self.want_transfers = false;
                            self.try_transfers().await;
                        }
                    }
                    if let Some((at, how)) = c2p_cut {
                        if self.consumed >= at && !self.cut_done {
                            self.do_cut(how).await;
                        }
                    }
                }
            }
        }
    }
}

/* ------------------------------------------------------------------------------------- */
/* one case                                                                               */
/* ------------------------------------------------------------------------------------- */

/// delivery-id of a transfer frame of which only a prefix is there (None: not a transfer / too short)
fn partial_transfer(fr: &[u8]) -> Option<Option<u32>> {
    if fr.len() < 11 || fr[5] != 0 || fr[8..11] != [0x00, 0x53, 0x14] {
        return None;
    }
    let mut i = match fr.get(11)? {
        0xc0 => 14,
        0xd0 => 20,
        _ => return Some(None),
    };
    let uint = |i: &mut usize| -> Option<u32> {
        let v = match *fr.get(*i)? {
            0x43 => {
                *i += 1;
                0
            }
            0x52 => {
                let v = *fr.get(*i + 1)? as u32;
                *i += 2;
                v
            }
            0x70 => {
                let b = fr.get(*i + 1..*i + 5)?;
                *i += 5;
                u32::from_be_bytes([b[0], b[1], b[2], b[3]])
            }
            _ => return None,
        };
        Some(v)
    };
    let _handle = match uint(&mut i) {
        Some(h) => h,
        None => return Some(None),
    };
    Some(uint(&mut i))
}

fn client_tokens(bytes: &[u8]) -> Vec<String> {
    let mut out = client_tokens_complete(bytes);
    // a frame of which only a prefix has been written: `+<bytes>`, a transfer: `T<id>p`
    let mut off = 8.min(bytes.len());
    while off + 4 <= bytes.len() {
        let size = u32::from_be_bytes([bytes[off], bytes[off + 1], bytes[off + 2], bytes[off + 3]]) as usize;
        if size < 8 || off + size > bytes.len() {
            break;
        }
        off += size;
    }
    if bytes.len() >= 8 && off < bytes.len() {
        match partial_transfer(&bytes[off..]) {
            Some(Some(d)) => out.push(format!("T{}p", d)),
            Some(None) => out.push("T?p".to_string()),
            None => out.push(format!("+{}", bytes.len() - off)),
        }
    }
    out
}

fn client_tokens_complete(bytes: &[u8]) -> Vec<String> {
    let mut p = Parser::new();
    let mut cur: Option<u32> = None;
    let mut out = Vec::new();
    for w in p.feed(bytes) {
        out.push(match w {
            Wire::Header(_) => "H".to_string(),
            Wire::Empty { .. } => "Z".into(),
            Wire::Sasl(_) => "S".into(),
            Wire::Garbage(g) => format!("G{}", g.len()),
            Wire::Frame { perf, .. } => match perf {
                Performative::Open(_) => "O".into(),
                Performative::Begin(_) => "B".into(),
                Performative::Attach(a) => if matches!(a.role, Role::Sender) { "As".into() } else { "Ar".into() },
                Performative::Flow(f) => match (f.handle, f.link_credit) {
                    (Some(_), Some(c)) => format!("F{}", c),
                    _ => "F".into(),
                },
                Performative::Transfer(t) => {
                    if let Some(d) = t.delivery_id {
                        cur = Some(d);
                    }
                    format!("T{}{}", cur.map(|d| d.to_string()).unwrap_or("?".into()), if t.more { "m" } else { "" })
                }
                Performative::Disposition(d) => format!("P{}{}", d.first, if d.settled { "" } else { "u" }),
                Performative::Detach(d) => format!(
                    "D{}{}{}",
                    d.handle.0,
                    if d.closed { "c" } else { "" },
                    d.error.as_ref().map(|e| format!("e({})", crate::eng::cond(&e.condition))).unwrap_or_default()
                ),
                Performative::End(e) => format!("E{}", e.error.as_ref().map(|e| format!("e({})", crate::eng::cond(&e.condition))).unwrap_or_default()),
                Performative::Close(c) => format!("C{}", c.error.as_ref().map(|e| format!("e({})", crate::eng::cond(&e.condition))).unwrap_or_default()),
            },
        });
    }
    out
}

fn run_parsed(case: Case) -> String {
    run_parsed_full(case).0
}

/// (trace, tokens of ALL the frames the peer has written, including those after the failure, how many of them the
/// client has read completely: after a reset what was written last is lost)
fn run_parsed_full(mut case: Case) -> (String, Vec<String>, usize) {
    install_hook();
    // "one past the last frame": before=N+1 is after=N
    if let Kind::Inject { what, err, closed, pos: Pos::Before(j), silent } = case.kind {
        let nf = reference_dims(case.late).2;
        if j > nf {
            case.kind = Kind::Inject { what, err, closed, pos: Pos::After(nf), silent };
        }
    }
    PANICS.with(|p| p.set(0));
    PANIC_LOC.with(|p| p.borrow_mut().clear());
    let r = std::panic::catch_unwind(std::panic::AssertUnwindSafe(|| {
        let rt = paused_rt();
        let s = rt.block_on(run_async(case));
        drop(rt);
        s
    }));
    let panics = PANICS.with(|p| p.get());
    let loc = PANIC_LOC.with(|p| p.borrow().clone());
    match r {
        Ok((t, pw, rd)) => (format!("{} panics={}{}", t, panics, if panics > 0 { format!("@{}", loc) } else { String::new() }), pw, rd),
        Err(_) => (format!("HARNESS-PANIC panics={}@{}", panics, loc), Vec::new(), 0),
    }
}

async fn run_async(case: Case) -> (String, Vec<String>, usize) {
    let (a, b) = tokio::io::duplex(case.pipe);
    let ios = Arc::new(Mutex::new(IoShared::default()));
    let ob = Ob {
        i: Arc::new(Mutex::new(ObInner {
            t0: Instant::now(),
            t_fail: None,
            t_fail2: None,
            step: Default::default(),
            at_fail: None,
            res: Default::default(),
            pw: Vec::new(),
            pw_end: Vec::new(),
            pw_at_fail: 0,
            cw_len_at_fail: 0,
            cw_len_at_fail2: 0,
            valid: true,
            p2c_len: 0,
            nat_frames: 0,
        })),
        io: ios.clone(),
    };
    let cio = ClientIo { inner: a, sh: ios.clone(), shut_ms: case.shut, shut_sleep: None };
    let peer = PeerSt {
        io: Some(b),
        parser: Parser::new(),
        ob: ob.clone(),
        case,
        written: 0,
        consumed: 0,
        nat: 0,
        opened: false,
        begun: false,
        s_att: false,
        r_att: false,
        s_det: false,
        r_det: false,
        ended: false,
        closed: false,
        s_handle_c: None,
        r_handle_c: None,
        cur_in: None,
        in_frames: 0,
        accepted: 0,
        credit: 0,
        sent_transfers: false,
        injected: false,
        silent: false,
        cut_done: false,
        close_at: None,
        want_transfers: false,
        deferred: None,
    };
    let peer_task = tokio::spawn(peer.run());

    let (to_sess, from_conn) = oneshot::channel();
    let (sess_done_tx, sess_done_rx) = oneshot::channel();
    let (to_tx, tx_from_sess) = oneshot::channel();
    let (to_rx, rx_from_sess) = oneshot::channel();
    let (tx_done_tx, tx_done_rx) = oneshot::channel();
    let (rx_done_tx, rx_done_rx) = oneshot::channel();
    let (received_tx, received_rx) = oneshot::channel();
    let (detached_tx, detached_rx) = oneshot::channel();
    let tasks = vec![
        tokio::spawn(conn_task(ob.clone(), cio, to_sess, sess_done_rx)),
        tokio::spawn(sess_task(ob.clone(), from_conn, to_tx, to_rx, tx_done_rx, rx_done_rx, sess_done_tx)),
        tokio::spawn(tx_task(ob.clone(), tx_from_sess, received_rx, detached_tx, tx_done_tx)),
        tokio::spawn(rx_task(ob.clone(), rx_from_sess, received_tx, detached_rx, rx_done_tx)),
    ];
    let mut task_panic = [false; 4];
    for (i, t) in tasks.into_iter().enumerate() {
        if t.await.is_err() {
            task_panic[i] = true;
        }
    }
    // a failure that was scheduled but has not happened yet (stall still sleeping) cannot be: every call is
    // bounded relative to it. Engines: first with the peer still holding its end, then with everything gone.
    let m = tokio::runtime::Handle::current().metrics();
    barrier().await;
    barrier().await;
    let alive1 = m.num_alive_tasks().saturating_sub(if peer_task.is_finished() { 0 } else { 1 });
    peer_task.abort();
    let _ = peer_task.await;
    barrier().await;
    barrier().await;
    let alive2 = m.num_alive_tasks();

    let g = ob.i.lock().unwrap();
    let written = ios.lock().unwrap().written.clone();
    let failed = g.t_fail.is_some();
    let pw: Vec<String> = if failed { g.pw[..g.pw_at_fail].to_vec() } else { g.pw.clone() };
    let cw = client_tokens(if failed { &written[..g.cw_len_at_fail] } else { &written[..] });
    // what the client wrote between the failure and the moment the silent peer dropped the pipe
    let cw2: Option<Vec<String>> = g.t_fail2.map(|_| {
        let n = client_tokens_complete(&written[..g.cw_len_at_fail]).len();
        client_tokens(&written[..g.cw_len_at_fail2.max(g.cw_len_at_fail)])[n..].to_vec()
    });
    if std::env::var_os("CUT_RAW").is_some() {
        eprintln!("RAW full pw: {}", g.pw.join(","));
        eprintln!("RAW full cw: {}", client_tokens(&written).join(","));
    }
    let pc = g.pw.iter().any(|t| t == "C" || t.starts_with("!C"));
    let mut out = format!("pw={} | cw={}{} | at:", pw.join(","), cw.join(","), cw2.map(|c| format!(";{}", c.join(","))).unwrap_or_default());
    match &g.at_fail {
        Some(a) => out.push_str(&(0..4).map(|i| format!("{}={}", TASKS[i], if a[i].is_empty() { "-" } else { &a[i] })).collect::<Vec<_>>().join(",")),
        None => out.push('-'),
    }
    for i in 0..4 {
        out.push_str(&format!(" | {}:{}", TASKS[i], g.res[i].join(",")));
        if task_panic[i] {
            out.push_str(",PANIC");
        }
    }
    out.push_str(&format!(
        " | eng={}/{} valid={} pc={} tfail={} len={}/{}/{}",
        alive1,
        alive2,
        g.valid as u8,
        pc as u8,
        g.t_fail.map(|t| t.to_string()).unwrap_or("-".into()),
        g.p2c_len,
        written.len(),
        g.nat_frames
    ));
    let read = ios.lock().unwrap().read;
    let delivered = g.pw_end.iter().filter(|e| **e <= read).count();
    (out, g.pw.clone(), delivered)
}

pub fn run_case(line: &str) -> String {
    match parse_case(line) {
        Some(c) => run_parsed(c),
        None => "BAD-CASE-LINE".to_string(),
    }
}

/// the trace, the tokens of all the frames the peer has written (the trace's `pw` stops at the failure) and the
/// number of those frames that the client has read
pub fn run_case_full(line: &str) -> (String, Vec<String>, usize) {
    match parse_case(line) {
        Some(c) => run_parsed_full(c),
        None => ("BAD-CASE-LINE".to_string(), Vec::new(), 0),
    }
}

/* ------------------------------------------------------------------------------------- */
/* direct oracle                                                                          */
/* ------------------------------------------------------------------------------------- */

#[derive(Clone, Copy, PartialEq, Eq, Debug)]
enum Scope {
    Link,
    Session,
    Conn,
}

fn has_conn_marker(e: &str) -> bool {
    e.contains("ConnectionStopped(") || e.contains("TransportError(") || e.contains("Io(") || e.contains("OpenError::RemoteClosed") || e.contains("connection::Error::RemoteClosed")
}
fn has_session_marker(e: &str) -> bool {
    (e.contains("SessionStopped(") && !e.contains("ConnectionStopped(")) || e.contains("RemoteEnded")
}
fn has_link_marker(e: &str) -> bool {
    e.contains("RemoteDetached") || e.contains("RemoteClosed") || e.contains("ClosedByRemote") || e.contains("DetachedByRemote")
}
fn scope_ok(s: Scope, e: &str) -> bool {
    match s {
        Scope::Link => has_link_marker(e),
        Scope::Session => has_session_marker(e),
        Scope::Conn => has_conn_marker(e),
    }
}

struct Tok {
    name: String,
    /// 0: issued before / at the failure, 1: strictly after, 2: after the silent peer dropped the pipe
    after: u8,
    res: String,
    late: bool,
}

fn parse_tokens(sec: &str) -> Vec<Tok> {
    let mut v = Vec::new();
    // results contain commas only inside parentheses
    let mut depth = 0;
    let mut cur = String::new();
    let mut parts = Vec::new();
    for c in sec.chars() {
        match c {
            '(' => {
                depth += 1;
                cur.push(c)
            }
            ')' => {
                depth -= 1;
                cur.push(c)
            }
            ',' if depth == 0 => parts.push(std::mem::take(&mut cur)),
            _ => cur.push(c),
        }
    }
    if !cur.is_empty() {
        parts.push(cur);
    }
    for p in parts {
        let Some((n, r)) = p.split_once('=') else {
            v.push(Tok { name: p.clone(), after: 0, res: String::new(), late: false });
            continue;
        };
        let after = if n.ends_with("**") {
            2
        } else if n.ends_with('*') {
            1
        } else {
            0
        };
        let late = r.ends_with('~');
        v.push(Tok { name: n.trim_end_matches('*').to_string(), after, res: r.trim_end_matches('~').to_string(), late });
    }
    v
}

fn is_data_op(name: &str) -> bool {
    name == "begin" || name.starts_with("attach") || name.starts_with("send#") || name.starts_with("out#") || name.starts_with("recv#") || name.starts_with("acc#")
}

/// The verdicts of [`direct_oracle_inner`], with the classes that depend on WHAT failed made specific to it: the level of
/// an injected frame (`-link` for a detach, `-session` for an end, `-connection` for a close) or `-transport` for a cut.
pub fn direct_oracle(line: &str, trace: &str) -> Vec<String> {
    let level = if line.contains("inject=detach") {
        "-link"
    } else if line.contains("inject=end") {
        "-session"
    } else if line.contains("inject=close") {
        "-connection"
    } else {
        "-transport"
    };
    direct_oracle_inner(line, trace)
        .into_iter()
        .map(|x| match x.split_once(':') {
            Some((c, rest)) if c.starts_with("c14-peer-error-lost") || c.starts_with("c14-wrong-scope") || c.starts_with("c14-data-op-ok-after-failure") => {
                format!("{}{}:{}", c, level, rest)
            }
            // a pending call: what stopped, and for a detach whether it was closing
            Some((c, rest)) if c == "c14-hang" || c == "c14-hang-send-outcome" => {
                format!("{}{}{}:{}", c, level, if level == "-link" && line.contains("dc=0") { "-nonclosing" } else { "" }, rest)
            }
            _ => x,
        })
        .collect()
}

fn direct_oracle_inner(line: &str, trace: &str) -> Vec<String> {
    let mut v = Vec::new();
    let Some(case) = parse_case(line) else {
        return vec![format!("c14-bad-case: {}", line)];
    };
    if trace.starts_with("HARNESS-PANIC") || trace.contains("PANIC,") || trace.contains(",PANIC") || !trace.contains("panics=0") {
        v.push(format!("c14-panic: {}", trace.rsplit('|').next().unwrap_or(trace).trim()));
        if trace.starts_with("HARNESS-PANIC") {
            return v;
        }
    }
    let secs: Vec<&str> = trace.split(" | ").collect();
    let get = |p: &str| secs.iter().find_map(|s| s.strip_prefix(p)).unwrap_or("");
    let pw: Vec<&str> = get("pw=").split(',').filter(|s| !s.is_empty()).collect();
    let (cw1s, cw2s) = get("cw=").split_once(';').unwrap_or((get("cw="), ""));
    let cw: Vec<&str> = cw1s.split(',').filter(|s| !s.is_empty()).collect();
    let cw2: Vec<&str> = cw2s.split(',').filter(|s| !s.is_empty()).collect();
    let at = get("at:");
    let tail = secs.last().copied().unwrap_or("");
    let tkv = |k: &str| tail.split_whitespace().find_map(|x| x.strip_prefix(k).and_then(|x| x.strip_prefix('='))).unwrap_or("");
    let valid = tkv("valid") == "1";
    let pc = tkv("pc") == "1";
    let failed = tkv("tfail") != "-";
    let toks: Vec<Vec<Tok>> = TASKS.iter().map(|t| parse_tokens(get(&format!("{}:", t)))).collect();
    let step_at = |task: usize| -> String {
        at.split(',').find_map(|x| x.strip_prefix(&format!("{}=", TASKS[task]))).unwrap_or("-").to_string()
    };

    // ---- which handles are affected, and at which scope
    let (silent, scopes): (bool, [Option<Scope>; 4]) = match case.kind {
        Kind::Ref => (false, [None; 4]),
        Kind::Cut { .. } => (false, [Some(Scope::Conn); 4]),
        Kind::Inject { what, silent, .. } => (
            silent,
            match what {
                Inj::Close => [Some(Scope::Conn); 4],
                Inj::End => [None, Some(Scope::Session), Some(Scope::Session), Some(Scope::Session)],
                Inj::DetS => [None, None, Some(Scope::Link), None],
                Inj::DetR => [None, None, None, Some(Scope::Link)],
            },
        ),
    };
    // ---- hangs
    let engine_stuck = failed && (tkv("eng").split('/').next().map(|a| a != "0").unwrap_or(false) || toks[CONN].iter().any(|t| t.name == "closed" && t.res == "0"));
    let mut hung_in_progress = [false; 4];
    for (ti, ts) in toks.iter().enumerate() {
        for t in ts {
            if t.res == "PENDING" {
                // the known one: the outcome of a delivery whose transfer (at least its first frame) was on the
                // wire before the failure that concerns this handle (the injected frame for the handles of the
                // terminated entity, the moment the silent peer dropped the pipe for the others)
                let send_outcome = (t.name.starts_with("send#") || t.name.starts_with("out#")) && failed && {
                    let k: u32 = t.name[t.name.find('#').unwrap() + 1..].parse().unwrap_or(0);
                    let d = k.saturating_sub(1);
                    let hit = |x: &&str| **x == format!("T{}", d) || **x == format!("T{}m", d) || **x == format!("T{}p", d);
                    cw.iter().any(hit) || (scopes[ti].is_none() && cw2.iter().any(hit))
                };
                if t.after == 0 {
                    hung_in_progress[ti] = true;
                }
                // the connection engine itself never stopped (`is_closed()` false after the teardown, engine tasks
                // alive while the peer still holds its end): every pending call of the case is a consequence
                let class = if engine_stuck {
                    "c14-hang-engine-stuck"
                } else if send_outcome {
                    "c14-hang-send-outcome"
                } else {
                    "c14-hang"
                };
                v.push(format!(
                    "{}: `{}{}` of task {} still pending 600 s after the failure (task was in step `{}` when the failure happened)",
                    class,
                    t.name,
                    ["", "*", "**"][t.after as usize],
                    TASKS[ti],
                    step_at(ti)
                ));
            }
        }
    }
    // ---- engines
    let eng = tkv("eng");
    let not_closed = toks[CONN].iter().any(|t| t.name == "closed" && t.res == "0");
    let not_ended = toks[SESS].iter().any(|t| t.name == "ended" && t.res == "0");
    if (eng != "0/0" && !eng.is_empty()) || not_closed || not_ended {
        v.push(format!(
            "c14-engine-alive: engine tasks alive at the end: eng={} (while the peer still holds its end / after everything is dropped){}{}",
            eng,
            if not_closed { ", ConnectionHandle::is_closed() false after close()" } else { "" },
            if not_ended { ", SessionHandle::is_ended() false after end()" } else { "" }
        ));
    }
    if !failed || !valid {
        return v;
    }

    if matches!(case.kind, Kind::Ref) {
        return v;
    }
    let err_injected = matches!(case.kind, Kind::Inject { err: true, .. });

    for (ti, ts) in toks.iter().enumerate() {
        for t in ts {
            let affected = scopes[ti].is_some();
            // data-path operation issued after the failure returned Ok
            if is_data_op(&t.name) && t.res.starts_with("ok") && ((affected && t.after >= 1) || t.after == 2) {
                let legit = match t.name.as_str() {
                    "recv#1" => pw.contains(&"t0"),
                    "recv#2" => pw.contains(&"t1"),
                    "out#2" => pw.contains(&"P1"),
                    _ => false,
                };
                if !legit {
                    v.push(format!(
                        "c14-data-op-ok-after-failure{}: `{}` of task {} was issued after the failure and returned {}",
                        if engine_stuck { "-engine-stuck" } else { "" },
                        t.name,
                        TASKS[ti],
                        t.res
                    ));
                }
            }
            // scope of errors
            if t.res.starts_with("Err(") {
                let mut accepted: Vec<Scope> = Vec::new();
                if let Some(s) = scopes[ti] {
                    accepted.push(s);
                }
                if silent && t.late {
                    accepted.push(Scope::Conn);
                }
                if !accepted.iter().any(|s| scope_ok(*s, &t.res)) {
                    v.push(format!(
                        "c14-wrong-scope: `{}` of task {} returned {} which does not name the level that stopped (expected {:?})",
                        t.name, TASKS[ti], t.res, accepted
                    ));
                }
            }
        }
    }
    // ---- the peer's error condition
    if err_injected {
        let carried = toks.iter().enumerate().any(|(ti, ts)| scopes[ti].is_some() && ts.iter().any(|t| t.res.contains("InternalError")));
        if !carried {
            // when the call that was in progress on an affected handle never returned, that call is the one that
            // should have carried it: reported apart
            let hung = (0..4).any(|ti| scopes[ti].is_some() && hung_in_progress[ti]);
            // ... and when the affected handles were only touched after the silent peer had dropped the pipe, the
            // connection-level stop had superseded the link/session-level one before anybody asked: reported apart
            let only_late = silent && toks.iter().enumerate().all(|(ti, ts)| scopes[ti].is_none() || ts.iter().all(|t| !t.res.starts_with("Err") && t.res != "PENDING" || t.after == 2));
            v.push(format!(
                "{}: the peer supplied amqp:internal-error but no result of the affected handles carries it",
                if hung {
                    "c14-peer-error-lost-hung-call"
                } else if only_late {
                    "c14-peer-error-lost-after-pipe-drop"
                } else {
                    "c14-peer-error-lost"
                }
            ));
        }
    }
    // ---- a session begun while the engine is still shutting the transport down (slow-shutdown cases only)
    if let Some(t) = toks[CONN].iter().find(|t| t.name == "begin2") {
        if t.res.starts_with("ok") {
            v.push("c14-data-op-ok-after-failure: `begin2` of task conn was issued after the peer's close and returned ok".to_string());
        } else if err_injected && t.res.starts_with("Err(") && !t.res.contains("InternalError") {
            v.push(format!(
                "c14-peer-error-lost-during-shutdown: Session::begin issued while the transport was shutting down returned {} - the peer's close carried amqp:internal-error and the connection handle reports it",
                t.res
            ));
        }
    }
    // ---- the connection handle
    if !pc {
        if let Some(t) = toks[CONN].iter().find(|t| t.name == "close") {
            if t.res == "ok" {
                v.push("c14-handle-silent: ConnectionHandle::close() returned Ok(()) although the peer's close never arrived".to_string());
            }
        }
    }
    v
}

/* ------------------------------------------------------------------------------------- */
/* generation and driver                                                                  */
/* ------------------------------------------------------------------------------------- */

/// (length of the peer's stream, length of the client's stream, number of peer frames) of the reference
pub fn reference_dims(late: bool) -> (usize, usize, usize) {
    static DIMS: [std::sync::OnceLock<(usize, usize, usize)>; 2] = [std::sync::OnceLock::new(), std::sync::OnceLock::new()];
    *DIMS[late as usize].get_or_init(|| {
        let t = run_parsed(Case { kind: Kind::Ref, pipe: DEFAULT_PIPE, late, shut: 0 });
        let l = t.rsplit("len=").next().unwrap_or("0/0/0").split_whitespace().next().unwrap_or("0/0/0").to_string();
        let p: Vec<usize> = l.split('/').map(|x| x.parse().unwrap_or(0)).collect();
        (p[0], p[1], p[2])
    })
}

const INJ_NAMES: [(Inj, bool); 8] =
    [(Inj::Close, false), (Inj::Close, true), (Inj::End, false), (Inj::End, true), (Inj::DetS, false), (Inj::DetS, true), (Inj::DetR, false), (Inj::DetR, true)];

pub fn gen_case(r: &mut Rng, thorough: bool) -> String {
    let late = r.chance(1, 3);
    let (pl, cl, nf) = reference_dims(late);
    let pipe = *r.pick(&[64usize, 128, 256, 1024, 4096, DEFAULT_PIPE]);
    let kind = if r.chance(2, 3) {
        let p2c = r.chance(1, 2);
        let at = r.range(0, if p2c { pl } else { cl } as u64) as usize;
        let how = if thorough { *r.pick(&[How::Eof, How::Reset, How::Stall]) } else { *r.pick(&[How::Eof, How::Eof, How::Reset, How::Stall]) };
        Kind::Cut { p2c, at, how }
    } else {
        let (what, err) = *r.pick(&INJ_NAMES);
        let j = r.range(1, nf as u64) as usize;
        let pos = if r.chance(1, 2) { Pos::Before(j) } else { Pos::After(j) };
        Kind::Inject { what, err, closed: r.chance(2, 3), pos, silent: r.chance(1, 2) }
    };
    case_line(&Case { kind, pipe, late, shut: 0 })
}

fn record(out: &mut Outputs, line: &str, trace: &str) {
    let case = parse_case(line);
    match case.map(|c| c.kind) {
        Some(Kind::Ref) => out.count("kind_ref"),
        Some(Kind::Cut { p2c, how, .. }) => out.count(&format!("cut_{}_{:?}", if p2c { "p2c" } else { "c2p" }, how).to_lowercase()),
        Some(Kind::Inject { what, err, silent, .. }) => out.count(&format!("inject_{:?}{}_{}", what, if err { "_e" } else { "" }, if silent { "silent" } else { "answer" }).to_lowercase()),
        None => out.count("bad_case_line"),
    }
    if let Some(c) = case {
        if c.pipe != DEFAULT_PIPE {
            out.count("small_pipe");
        }
    }
    if trace.contains("valid=0") {
        out.count("inject_protocol_error_position");
    }
    // distribution of the steps the tasks were in when the failure happened
    if let Some(at) = trace.split(" | ").find_map(|s| s.strip_prefix("at:")) {
        for x in at.split(',') {
            out.count(&format!("at_{}", x));
        }
    }
    for s in trace.split(" | ") {
        for t in TASKS.iter() {
            if let Some(sec) = s.strip_prefix(&format!("{}:", t)) {
                for tok in parse_tokens(sec) {
                    let r = if tok.res.starts_with("ok") {
                        "ok"
                    } else if tok.res.starts_with("Err") {
                        "err"
                    } else if tok.res == "PENDING" {
                        "pending"
                    } else {
                        continue;
                    };
                    out.count(&format!("result_{}", r));
                    if tok.after > 0 {
                        out.count("calls_issued_after_failure");
                    }
                }
            }
        }
    }
    if trace.contains("Err(") || trace.contains("PENDING") {
        out.nontrivial(line);
    }
    let vs = direct_oracle(line, trace);
    for viol in vs {
        let class = viol.split(':').next().unwrap_or("c14-?").to_string();
        out.violation(&class, &format!("{} | {} -> {}", viol, line, trace), line);
    }
    out.case(line, trace);
}

pub fn enumerate(thorough: bool) -> Vec<String> {
    let mut v = Vec::new();
    for late in [false, true] {
        let (pl, cl, nf) = reference_dims(late);
        v.push(case_line(&Case { kind: Kind::Ref, pipe: DEFAULT_PIPE, late, shut: 0 }));
        // (a) every byte offset of both streams
        let mut variants: Vec<(How, usize)> = vec![(How::Eof, DEFAULT_PIPE)];
        if thorough {
            variants.extend([(How::Reset, DEFAULT_PIPE), (How::Stall, DEFAULT_PIPE)]);
            if !late {
                // a pipe smaller than a frame: the client's writer blocks once the peer stops reading
                for pipe in [64, 256] {
                    variants.extend([(How::Eof, pipe), (How::Reset, pipe), (How::Stall, pipe)]);
                }
            }
        }
        for (how, pipe) in variants {
            for at in 0..=pl {
                v.push(case_line(&Case { kind: Kind::Cut { p2c: true, at, how }, pipe, late, shut: 0 }));
            }
            for at in 0..=cl {
                v.push(case_line(&Case { kind: Kind::Cut { p2c: false, at, how }, pipe, late, shut: 0 }));
            }
        }
        // (b) every injection before / after every frame of the peer
        if late && !thorough {
            continue;
        }
        for (what, err) in INJ_NAMES {
            let dcs: &[bool] = if matches!(what, Inj::DetS | Inj::DetR) { &[true, false] } else { &[true] };
            for closed in dcs {
                for silent in [false, true] {
                    for j in 1..=nf {
                        v.push(case_line(&Case { kind: Kind::Inject { what, err, closed: *closed, pos: Pos::Before(j), silent }, pipe: DEFAULT_PIPE, late, shut: 0 }));
                        v.push(case_line(&Case { kind: Kind::Inject { what, err, closed: *closed, pos: Pos::After(j), silent }, pipe: DEFAULT_PIPE, late, shut: 0 }));
                        if matches!(what, Inj::Close) {
                            // the same close with a stream that takes 50 ms (virtual) to shut down: calls issued while the
                            // engine is still closing the transport must already see why the connection stopped
                            v.push(case_line(&Case { kind: Kind::Inject { what, err, closed: *closed, pos: Pos::Before(j), silent }, pipe: DEFAULT_PIPE, late, shut: 50 }));
                            v.push(case_line(&Case { kind: Kind::Inject { what, err, closed: *closed, pos: Pos::After(j), silent }, pipe: DEFAULT_PIPE, late, shut: 50 }));
                        }
                    }
                }
            }
        }
    }
    v
}

pub fn run(seed: u64, n: u64, thorough: bool, corpus: &[String], dir: &str) {
    crate::codec::quiet_panics();
    install_hook();
    let mut out = Outputs::new(dir);
    let mut r = Rng::new(seed);
    let mut lines: Vec<String> = Vec::new();
    for l in corpus {
        if l.starts_with("cut ") {
            out.count("corpus_cases");
            lines.push(l.clone());
        }
    }
    let (pl, cl, nf) = reference_dims(false);
    out.add("reference_p2c_bytes", pl as u64);
    out.add("reference_c2p_bytes", cl as u64);
    out.add("reference_peer_frames", nf as u64);
    lines.extend(enumerate(thorough));
    for _ in 0..n {
        lines.push(gen_case(&mut r, thorough));
    }
    // the cases are independent and deterministic: run them on a few threads, report in order
    let workers = 6usize;
    let lines = Arc::new(lines);
    let next = Arc::new(std::sync::atomic::AtomicUsize::new(0));
    let results: Arc<Mutex<Vec<Option<String>>>> = Arc::new(Mutex::new(vec![None; lines.len()]));
    let mut hs = Vec::new();
    for _ in 0..workers {
        let (lines, next, results) = (lines.clone(), next.clone(), results.clone());
        hs.push(std::thread::spawn(move || loop {
            let i = next.fetch_add(1, std::sync::atomic::Ordering::SeqCst);
            if i >= lines.len() {
                break;
            }
            let t = run_case(&lines[i]);
            results.lock().unwrap()[i] = Some(t);
        }));
    }
    for h in hs {
        let _ = h.join();
    }
    let results = results.lock().unwrap();
    for (i, l) in lines.iter().enumerate() {
        let t = results[i].clone().unwrap_or_else(|| "HARNESS-PANIC panics=1@worker".to_string());
        record(&mut out, l, &t);
    }
    out.finish(dir);
}
