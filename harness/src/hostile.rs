//! C15: a misbehaving peer cannot crash, wedge or spin an endpoint.
//!
//! case line: `hst side=<client|listener> state=<name> stim=<catalogue entry> after=<nice|silent|eof> [other=1]`
//!
//! The endpoint under test is the library's client (Connection / Session / Sender / Receiver) or
//! the library's listener (ConnectionAcceptor / SessionAcceptor / LinkAcceptor), each handle owned
//! by a small application task that executes commands and logs the result of every call. The other
//! end of the duplex is a scripted byte-level peer that brings the endpoint into `state` by a valid
//! prelude, injects one hostile stimulus, optionally behaves well again, and finally closes the pipe.
use crate::c12::{peer_begin, peer_close, peer_end, peer_open};
use crate::eng::*;
use crate::out::*;
use crate::rng::Rng;
use fe2o3_amqp::acceptor::{ConnectionAcceptor, LinkAcceptor, LinkEndpoint, ListenerConnectionHandle, ListenerSessionHandle, SessionAcceptor};
use fe2o3_amqp::connection::ConnectionHandle;
use fe2o3_amqp::link::receiver::CreditMode;
use fe2o3_amqp::session::SessionHandle;
use fe2o3_amqp::types::definitions::{ReceiverSettleMode, Role, SenderSettleMode};
use fe2o3_amqp::types::messaging::{Accepted, Body, DeliveryState, Source, Target};
use fe2o3_amqp::types::performatives::{Attach, Detach, Disposition, Flow, Performative, Transfer};
use fe2o3_amqp::types::primitives::Value;
use fe2o3_amqp::{Connection, Receiver, Sender, Session};
use serde_amqp::primitives::Binary;
use std::collections::{BTreeMap, BTreeSet, HashMap};
use std::sync::{Arc, Mutex};
use std::time::Duration;
use tokio::io::{AsyncReadExt, AsyncWriteExt};
use tokio::sync::mpsc;
use tokio::task::JoinHandle;

/// the endpoint's session incoming-window (small, so that a window overrun is a short stimulus)
pub const WIN: u32 = 64;
/// the peer's handle of the link on which the endpoint is the sender / the receiver
const PH_S: u32 = 5;
const PH_R: u32 = 7;
/// the peer's channel (the endpoint's own outgoing channel is 0)
const PCH: u16 = 1;
/// max-frame-size the endpoint announces unless the stimulus needs a bigger one
const MFS: u32 = 4096;
const CLIENT_CREDIT: u32 = 4;

// ------------------------------------------------------------------------------------------
// panic recording
// ------------------------------------------------------------------------------------------

static PANICS: Mutex<Vec<String>> = Mutex::new(Vec::new());

/// Every panic of every thread/task is recorded with its message and location (and not printed)
pub fn install_panic_hook() {
    std::panic::set_hook(Box::new(|info| {
        let msg = if let Some(s) = info.payload().downcast_ref::<&str>() {
            s.to_string()
        } else if let Some(s) = info.payload().downcast_ref::<String>() {
            s.clone()
        } else {
            "?".to_string()
        };
        // path-independent: from the crate directory on
        let loc = info
            .location()
            .map(|l| {
                let f = l.file();
                let cut = ["/serde_amqp/", "/fe2o3-amqp-types/", "/fe2o3-amqp/", "/tokio-", "/src/"].iter().filter_map(|m| f.find(m)).min().map(|i| i + 1).unwrap_or(0);
                format!("{}:{}", &f[cut..], l.line())
            })
            .unwrap_or_default();
        let msg: String = msg.chars().map(|c| if c == '|' || c == '\n' || c == '\t' { ' ' } else { c }).take(160).collect();
        if let Ok(mut p) = PANICS.lock() {
            p.push(format!("`{}`@{}", msg, loc));
        }
    }));
}
fn take_panics() -> Vec<String> {
    PANICS.lock().map(|mut p| std::mem::take(&mut *p)).unwrap_or_default()
}

// ------------------------------------------------------------------------------------------
// the application: one task per handle, commands in, call results out
// ------------------------------------------------------------------------------------------

#[derive(Default)]
struct LogInner {
    entries: Vec<String>,
    taken: usize,
    /// task name -> the call in progress
    current: BTreeMap<String, String>,
}
#[derive(Clone, Default)]
struct Log(Arc<Mutex<LogInner>>);
impl Log {
    fn begin(&self, task: &str, call: &str) {
        self.0.lock().unwrap().current.insert(task.to_string(), call.to_string());
    }
    fn end(&self, task: &str, call: &str, result: String) {
        let mut g = self.0.lock().unwrap();
        g.current.remove(task);
        g.entries.push(format!("{}.{}={}", task, call, result));
    }
    fn idle(&self, task: &str) {
        self.0.lock().unwrap().current.remove(task);
    }
    #[allow(dead_code)]
    fn note(&self, s: String) {
        self.0.lock().unwrap().entries.push(s);
    }
    fn take_new(&self) -> Vec<String> {
        let mut g = self.0.lock().unwrap();
        let v = g.entries[g.taken..].to_vec();
        g.taken = g.entries.len();
        v
    }
    fn all(&self) -> Vec<String> {
        self.0.lock().unwrap().entries.clone()
    }
    fn count(&self, prefix: &str) -> usize {
        self.0.lock().unwrap().entries.iter().filter(|e| e.starts_with(prefix)).count()
    }
    fn pending(&self) -> Vec<(String, String)> {
        self.0.lock().unwrap().current.iter().map(|(a, b)| (a.clone(), b.clone())).collect()
    }
    fn is_pending(&self, task: &str) -> bool {
        self.0.lock().unwrap().current.contains_key(task)
    }
}

/// `Foo(Bar(Baz { .. }))` -> `Foo.Bar.Baz`
fn ename<E: std::fmt::Debug>(e: &E) -> String {
    let s = format!("{:?}", e);
    let head = s.split(|c| c == '{' || c == '"').next().unwrap_or("");
    let parts: Vec<&str> = head.split(|c: char| !(c.is_alphanumeric() || c == '_')).filter(|p| !p.is_empty()).take(4).collect();
    if parts.is_empty() {
        "Err".to_string()
    } else {
        parts.join(".")
    }
}
fn res<T, E: std::fmt::Debug>(r: &Result<T, E>) -> String {
    match r {
        Ok(_) => "Ok".to_string(),
        Err(e) => format!("Err({})", ename(e)),
    }
}

#[derive(Debug)]
enum LinkCmd {
    Send,
    Close,
}
#[derive(Debug)]
enum SessCmd {
    AttachSender,
    AttachReceiver,
    End,
}
#[derive(Debug)]
enum ConnCmd {
    Begin,
    Close,
}

#[derive(Default)]
struct RegInner {
    conn: Option<mpsc::UnboundedSender<ConnCmd>>,
    sess: Option<mpsc::UnboundedSender<SessCmd>>,
    /// link task name ("s", "r", "x1"..) -> command channel
    links: BTreeMap<String, mpsc::UnboundedSender<LinkCmd>>,
    tasks: Vec<(String, JoinHandle<()>)>,
    extra: usize,
    sessions: usize,
    /// further sessions the peer has begun
    more_sess: Vec<mpsc::UnboundedSender<SessCmd>>,
}
#[derive(Clone, Default)]
struct Reg(Arc<Mutex<RegInner>>);
impl Reg {
    fn spawn<F: std::future::Future<Output = ()> + Send + 'static>(&self, name: &str, f: F) {
        let h = tokio::spawn(f);
        self.0.lock().unwrap().tasks.push((name.to_string(), h));
    }
    fn link_task_name(&self, link_name: &str) -> String {
        let mut g = self.0.lock().unwrap();
        if (link_name == "s" || link_name == "r") && !g.links.contains_key(link_name) {
            link_name.to_string()
        } else {
            g.extra += 1;
            format!("x{}", g.extra)
        }
    }
}

async fn sender_task(s: Sender, task: String, log: Log, mut rx: mpsc::UnboundedReceiver<LinkCmd>) {
    let mut snd = Some(s);
    while let Some(cmd) = rx.recv().await {
        match cmd {
            LinkCmd::Send => {
                if let Some(s) = snd.as_mut() {
                    log.begin(&task, "send");
                    let r = s.send("probe").await;
                    let txt = match &r {
                        Ok(o) => format!("Ok({})", ename(o)),
                        Err(e) => format!("Err({})", ename(e)),
                    };
                    log.end(&task, "send", txt);
                }
            }
            LinkCmd::Close => {
                if let Some(s) = snd.take() {
                    log.begin(&task, "close");
                    let r = s.close().await;
                    log.end(&task, "close", res(&r));
                }
            }
        }
    }
}

async fn recv_opt(r: &mut Option<Receiver>) -> Result<fe2o3_amqp::link::delivery::Delivery<Body<Value>>, fe2o3_amqp::link::RecvError> {
    match r {
        Some(r) => r.recv::<Body<Value>>().await,
        None => std::future::pending().await,
    }
}

async fn receiver_task(r: Receiver, task: String, log: Log, mut rx: mpsc::UnboundedReceiver<LinkCmd>) {
    let mut rcv = Some(r);
    let mut looping = true;
    let mut errors = 0;
    loop {
        if looping && rcv.is_some() {
            log.begin(&task, "recv");
        } else {
            log.idle(&task);
        }
        let has = rcv.is_some();
        tokio::select! {
            biased;
            cmd = rx.recv() => {
                match cmd {
                    None => return,
                    Some(LinkCmd::Close) => {
                        looping = false;
                        if let Some(r) = rcv.take() {
                            log.begin(&task, "close");
                            let x = r.close().await;
                            log.end(&task, "close", res(&x));
                        }
                    }
                    Some(LinkCmd::Send) => {}
                }
            }
            d = recv_opt(&mut rcv), if looping && has => {
                match d {
                    Ok(d) => {
                        log.end(&task, "recv", "Ok".to_string());
                        if let Some(r) = rcv.as_mut() {
                            log.begin(&task, "accept");
                            let a = r.accept(&d).await;
                            match a {
                                Ok(()) => log.idle(&task),
                                Err(e) => log.end(&task, "accept", format!("Err({})", ename(&e))),
                            }
                        }
                    }
                    Err(e) => {
                        let n = ename(&e);
                        log.end(&task, "recv", format!("Err({})", n));
                        errors += 1;
                        // an undecodable or malformed delivery is not the end of the link
                        if n.contains("LinkStateError") || n.contains("Stopped") || n.contains("Detached") || n.contains("Closed") || errors >= 5 {
                            looping = false;
                        }
                    }
                }
            }
        }
    }
}

fn spawn_link(ep: LinkEndpoint, name: &str, log: &Log, reg: &Reg) -> &'static str {
    let task = reg.link_task_name(name);
    let (tx, rx) = mpsc::unbounded_channel();
    reg.0.lock().unwrap().links.insert(task.clone(), tx);
    match ep {
        LinkEndpoint::Sender(s) => {
            reg.spawn(&task, sender_task(s, task.clone(), log.clone(), rx));
            "sender"
        }
        LinkEndpoint::Receiver(r) => {
            reg.spawn(&task, receiver_task(r, task.clone(), log.clone(), rx));
            "receiver"
        }
    }
}

async fn client_session_task(mut sess: SessionHandle<()>, log: Log, reg: Reg, mut rx: mpsc::UnboundedReceiver<SessCmd>) {
    let task = "k";
    let mut ended = false;
    while let Some(cmd) = rx.recv().await {
        if ended {
            continue;
        }
        match cmd {
            SessCmd::AttachSender => {
                log.begin(task, "attach-s");
                let r = Sender::builder().name("s").target("q").attach(&mut sess).await;
                let txt = res(&r);
                if let Ok(s) = r {
                    spawn_link(LinkEndpoint::Sender(s), "s", &log, &reg);
                }
                log.end(task, "attach-s", txt);
            }
            SessCmd::AttachReceiver => {
                log.begin(task, "attach-r");
                let r = Receiver::builder().name("r").source("q").credit_mode(CreditMode::Auto(CLIENT_CREDIT)).attach(&mut sess).await;
                let txt = res(&r);
                if let Ok(r) = r {
                    spawn_link(LinkEndpoint::Receiver(r), "r", &log, &reg);
                }
                log.end(task, "attach-r", txt);
            }
            SessCmd::End => {
                log.begin(task, "end");
                let r = sess.end().await;
                log.end(task, "end", res(&r));
                ended = true;
            }
        }
    }
}

async fn listener_session_task(mut sess: ListenerSessionHandle, task: String, log: Log, reg: Reg, mut rx: mpsc::UnboundedReceiver<SessCmd>) {
    let acceptor = LinkAcceptor::new();
    let mut accepting = true;
    let mut errors = 0;
    let mut ended = false;
    loop {
        if accepting {
            log.begin(&task, "accept-link");
        } else {
            log.idle(&task);
        }
        tokio::select! {
            biased;
            cmd = rx.recv() => {
                match cmd {
                    None => return,
                    Some(SessCmd::End) => {
                        accepting = false;
                        if !ended {
                            ended = true;
                            log.begin(&task, "end");
                            let r = sess.end().await;
                            log.end(&task, "end", res(&r));
                        }
                    }
                    Some(_) => {}
                }
            }
            r = acceptor.accept(&mut sess), if accepting => {
                match r {
                    Ok(ep) => {
                        errors = 0;
                        let name = match &ep { LinkEndpoint::Sender(s) => s.name().to_string(), LinkEndpoint::Receiver(r) => r.name().to_string() };
                        let kind = spawn_link(ep, &name, &log, &reg);
                        log.end(&task, "accept-link", format!("Ok({})", kind));
                    }
                    Err(e) => {
                        let n = ename(&e);
                        errors += 1;
                        // a rejected attach is not the end of the session: keep accepting unless the session has stopped
                        if n.contains("Stopped") || n.contains("IllegalSessionState") || errors >= 3 {
                            accepting = false;
                        }
                        log.end(&task, "accept-link", format!("Err({})", n));
                    }
                }
            }
        }
    }
}

async fn client_conn_task(io: tokio::io::DuplexStream, mfs: u32, log: Log, reg: Reg, mut rx: mpsc::UnboundedReceiver<ConnCmd>) {
    let task = "c";
    log.begin(task, "open");
    let r = Connection::builder().container_id("c").max_frame_size(mfs).open_with_stream(io).await;
    log.end(task, "open", res(&r));
    let mut conn: ConnectionHandle<()> = match r {
        Ok(c) => c,
        Err(_) => return,
    };
    let mut closed = false;
    while let Some(cmd) = rx.recv().await {
        if closed {
            continue;
        }
        match cmd {
            ConnCmd::Begin => {
                log.begin(task, "begin");
                let r = Session::builder().incoming_window(WIN).begin(&mut conn).await;
                let txt = res(&r);
                if let Ok(s) = r {
                    let (tx, srx) = mpsc::unbounded_channel();
                    reg.0.lock().unwrap().sess = Some(tx);
                    reg.spawn("k", client_session_task(s, log.clone(), reg.clone(), srx));
                }
                log.end(task, "begin", txt);
            }
            ConnCmd::Close => {
                log.begin(task, "close");
                let r = conn.close().await;
                log.end(task, "close", res(&r));
                closed = true;
            }
        }
    }
}

async fn listener_conn_task(io: tokio::io::DuplexStream, mfs: u32, log: Log, reg: Reg, mut rx: mpsc::UnboundedReceiver<ConnCmd>) {
    let task = "c";
    log.begin(task, "accept");
    let acceptor = ConnectionAcceptor::builder().container_id("l").max_frame_size(mfs).build();
    let r = acceptor.accept(io).await;
    log.end(task, "accept", res(&r));
    let mut conn: ListenerConnectionHandle = match r {
        Ok(c) => c,
        Err(_) => return,
    };
    let sacc = SessionAcceptor::builder().incoming_window(WIN).build();
    let mut accepting = true;
    let mut closed = false;
    let mut errors = 0;
    loop {
        if accepting {
            log.begin(task, "accept-session");
        } else {
            log.idle(task);
        }
        tokio::select! {
            biased;
            cmd = rx.recv() => {
                match cmd {
                    None => return,
                    Some(ConnCmd::Close) => {
                        accepting = false;
                        if !closed {
                            closed = true;
                            log.begin(task, "close");
                            let r = conn.close().await;
                            log.end(task, "close", res(&r));
                        }
                    }
                    Some(_) => {}
                }
            }
            r = sacc.accept(&mut conn), if accepting => {
                match r {
                    Ok(s) => {
                        errors = 0;
                        let (tx, srx) = mpsc::unbounded_channel();
                        let name = {
                            let mut g = reg.0.lock().unwrap();
                            g.sessions += 1;
                            if g.sessions == 1 { g.sess = Some(tx); "k".to_string() } else { g.more_sess.push(tx); format!("k{}", g.sessions) }
                        };
                        reg.spawn(&name, listener_session_task(s, name.clone(), log.clone(), reg.clone(), srx));
                        log.end(task, "accept-session", "Ok".to_string());
                    }
                    Err(e) => {
                        let n = ename(&e);
                        errors += 1;
                        if n.contains("Stopped") || errors >= 3 {
                            accepting = false;
                        }
                        log.end(task, "accept-session", format!("Err({})", n));
                    }
                }
            }
        }
    }
}

// ------------------------------------------------------------------------------------------
// case line
// ------------------------------------------------------------------------------------------

#[derive(Clone, Copy, PartialEq, Eq, Debug)]
pub enum Side {
    Client,
    Listener,
}
#[derive(Clone, Copy, PartialEq, Eq, Debug, PartialOrd, Ord)]
pub enum State {
    Hdr,
    Open,
    BSent,
    Begun,
    ASent,
    Snd,
    Rcv,
    Mid,
    Unsettled,
    Both,
    DSent,
    ESent,
    CSent,
}
impl State {
    pub fn name(&self) -> &'static str {
        match self {
            State::Hdr => "hdr",
            State::Open => "open",
            State::BSent => "bsent",
            State::Begun => "begun",
            State::ASent => "asent",
            State::Snd => "snd",
            State::Rcv => "rcv",
            State::Mid => "mid",
            State::Unsettled => "unsettled",
            State::Both => "both",
            State::DSent => "dsent",
            State::ESent => "esent",
            State::CSent => "csent",
        }
    }
    pub fn parse(s: &str) -> Option<State> {
        ALL_STATES.iter().cloned().find(|x| x.name() == s)
    }
    fn has_s(&self) -> bool {
        matches!(self, State::Snd | State::Unsettled | State::Both | State::DSent | State::ESent | State::CSent)
    }
    fn has_r(&self) -> bool {
        matches!(self, State::Rcv | State::Mid | State::Both | State::DSent | State::ESent | State::CSent)
    }
    fn session_begun(&self) -> bool {
        !matches!(self, State::Hdr | State::Open | State::BSent)
    }
}
pub const ALL_STATES: [State; 13] = [
    State::Hdr,
    State::Open,
    State::BSent,
    State::Begun,
    State::ASent,
    State::Snd,
    State::Rcv,
    State::Mid,
    State::Unsettled,
    State::Both,
    State::DSent,
    State::ESent,
    State::CSent,
];
#[derive(Clone, Copy, PartialEq, Eq, Debug)]
pub enum After {
    Nice,
    Silent,
    Eof,
}

#[derive(Clone, Debug)]
pub struct Case {
    pub side: Side,
    pub state: State,
    pub stim: String,
    pub after: After,
    pub other: bool,
}

pub fn parse_case(line: &str) -> Option<Case> {
    let rest = line.strip_prefix("hst ")?;
    let mut side = None;
    let mut state = None;
    let mut stim = None;
    let mut after = None;
    let mut other = false;
    for w in rest.split_whitespace() {
        let (k, v) = w.split_once('=')?;
        match k {
            "side" => side = Some(if v == "client" { Side::Client } else if v == "listener" { Side::Listener } else { return None }),
            "state" => state = State::parse(v),
            "stim" => stim = Some(v.to_string()),
            "after" => after = Some(match v { "nice" => After::Nice, "silent" => After::Silent, "eof" => After::Eof, _ => return None }),
            "other" => other = v == "1",
            _ => return None,
        }
    }
    Some(Case { side: side?, state: state?, stim: stim?, after: after?, other })
}

pub fn case_line(side: Side, state: State, stim: &str, after: After, other: bool) -> String {
    format!(
        "hst side={} state={} stim={} after={}{}",
        if side == Side::Client { "client" } else { "listener" },
        state.name(),
        stim,
        match after { After::Nice => "nice", After::Silent => "silent", After::Eof => "eof" },
        if other { " other=1" } else { "" }
    )
}

// ------------------------------------------------------------------------------------------
// byte-level encoders for hand-made (hostile) performatives
// ------------------------------------------------------------------------------------------

fn hex(b: &[u8]) -> String {
    b.iter().map(|x| format!("{:02x}", x)).collect()
}
fn unhex(s: &str) -> Option<Vec<u8>> {
    if s.len() % 2 != 0 {
        return None;
    }
    (0..s.len() / 2).map(|i| u8::from_str_radix(&s[2 * i..2 * i + 2], 16).ok()).collect()
}
fn e_null() -> Vec<u8> {
    vec![0x40]
}
fn e_uint(v: u32) -> Vec<u8> {
    let mut o = vec![0x70];
    o.extend_from_slice(&v.to_be_bytes());
    o
}
fn e_ushort(v: u16) -> Vec<u8> {
    let mut o = vec![0x60];
    o.extend_from_slice(&v.to_be_bytes());
    o
}
fn e_bool(b: bool) -> Vec<u8> {
    vec![if b { 0x41 } else { 0x42 }]
}
fn e_var(code8: u8, b: &[u8]) -> Vec<u8> {
    let mut o = Vec::with_capacity(b.len() + 5);
    if b.len() < 256 {
        o.push(code8);
        o.push(b.len() as u8);
    } else {
        o.push(code8 + 0x10);
        o.extend_from_slice(&(b.len() as u32).to_be_bytes());
    }
    o.extend_from_slice(b);
    o
}
fn e_sym(s: &str) -> Vec<u8> {
    e_var(0xa3, s.as_bytes())
}
fn e_str(s: &str) -> Vec<u8> {
    e_var(0xa1, s.as_bytes())
}
fn e_bin(b: &[u8]) -> Vec<u8> {
    e_var(0xa0, b)
}
fn e_list32(fields: &[Vec<u8>]) -> Vec<u8> {
    let body: usize = fields.iter().map(|f| f.len()).sum();
    let mut o = vec![0xd0];
    o.extend_from_slice(&((body + 4) as u32).to_be_bytes());
    o.extend_from_slice(&(fields.len() as u32).to_be_bytes());
    for f in fields {
        o.extend_from_slice(f);
    }
    o
}
fn e_composite(code: u8, fields: &[Vec<u8>]) -> Vec<u8> {
    let mut o = vec![0x00, 0x53, code];
    o.extend(e_list32(fields));
    o
}
/// map32 with one symbol key
fn e_map1(key: &str, val: &[u8]) -> Vec<u8> {
    let k = e_sym(key);
    let mut o = vec![0xd1];
    o.extend_from_slice(&((k.len() + val.len() + 4) as u32).to_be_bytes());
    o.extend_from_slice(&2u32.to_be_bytes());
    o.extend(k);
    o.extend_from_slice(val);
    o
}
/// `depth` nested one-element list8 around an empty list; the size byte is exact while it fits
pub fn nest8(depth: usize) -> Vec<u8> {
    let mut o = Vec::with_capacity(depth * 3 + 1);
    for i in 0..depth {
        let inner = (depth - 1 - i) * 3 + 1; // bytes of the element
        o.push(0xc0);
        o.push(std::cmp::min(255, inner + 1) as u8);
        o.push(1);
    }
    o.push(0x45);
    o
}
/// `depth` nested one-element list32 with consistent sizes
pub fn nest32(depth: usize) -> Vec<u8> {
    let mut o = Vec::with_capacity(depth * 9 + 1);
    for i in 0..depth {
        let inner = (depth - 1 - i) * 9 + 1;
        o.push(0xd0);
        o.extend_from_slice(&((inner + 4) as u32).to_be_bytes());
        o.extend_from_slice(&1u32.to_be_bytes());
    }
    o.push(0x45);
    o
}
fn e_error(info: &[u8]) -> Vec<u8> {
    e_composite(0x1d, &[e_sym("amqp:internal-error"), e_null(), info.to_vec()])
}
fn h_open(cid: Vec<u8>, caps: Vec<u8>, props: Vec<u8>, idle: Vec<u8>) -> Vec<u8> {
    e_composite(0x10, &[cid, e_null(), e_uint(65536), e_ushort(10), idle, e_null(), e_null(), caps, e_null(), props])
}
fn h_begin(rc: Option<u16>, props: Vec<u8>) -> Vec<u8> {
    e_composite(0x11, &[rc.map(e_ushort).unwrap_or_else(e_null), e_uint(0), e_uint(1000), e_uint(1000), e_null(), e_null(), e_null(), props])
}
fn h_attach(name: Vec<u8>, handle: u32, role_receiver: bool, props: Vec<u8>) -> Vec<u8> {
    let source = e_composite(0x28, &[e_str("q")]);
    let target = e_composite(0x29, &[e_str("q")]);
    e_composite(
        0x12,
        &[name, e_uint(handle), e_bool(role_receiver), e_null(), e_null(), source, target, e_null(), e_null(), e_uint(0), e_null(), e_null(), e_null(), props],
    )
}
fn h_flow(nii: u32, noi: u32, props: Vec<u8>) -> Vec<u8> {
    e_composite(0x13, &[e_uint(nii), e_uint(1000), e_uint(noi), e_uint(1000), e_null(), e_null(), e_null(), e_null(), e_null(), e_null(), props])
}
fn h_transfer(handle: u32, did: u32, tag: Vec<u8>, state: Vec<u8>) -> Vec<u8> {
    e_composite(0x14, &[e_uint(handle), e_uint(did), tag, e_uint(0), e_null(), e_null(), e_null(), state])
}
fn h_disposition(role_receiver: bool, first: u32, state: Vec<u8>) -> Vec<u8> {
    e_composite(0x15, &[e_bool(role_receiver), e_uint(first), e_null(), e_bool(true), state])
}
fn h_close(info: Vec<u8>) -> Vec<u8> {
    e_composite(0x18, &[e_error(&info)])
}
fn h_rejected(info: Vec<u8>) -> Vec<u8> {
    e_composite(0x25, &[e_error(&info)])
}
fn msg_value(v: &[u8]) -> Vec<u8> {
    let mut o = vec![0x00, 0x53, 0x77];
    o.extend_from_slice(v);
    o
}
fn msg_data(n: usize) -> Vec<u8> {
    let mut o = vec![0x00, 0x53, 0x75];
    o.extend(e_bin(&vec![0x5a; n]));
    o
}
fn frame(ch: u16, body: &[u8]) -> Vec<u8> {
    raw_frame(ch, 2, 0, body)
}

// ------------------------------------------------------------------------------------------
// valid peer frames
// ------------------------------------------------------------------------------------------

fn p_attach(name: &str, handle: u32, role: Role) -> Performative {
    Performative::Attach(Attach {
        name: name.into(),
        handle: handle.into(),
        role: role.clone(),
        snd_settle_mode: SenderSettleMode::Mixed,
        rcv_settle_mode: ReceiverSettleMode::First,
        source: Some(Box::new(Source::builder().address("q").build())),
        target: Some(Box::new(Target::builder().address("q").build().into())),
        unsettled: None,
        incomplete_unsettled: false,
        initial_delivery_count: if matches!(role, Role::Sender) { Some(0) } else { None },
        max_message_size: None,
        offered_capabilities: None,
        desired_capabilities: None,
        properties: None,
    })
}
fn p_transfer(handle: u32, did: Option<u32>, tag: Option<u32>, more: bool, aborted: bool) -> Performative {
    Performative::Transfer(Transfer {
        handle: handle.into(),
        delivery_id: did,
        delivery_tag: tag.map(|t| Binary::from(t.to_be_bytes().to_vec())),
        message_format: if did.is_some() { Some(0) } else { None },
        settled: None,
        more,
        rcv_settle_mode: None,
        state: None,
        resume: false,
        aborted,
        batchable: false,
    })
}
fn p_disposition(role: Role, first: u32, last: Option<u32>, settled: bool) -> Performative {
    Performative::Disposition(Disposition { role, first, last, settled, state: Some(DeliveryState::Accepted(Accepted {})), batchable: false })
}
fn p_detach(handle: u32, closed: bool) -> Performative {
    Performative::Detach(Detach { handle: handle.into(), closed, error: None })
}
#[allow(clippy::too_many_arguments)]
fn p_flow(nii: Option<u32>, iw: u32, noi: u32, ow: u32, handle: Option<u32>, dc: Option<u32>, credit: Option<u32>, echo: bool) -> Performative {
    Performative::Flow(Flow {
        next_incoming_id: nii,
        incoming_window: iw,
        next_outgoing_id: noi,
        outgoing_window: ow,
        handle: handle.map(Into::into),
        delivery_count: dc,
        link_credit: credit,
        available: if handle.is_some() { Some(0) } else { None },
        drain: false,
        echo,
        properties: None,
    })
}
fn small_message() -> Vec<u8> {
    crate::rx::message_bytes(1)
}

// ------------------------------------------------------------------------------------------
// a second, well-behaved connection in the same runtime
// ------------------------------------------------------------------------------------------

struct Other {
    go: Arc<tokio::sync::Notify>,
    done: Arc<tokio::sync::Notify>,
    cli: JoinHandle<String>,
    srv: JoinHandle<String>,
}
impl Other {
    async fn start() -> Other {
        let (a, b) = tokio::io::duplex(1 << 16);
        let go = Arc::new(tokio::sync::Notify::new());
        let done = Arc::new(tokio::sync::Notify::new());
        let done2 = done.clone();
        let srv = tokio::spawn(async move {
            let acc = ConnectionAcceptor::new("ol");
            let mut conn = match acc.accept(b).await {
                Ok(c) => c,
                Err(e) => return format!("accept:{}", ename(&e)),
            };
            let mut sess = match SessionAcceptor::new().accept(&mut conn).await {
                Ok(s) => s,
                Err(e) => return format!("accept-session:{}", ename(&e)),
            };
            let mut rcv = match LinkAcceptor::new().accept(&mut sess).await {
                Ok(LinkEndpoint::Receiver(r)) => r,
                Ok(_) => return "accept-link:sender?".to_string(),
                Err(e) => return format!("accept-link:{}", ename(&e)),
            };
            let r = match rcv.recv::<Body<Value>>().await {
                Ok(d) => match rcv.accept(&d).await {
                    Ok(()) => "ok".to_string(),
                    Err(e) => format!("accept:{}", ename(&e)),
                },
                Err(e) => format!("recv:{}", ename(&e)),
            };
            done2.notified().await;
            drop((rcv, sess, conn));
            r
        });
        let go2 = go.clone();
        let cli = tokio::spawn(async move {
            let mut conn = match Connection::builder().container_id("oc").open_with_stream(a).await {
                Ok(c) => c,
                Err(e) => return format!("open:{}", ename(&e)),
            };
            let mut sess = match Session::begin(&mut conn).await {
                Ok(s) => s,
                Err(e) => return format!("begin:{}", ename(&e)),
            };
            let mut snd = match Sender::attach(&mut sess, "os", "q").await {
                Ok(s) => s,
                Err(e) => return format!("attach:{}", ename(&e)),
            };
            go2.notified().await;
            let r = match snd.send("other").await {
                Ok(o) => {
                    if o.is_accepted() {
                        "ok".to_string()
                    } else {
                        format!("send:{}", ename(&o))
                    }
                }
                Err(e) => format!("send:{}", ename(&e)),
            };
            drop((snd, sess, conn));
            r
        });
        // let the two library endpoints set themselves up
        for _ in 0..6 {
            barrier().await;
        }
        Other { go, done, cli, srv }
    }
    async fn check(self) -> String {
        self.go.notify_one();
        let c = match tokio::time::timeout(Duration::from_secs(30), self.cli).await {
            Ok(Ok(s)) => s,
            Ok(Err(_)) => "PANIC".to_string(),
            Err(_) => "PENDING".to_string(),
        };
        self.done.notify_one();
        let s = match tokio::time::timeout(Duration::from_secs(30), self.srv).await {
            Ok(Ok(s)) => s,
            Ok(Err(_)) => "PANIC".to_string(),
            Err(_) => "PENDING".to_string(),
        };
        if c == "ok" && s == "ok" {
            "ok".to_string()
        } else {
            format!("FAILED(client:{},listener:{})", c, s)
        }
    }
}

// ------------------------------------------------------------------------------------------
// the stimulus
// ------------------------------------------------------------------------------------------

#[derive(Default, Debug)]
struct Stim {
    chunks: Vec<Vec<u8>>,
    n_frames: usize,
    /// well-formed transfer frames on the peer's channel (they advance the session's transfer-ids)
    transfers: u32,
    /// delivery-ids used up
    dids: u32,
    /// deliveries completed on the link where the endpoint is the receiver
    r_deliveries: u32,
    /// Some(x): afterwards a delivery is (x = true) / is not (x = false) in progress on that link
    partial: Option<bool>,
    closes_s: bool,
    closes_r: bool,
    closes_sess: bool,
    closes_conn: bool,
    sends_open: bool,
    begins: bool,
    attaches_s: bool,
    /// the stimulus carries a disposition that settles what the endpoint has sent
    settles_ep: bool,
    /// the last frame of the stimulus is not complete: whatever the peer writes next becomes part of it
    incomplete: bool,
    /// names of further links the peer attaches, with the peer's handle
    attaches: Vec<(String, u32)>,
}
impl Stim {
    fn one(mut self, b: Vec<u8>) -> Self {
        self.chunks.push(b);
        self.n_frames += 1;
        self
    }
}

/// max-frame-size the endpoint must announce for the stimulus to be a single acceptable frame
fn mfs_for(stim: &str) -> u32 {
    let p: Vec<&str> = stim.split(':').collect();
    if (p[0] == "nest8" || p[0] == "nest32") && p.len() == 3 && p[2] != "msg" {
        let depth: usize = p[1].parse().unwrap_or(0);
        let need = depth * if p[0] == "nest8" { 3 } else { 9 } + 200;
        if need > MFS as usize {
            return (need as u32).next_power_of_two().max(MFS);
        }
    }
    MFS
}

/// stimuli that may kill or stall the process: they are only run in a child process
pub fn risky(stim: &str) -> bool {
    let p: Vec<&str> = stim.split(':').collect();
    matches!(p[0], "nest8" | "nest32" | "disp-huge" | "array" | "huge" | "count" | "raw" | "disp-big")
}

// ------------------------------------------------------------------------------------------
// the driver: the scripted peer and its view of the conversation
// ------------------------------------------------------------------------------------------

#[derive(Default, Clone, Debug)]
pub struct Meas {
    pub ms: u128,
    pub peak: usize,
    pub stim_bytes: usize,
    pub frames_out: usize,
    pub bytes_out: usize,
}

struct Drv {
    case: Case,
    mfs: u32,
    peer: Peer,
    log: Log,
    reg: Reg,
    seg: Vec<String>,
    seg_eof: bool,
    bytes_out: usize,
    frames_out: usize,
    ep_link_by_handle: HashMap<u32, String>,
    peer_handle_by_name: HashMap<String, u32>,
    got_transfers: u32,
    s_deliveries: u32,
    ep_unsettled: Vec<u32>,
    cur_ep_did: Option<u32>,
    last_ep_did: Option<u32>,
    sent_transfers: u32,
    next_did: u32,
    r_dc: u32,
    r_credit: Option<(u32, u32)>,
    partial: bool,
    ep_detached: BTreeMap<String, bool>,
    ep_end: bool,
    ep_close: bool,
    ep_wrote_close_ever: bool,
    peer_detached: BTreeSet<String>,
    peer_end: bool,
    peer_close: bool,
    peer_open: bool,
    peer_begun: bool,
    peer_attached_s: bool,
    peer_attached_r: bool,
    dispositions_sent: u32,
    write_blocked: bool,
    eof_reported: bool,
}

fn rle(toks: &[String]) -> String {
    let mut out: Vec<String> = Vec::new();
    let mut i = 0;
    while i < toks.len() {
        let mut j = i;
        while j < toks.len() && toks[j] == toks[i] {
            j += 1;
        }
        if j - i > 2 {
            out.push(format!("{}*{}", toks[i], j - i));
        } else {
            for _ in i..j {
                out.push(toks[i].clone());
            }
        }
        i = j;
    }
    if out.is_empty() {
        "-".to_string()
    } else {
        out.join(",")
    }
}

impl Drv {
    fn new(case: &Case, mfs: u32, peer: Peer) -> Drv {
        let mut peer_handle_by_name = HashMap::new();
        peer_handle_by_name.insert("s".to_string(), PH_S);
        peer_handle_by_name.insert("r".to_string(), PH_R);
        Drv {
            case: case.clone(),
            mfs,
            peer,
            log: Log::default(),
            reg: Reg::default(),
            seg: Vec::new(),
            seg_eof: false,
            bytes_out: 0,
            frames_out: 0,
            ep_link_by_handle: HashMap::new(),
            peer_handle_by_name,
            got_transfers: 0,
            s_deliveries: 0,
            ep_unsettled: Vec::new(),
            cur_ep_did: None,
            last_ep_did: None,
            sent_transfers: 0,
            next_did: 0,
            r_dc: 0,
            r_credit: None,
            partial: false,
            ep_detached: BTreeMap::new(),
            ep_end: false,
            ep_close: false,
            ep_wrote_close_ever: false,
            peer_detached: BTreeSet::new(),
            peer_end: false,
            peer_close: false,
            peer_open: false,
            peer_begun: false,
            peer_attached_s: false,
            peer_attached_r: false,
            dispositions_sent: 0,
            write_blocked: false,
            eof_reported: false,
        }
    }

    fn link_of(&self, h: u32) -> String {
        self.ep_link_by_handle.get(&h).cloned().unwrap_or_else(|| format!("h{}", h))
    }

    fn tok(&self, w: &Wire) -> String {
        match w {
            Wire::Frame { perf, payload, .. } => match perf {
                Performative::Attach(a) => format!("A[{}]{}", a.name, if matches!(a.role, Role::Sender) { "s" } else { "r" }),
                Performative::Detach(d) => format!(
                    "D[{}]{}{}",
                    self.link_of(d.handle.0),
                    if d.closed { "c" } else { "" },
                    d.error.as_ref().map(|e| format!("e({})", cond(&e.condition))).unwrap_or_default()
                ),
                Performative::Flow(f) => match &f.handle {
                    Some(h) => format!("F[{}]c{}", self.link_of(h.0), f.link_credit.map(|c| c.to_string()).unwrap_or("-".into())),
                    None => "F".to_string(),
                },
                Performative::Transfer(t) => format!("T[{}]{}p{}", self.link_of(t.handle.0), if t.more { "m" } else { "" }, payload.len()),
                _ => wire_token(w),
            },
            _ => wire_token(w),
        }
    }

    fn note(&mut self, w: &Wire) {
        if let Wire::Frame { perf, .. } = w {
            match perf {
                Performative::Attach(a) => {
                    self.ep_link_by_handle.insert(a.handle.0, a.name.clone());
                }
                Performative::Transfer(t) => {
                    self.got_transfers = self.got_transfers.wrapping_add(1);
                    if self.cur_ep_did.is_none() {
                        self.s_deliveries = self.s_deliveries.wrapping_add(1);
                        self.cur_ep_did = Some(t.delivery_id.unwrap_or(0));
                        self.last_ep_did = self.cur_ep_did;
                    }
                    if !t.more {
                        if t.settled != Some(true) {
                            if let Some(d) = self.cur_ep_did {
                                self.ep_unsettled.push(d);
                            }
                        }
                        self.cur_ep_did = None;
                    }
                }
                Performative::Flow(f) => {
                    if let Some(h) = &f.handle {
                        if self.link_of(h.0) == "r" {
                            self.r_credit = Some((f.delivery_count.unwrap_or(0), f.link_credit.unwrap_or(0)));
                        }
                    }
                }
                Performative::Detach(d) => {
                    let name = self.link_of(d.handle.0);
                    self.ep_detached.insert(name, d.closed);
                }
                Performative::End(_) => self.ep_end = true,
                Performative::Close(_) => {
                    self.ep_close = true;
                    self.ep_wrote_close_ever = true;
                }
                _ => {}
            }
        }
    }

    async fn drain(&mut self) -> Vec<Wire> {
        let mut out = Vec::new();
        loop {
            let mut tmp = vec![0u8; 65536];
            match tokio::time::timeout(Duration::from_micros(1), self.peer.io.read(&mut tmp)).await {
                Ok(Ok(0)) | Ok(Err(_)) => {
                    self.peer.eof = true;
                    break;
                }
                Ok(Ok(n)) => {
                    self.bytes_out += n;
                    out.extend(self.peer.parser.feed(&tmp[..n]));
                }
                Err(_) => break,
            }
        }
        out
    }

    /// wait until everything that can happen has happened, then look at what the endpoint wrote
    async fn observe(&mut self) {
        barrier().await;
        let ws = self.drain().await;
        self.frames_out += ws.len();
        for w in &ws {
            let t = self.tok(w);
            self.note(w);
            // the token is computed before the attach is noted only for the attach itself
            self.seg.push(if let Wire::Frame { perf: Performative::Attach(_), .. } = w { self.tok(w) } else { t });
        }
        if self.peer.eof && !self.eof_reported {
            self.eof_reported = true;
            self.seg_eof = true;
        }
    }

    fn segment(&mut self, name: &str) -> String {
        let s = format!(
            "{}:w={} a={} eof={}",
            name,
            rle(&self.seg),
            {
                // per task in order; the order between tasks woken at the same instant is not canonical
                let mut a = self.log.take_new();
                a.sort_by(|x, y| x.split('.').next().cmp(&y.split('.').next()));
                if a.is_empty() {
                    "-".to_string()
                } else {
                    rle(&a)
                }
            },
            self.seg_eof as u8
        );
        self.seg.clear();
        self.seg_eof = false;
        s
    }

    async fn w(&mut self, b: &[u8]) -> bool {
        match tokio::time::timeout(Duration::from_secs(5), self.peer.io.write_all(b)).await {
            Ok(Ok(())) => true,
            Ok(Err(_)) => false,
            Err(_) => {
                self.write_blocked = true;
                false
            }
        }
    }
    async fn wp(&mut self, ch: u16, p: &Performative) -> bool {
        let b = frame_bytes(ch, p, &[]);
        self.w(&b).await
    }

    fn cmd_conn(&self, c: ConnCmd) -> bool {
        match &self.reg.0.lock().unwrap().conn {
            Some(tx) => tx.send(c).is_ok(),
            None => false,
        }
    }
    fn cmd_sess(&self, c: SessCmd) -> bool {
        match &self.reg.0.lock().unwrap().sess {
            Some(tx) => tx.send(c).is_ok(),
            None => false,
        }
    }
    fn cmd_link(&self, name: &str, c: LinkCmd) -> bool {
        match self.reg.0.lock().unwrap().links.get(name) {
            Some(tx) => tx.send(c).is_ok(),
            None => false,
        }
    }
    fn logged(&self, entry: &str) -> bool {
        self.log.all().iter().any(|e| e == entry)
    }

    fn link_flow_s(&self, credit: u32, echo: bool) -> Performative {
        p_flow(Some(self.got_transfers), 1000, self.sent_transfers, 1000, Some(PH_S), Some(self.s_deliveries), Some(credit), echo)
    }

    /// one complete or partial transfer frame on the link where the endpoint receives
    async fn send_r_frame(&mut self, payload: &[u8], first: bool, more: bool) {
        let (did, tag) = if first { (Some(self.next_did), Some(self.next_did)) } else { (None, None) };
        let b = frame_bytes(PCH, &p_transfer(PH_R, did, tag, more, false), payload);
        self.w(&b).await;
        self.sent_transfers = self.sent_transfers.wrapping_add(1);
        if first {
            self.next_did = self.next_did.wrapping_add(1);
        }
        self.partial = more;
        if !more {
            self.r_dc = self.r_dc.wrapping_add(1);
        }
    }

    // -------------------------------- prelude --------------------------------

    async fn prelude(&mut self, io: tokio::io::DuplexStream) -> Result<(), String> {
        let state = self.case.state;
        let client = self.case.side == Side::Client;
        let (tx, rx) = mpsc::unbounded_channel();
        self.reg.0.lock().unwrap().conn = Some(tx);
        if client {
            self.reg.spawn("c", client_conn_task(io, self.mfs, self.log.clone(), self.reg.clone(), rx));
        } else {
            self.reg.spawn("c", listener_conn_task(io, self.mfs, self.log.clone(), self.reg.clone(), rx));
        }
        self.observe().await;
        self.w(&AMQP_HEADER).await;
        self.observe().await;
        if !self.seg.iter().any(|t| t == "O") {
            return Err(format!("no open written: {}", rle(&self.seg)));
        }
        if state == State::Hdr {
            return Ok(());
        }
        self.wp(0, &peer_open(None, 10, 65536)).await;
        self.peer_open = true;
        self.observe().await;
        if !self.logged(if client { "c.open=Ok" } else { "c.accept=Ok" }) {
            return Err("open failed".into());
        }
        if state == State::Open {
            return Ok(());
        }
        if client {
            self.cmd_conn(ConnCmd::Begin);
            self.observe().await;
            if state == State::BSent {
                return Ok(());
            }
            self.wp(PCH, &peer_begin(Some(0))).await;
            self.peer_begun = true;
            self.observe().await;
            if !self.logged("c.begin=Ok") {
                return Err("begin failed".into());
            }
        } else {
            if state == State::BSent || state == State::ASent {
                return Err("state not available on the listener side".into());
            }
            self.wp(PCH, &peer_begin(None)).await;
            self.peer_begun = true;
            self.observe().await;
            if !self.logged("c.accept-session=Ok") {
                return Err("accept-session failed".into());
            }
        }
        if state == State::Begun {
            return Ok(());
        }
        if state.has_s() || state == State::ASent {
            if client {
                self.cmd_sess(SessCmd::AttachSender);
                self.observe().await;
                if state == State::ASent {
                    return Ok(());
                }
                self.wp(PCH, &p_attach("s", PH_S, Role::Receiver)).await;
                self.peer_attached_s = true;
                self.observe().await;
                if !self.logged("k.attach-s=Ok") {
                    return Err("attach-s failed".into());
                }
            } else {
                self.wp(PCH, &p_attach("s", PH_S, Role::Receiver)).await;
                self.peer_attached_s = true;
                self.observe().await;
                if !self.logged("k.accept-link=Ok(sender)") {
                    return Err(format!("accept-link(sender) failed: {:?}", self.log.all()));
                }
            }
        }
        if state.has_r() {
            if client {
                self.cmd_sess(SessCmd::AttachReceiver);
                self.observe().await;
                self.wp(PCH, &p_attach("r", PH_R, Role::Sender)).await;
                self.peer_attached_r = true;
                self.observe().await;
                if !self.logged("k.attach-r=Ok") {
                    return Err("attach-r failed".into());
                }
            } else {
                self.wp(PCH, &p_attach("r", PH_R, Role::Sender)).await;
                self.peer_attached_r = true;
                self.observe().await;
                if !self.logged("k.accept-link=Ok(receiver)") {
                    return Err(format!("accept-link(receiver) failed: {:?}", self.log.all()));
                }
            }
            if self.r_credit.map(|c| c.1).unwrap_or(0) == 0 {
                return Err("no credit granted".into());
            }
        }
        match state {
            State::Snd => {
                self.cmd_link("s", LinkCmd::Send);
                self.observe().await;
                if !self.log.is_pending("s") {
                    return Err("send is not pending".into());
                }
            }
            State::Unsettled => {
                let f = self.link_flow_s(10, false);
                self.wp(PCH, &f).await;
                self.cmd_link("s", LinkCmd::Send);
                self.observe().await;
                if self.ep_unsettled.is_empty() || !self.log.is_pending("s") {
                    return Err("no unsettled delivery".into());
                }
            }
            State::Both | State::DSent | State::ESent | State::CSent => {
                let f = self.link_flow_s(10, false);
                self.wp(PCH, &f).await;
                self.observe().await;
                match state {
                    State::DSent => {
                        self.cmd_link("s", LinkCmd::Close);
                        self.observe().await;
                        if !self.ep_detached.contains_key("s") {
                            return Err("no detach written".into());
                        }
                    }
                    State::ESent => {
                        self.cmd_sess(SessCmd::End);
                        self.observe().await;
                        if !self.ep_end {
                            return Err("no end written".into());
                        }
                    }
                    State::CSent => {
                        self.cmd_conn(ConnCmd::Close);
                        self.observe().await;
                        if !self.ep_close {
                            return Err("no close written".into());
                        }
                    }
                    _ => {}
                }
            }
            State::Mid => {
                let m = small_message();
                let half = m.len() / 2;
                self.send_r_frame(&m[..half], true, true).await;
                self.observe().await;
            }
            _ => {}
        }
        Ok(())
    }

    // -------------------------------- after the stimulus --------------------------------

    fn conn_dead(&self) -> bool {
        self.peer.eof || self.peer_close
    }
    fn session_usable(&self) -> bool {
        self.peer_begun && !self.peer_end && !self.conn_dead()
    }
    fn link_usable(&self, name: &str) -> bool {
        let attached = if name == "s" { self.peer_attached_s } else { self.peer_attached_r };
        attached && self.session_usable() && !self.peer_detached.contains(name)
    }

    /// the well-behaved peer answers what the endpoint has started: detach, end, close; and settles what it was sent
    async fn answers(&mut self) {
        for _ in 0..8 {
            let mut wrote = false;
            if self.conn_dead() {
                break;
            }
            if self.session_usable() {
                if !self.ep_unsettled.is_empty() && self.link_usable("s") && !self.ep_detached.contains_key("s") {
                    let ids = std::mem::take(&mut self.ep_unsettled);
                    for d in ids {
                        self.wp(PCH, &p_disposition(Role::Receiver, d, None, true)).await;
                        self.dispositions_sent += 1;
                    }
                    wrote = true;
                }
                let det: Vec<(String, bool)> = self.ep_detached.iter().map(|(a, b)| (a.clone(), *b)).collect();
                for (name, closed) in det {
                    if !self.peer_detached.contains(&name) {
                        if let Some(h) = self.peer_handle_by_name.get(&name).cloned() {
                            self.wp(PCH, &p_detach(h, closed)).await;
                            wrote = true;
                        }
                        self.peer_detached.insert(name);
                    }
                }
                if self.ep_end {
                    self.wp(PCH, &peer_end(false)).await;
                    self.peer_end = true;
                    wrote = true;
                }
            }
            if self.ep_close && !self.peer_close {
                self.wp(0, &peer_close(false)).await;
                self.peer_close = true;
                wrote = true;
            }
            if !wrote {
                break;
            }
            self.observe().await;
        }
    }

    /// valid traffic after the stimulus: complete the handshakes, a delivery in each direction
    async fn probe(&mut self) -> (String, String) {
        let client = self.case.side == Side::Client;
        if !self.peer_open && !self.conn_dead() {
            self.wp(0, &peer_open(None, 10, 65536)).await;
            self.peer_open = true;
            self.observe().await;
        }
        if self.case.state == State::BSent && !self.peer_begun && !self.conn_dead() {
            self.wp(PCH, &peer_begin(Some(0))).await;
            self.peer_begun = true;
            self.observe().await;
        }
        if self.case.state == State::ASent && !self.peer_attached_s && self.session_usable() && client {
            self.wp(PCH, &p_attach("s", PH_S, Role::Receiver)).await;
            self.peer_attached_s = true;
            self.observe().await;
        }
        self.answers().await;
        let mut r = "-".to_string();
        let mut s = "-".to_string();
        if !self.session_usable() || self.ep_end || self.ep_close {
            return (r, s);
        }
        let s_live = self.link_usable("s") && !self.ep_detached.contains_key("s") && self.case.state != State::DSent;
        let r_live = self.link_usable("r") && !self.ep_detached.contains_key("r");
        let s_ok_before = self.log.count("s.send=Ok");
        // a sane view of the session windows, and credit for the endpoint's sender
        let f = if s_live { self.link_flow_s(10, false) } else { p_flow(Some(self.got_transfers), 1000, self.sent_transfers, 1000, None, None, None, false) };
        self.wp(PCH, &f).await;
        self.observe().await;
        self.answers().await;
        if r_live && self.link_usable("r") && !self.ep_detached.contains_key("r") && !self.ep_end && !self.ep_close {
            let m = small_message();
            if self.partial {
                let half = m.len() / 2;
                self.send_r_frame(&m[half..], false, false).await;
                self.observe().await;
            }
            let before = self.log.count("r.recv=Ok");
            let avail = self.r_credit.map(|(dc, c)| dc.wrapping_add(c).wrapping_sub(self.r_dc)).unwrap_or(0);
            if avail == 0 || avail > 0x8000_0000 {
                r = "nocredit".to_string();
            } else {
                self.send_r_frame(&m, true, false).await;
                self.observe().await;
                self.answers().await;
                r = if self.log.count("r.recv=Ok") > before { "ok".to_string() } else { "FAIL".to_string() };
            }
        }
        if s_live && self.link_usable("s") && !self.ep_detached.contains_key("s") && !self.ep_end && !self.ep_close {
            if !self.log.is_pending("s") && self.log.count("s.send=Ok") == s_ok_before {
                self.cmd_link("s", LinkCmd::Send);
                self.observe().await;
                self.answers().await;
            }
            s = if self.log.count("s.send=Ok") > s_ok_before { "ok".to_string() } else { "FAIL".to_string() };
        }
        (r, s)
    }

    /// the next call on an idle sender (modes without a probe)
    async fn next_calls(&mut self) {
        if self.case.state != State::DSent && !self.log.is_pending("s") && self.cmd_link("s", LinkCmd::Send) {
            self.observe().await;
        }
    }

    /// the application winds down bottom-up: links, session, connection
    async fn wind(&mut self, nice: bool) {
        let links: Vec<String> = self.reg.0.lock().unwrap().links.keys().cloned().collect();
        for l in links {
            self.cmd_link(&l, LinkCmd::Close);
        }
        self.observe().await;
        if nice {
            self.answers().await;
        }
        if self.cmd_sess(SessCmd::End) {
            self.observe().await;
            if nice {
                self.answers().await;
            }
        }
        if self.cmd_conn(ConnCmd::Close) {
            self.observe().await;
            if nice {
                self.answers().await;
            }
        }
    }
}

// ------------------------------------------------------------------------------------------
// the catalogue of stimuli
// ------------------------------------------------------------------------------------------

fn perf_code(name: &str) -> Option<u8> {
    Some(match name {
        "open" => 0x10,
        "begin" => 0x11,
        "attach" => 0x12,
        "flow" => 0x13,
        "transfer" => 0x14,
        "disposition" => 0x15,
        "detach" => 0x16,
        "end" => 0x17,
        "close" => 0x18,
        _ => return None,
    })
}

impl Drv {
    /// the encoding of a valid performative of the given kind, as the peer would send it now
    fn valid_perf(&self, kind: &str) -> Option<Vec<u8>> {
        let client = self.case.side == Side::Client;
        let p = match kind {
            "open" => peer_open(None, 10, 65536),
            "begin" => peer_begin(if client { Some(0) } else { None }),
            "attach" => p_attach("s", PH_S, Role::Receiver),
            "flow" => p_flow(Some(self.got_transfers), 1000, self.sent_transfers, 1000, None, None, None, false),
            "transfer" => p_transfer(PH_R, Some(self.next_did), Some(self.next_did), false, false),
            "disposition" => p_disposition(Role::Receiver, self.last_ep_did.unwrap_or(0), None, true),
            "detach" => p_detach(PH_S, true),
            "end" => peer_end(false),
            "close" => peer_close(false),
            _ => return None,
        };
        serde_amqp::to_vec(&p).ok()
    }

    /// a valid frame body that fits the state (used where only the frame header is hostile)
    fn neutral_body(&self, st: &mut Stim) -> Vec<u8> {
        let client = self.case.side == Side::Client;
        match self.case.state {
            State::Hdr => {
                st.sends_open = true;
                self.valid_perf("open").unwrap()
            }
            State::Open | State::BSent => {
                st.begins = (client && self.case.state == State::BSent) || (!client && self.case.state == State::Open);
                self.valid_perf("begin").unwrap()
            }
            _ => self.valid_perf("flow").unwrap(),
        }
    }

    /// a valid frame of exactly `total` bytes that fits the state
    fn padded_frame(&self, total: usize, st: &mut Stim) -> Vec<u8> {
        let client = self.case.side == Side::Client;
        let build = |k: usize, st: &mut Stim| -> Vec<u8> {
            let props = e_map1("pad", &e_bin(&vec![0u8; k]));
            match self.case.state {
                State::Hdr => {
                    st.sends_open = true;
                    frame(0, &h_open(e_str("peer"), e_null(), props, e_null()))
                }
                State::Open | State::BSent => {
                    st.begins = (client && self.case.state == State::BSent) || (!client && self.case.state == State::Open);
                    frame(PCH, &h_begin(if client { Some(0) } else { None }, props))
                }
                _ => frame(PCH, &h_flow(self.got_transfers, self.sent_transfers, props)),
            }
        };
        let base = build(300, st).len() - 300;
        build(total.saturating_sub(base).max(256), st)
    }

    fn build_stim(&self, name: &str) -> Result<Stim, String> {
        let mut st = Stim::default();
        let client = self.case.side == Side::Client;
        let p: Vec<&str> = name.split(':').collect();
        let arg = |i: usize| -> Result<&str, String> { p.get(i).cloned().ok_or_else(|| format!("stimulus {} lacks parameter {}", name, i)) };
        let num = |i: usize| -> Result<u64, String> { arg(i)?.parse::<u64>().map_err(|_| format!("bad number in {}", name)) };
        let did = self.next_did;
        let msg = small_message();
        let nest = |kind: &str, depth: usize| if kind == "nest8" { nest8(depth) } else { nest32(depth) };
        match p[0] {
            "none" => {}
            "raw" => {
                let b = unhex(arg(1)?).ok_or("bad hex")?;
                derive_view(&b, self, &mut st, true);
                let mut pos = 0usize;
                while pos < b.len() {
                    if pos + 4 > b.len() {
                        st.incomplete = true;
                        break;
                    }
                    let size = u32::from_be_bytes([b[pos], b[pos + 1], b[pos + 2], b[pos + 3]]) as usize;
                    if size < 8 || size > self.mfs as usize {
                        break; // refused as soon as the size is seen
                    }
                    if pos + size > b.len() {
                        st.incomplete = true;
                        break;
                    }
                    pos += size;
                }
                st.chunks.push(b);
                st.n_frames = st.n_frames.max(1);
            }
            "size" => {
                let a = arg(1)?;
                let n: u64 = match a {
                    "max" => self.mfs as u64,
                    "max+1" => self.mfs as u64 + 1,
                    _ => num(1)?,
                };
                let b = if a == "max" || a == "max+1" {
                    self.padded_frame(n as usize, &mut st)
                } else if n == 8 {
                    empty_frame()
                } else {
                    let mut b = (n as u32).to_be_bytes().to_vec();
                    b.extend_from_slice(&[2, 0]);
                    b.extend_from_slice(&PCH.to_be_bytes());
                    if n == 9 {
                        b.push(0);
                    } else if n > 9 {
                        b.extend_from_slice(&[0x5a; 64]);
                    }
                    b
                };
                st = st.one(b);
            }
            "doff" => {
                let d = num(1)? as u8;
                let mut body = Vec::new();
                if d >= 3 && d < 10 {
                    body.extend(vec![0u8; (d as usize - 2) * 4]);
                }
                body.extend(self.neutral_body(&mut st));
                let ch = if self.case.state == State::Hdr { 0 } else { PCH };
                st = st.one(raw_frame(ch, d, 0, &body));
            }
            "ftype" => {
                let t = num(1)? as u8;
                let body = self.neutral_body(&mut st);
                let ch = if self.case.state == State::Hdr { 0 } else { PCH };
                st = st.one(raw_frame(ch, 2, t, &body));
            }
            "sasl" => {
                st = st.one(raw_frame(0, 2, 1, &e_composite(0x41, &[e_sym("ANONYMOUS")])));
            }
            "header-again" => {
                st = st.one(AMQP_HEADER.to_vec());
            }
            "rand" => {
                let mut r = Rng::new(num(1)?);
                let b = r.bytes(num(2)? as usize);
                st = st.one(frame(PCH, &b));
            }
            "trunc" => {
                let v = self.valid_perf(arg(1)?).ok_or("unknown performative")?;
                let k = match arg(2)? {
                    "half" => v.len() / 2,
                    "last" => v.len() - 1,
                    _ => (num(2)? as usize).min(v.len()),
                };
                st = st.one(frame(if arg(1)? == "open" || arg(1)? == "close" { 0 } else { PCH }, &v[..k]));
            }
            "garbage" => {
                let kind = arg(1)?;
                let mut v = self.valid_perf(kind).ok_or("unknown performative")?;
                v.extend_from_slice(&[0xee; 16]);
                match kind {
                    "open" => st.sends_open = true,
                    "close" => st.closes_conn = true,
                    "end" => st.closes_sess = true,
                    "detach" => st.closes_s = true,
                    "begin" => st.begins = (client && self.case.state == State::BSent) || (!client && self.case.state == State::Open),
                    _ => {}
                }
                st = st.one(frame(if kind == "open" || kind == "close" { 0 } else { PCH }, &v));
            }
            "unkdesc" => {
                let b: Vec<u8> = match arg(1)? {
                    "ulong" => vec![0x00, 0x53, 0x99, 0x45],
                    "sym" => vec![0x00, 0xa3, 0x03, b'f', b'o', b'o', 0x45],
                    "ulong64" => vec![0x00, 0x80, 0, 0, 0, 0, 0, 0, 0, 0x99, 0x45],
                    "nodesc" => vec![0x45],
                    _ => return Err("unknown unkdesc".into()),
                };
                st = st.one(frame(PCH, &b));
            }
            "count" | "count8" => {
                let code = perf_code(arg(1)?).ok_or("unknown performative")?;
                let mut b = vec![0x00, 0x53, code];
                if p[0] == "count" {
                    b.extend_from_slice(&[0xd0, 0, 0, 0, 0x10, 0xff, 0xff, 0xff, 0xff]);
                    b.extend_from_slice(&[0x40; 12]);
                } else {
                    b.extend_from_slice(&[0xc0, 0x03, 0xff, 0x40, 0x40]);
                }
                st = st.one(frame(if code == 0x10 { 0 } else { PCH }, &b));
            }
            "nest8" | "nest32" | "array" | "huge" | "mapodd" => {
                let (value, place): (Vec<u8>, &str) = match p[0] {
                    "nest8" | "nest32" => (nest(p[0], num(1)? as usize), arg(2)?),
                    "array" => (vec![0xf0, 0, 0, 0, 5, 0xff, 0xff, 0xff, 0xff, 0x40], arg(1)?),
                    "mapodd" => (vec![0xc1, 0x02, 0x01, 0x40], arg(1)?),
                    _ => match arg(1)? {
                        "bin" => (vec![0xb0, 0xff, 0xff, 0xff, 0xf0], arg(2)?),
                        "str" => (vec![0xb1, 0xff, 0xff, 0xff, 0xf0], arg(2)?),
                        "sym" => (vec![0xb3, 0xff, 0xff, 0xff, 0xf0], arg(2)?),
                        "list" => (vec![0xd0, 0xff, 0xff, 0xff, 0xf0, 0xff, 0xff, 0xff, 0xf0], arg(2)?),
                        "map" => (vec![0xd1, 0xff, 0xff, 0xff, 0xf0, 0xff, 0xff, 0xff, 0xf0], arg(2)?),
                        "array" => (vec![0xf0, 0xff, 0xff, 0xff, 0xf0, 0xff, 0xff, 0xff, 0xf0, 0x40], arg(2)?),
                        _ => return Err("unknown huge kind".into()),
                    },
                };
                let as_map = e_map1("k", &value);
                match place {
                    "open-props" => {
                        st.sends_open = true;
                        st = st.one(frame(0, &h_open(e_str("peer"), e_null(), as_map, e_null())));
                    }
                    "open-caps" => {
                        st.sends_open = true;
                        st = st.one(frame(0, &h_open(e_str("peer"), value, e_null(), e_null())));
                    }
                    "open-cid" => {
                        st.sends_open = true;
                        st = st.one(frame(0, &h_open(value, e_null(), e_null(), e_null())));
                    }
                    "begin-props" => {
                        st.begins = (client && self.case.state == State::BSent) || (!client && self.case.state == State::Open);
                        st = st.one(frame(PCH, &h_begin(if client { Some(0) } else { None }, as_map)));
                    }
                    "attach-props" => {
                        st.attaches.push(("n1".to_string(), 9));
                        st = st.one(frame(PCH, &h_attach(e_str("n1"), 9, false, as_map)));
                    }
                    "attach-name" => {
                        st = st.one(frame(PCH, &h_attach(value, 9, false, e_null())));
                    }
                    "flow-props" => {
                        st = st.one(frame(PCH, &h_flow(self.got_transfers, self.sent_transfers, as_map)));
                    }
                    "close-info" => {
                        st.closes_conn = true;
                        st = st.one(frame(0, &h_close(as_map)));
                    }
                    "disp-state" => {
                        st = st.one(frame(PCH, &h_disposition(true, self.last_ep_did.unwrap_or(0), h_rejected(as_map))));
                    }
                    "transfer-state" => {
                        let mut b = h_transfer(PH_R, did, e_bin(&did.to_be_bytes()), h_rejected(as_map));
                        b.extend_from_slice(&msg);
                        st.transfers = 1;
                        st.dids = 1;
                        st.r_deliveries = 1;
                        st = st.one(frame(PCH, &b));
                    }
                    "transfer-tag" => {
                        let mut b = h_transfer(PH_R, did, value, e_null());
                        b.extend_from_slice(&msg);
                        st.transfers = 1;
                        st.dids = 1;
                        st.r_deliveries = 1;
                        st = st.one(frame(PCH, &b));
                    }
                    "msg" => {
                        // the message body is the value; as many transfer frames as the max-frame-size demands
                        let body = msg_value(&value);
                        let chunk = self.mfs as usize - 128;
                        let pieces: Vec<&[u8]> = body.chunks(chunk).collect();
                        let mut all = Vec::new();
                        for (i, piece) in pieces.iter().enumerate() {
                            let first = i == 0;
                            let more = i + 1 < pieces.len();
                            let t = p_transfer(PH_R, if first { Some(did) } else { None }, if first { Some(did) } else { None }, more, false);
                            all.extend(frame_bytes(PCH, &t, piece));
                        }
                        st.transfers = pieces.len() as u32;
                        st.n_frames = pieces.len();
                        st.dids = 1;
                        st.r_deliveries = 1;
                        st.chunks.push(all);
                    }
                    _ => return Err(format!("unknown place {}", place)),
                }
            }
            "open-again" => st = st.one(frame_bytes(0, &peer_open(None, 10, 65536), &[])),
            "open-idle0" => {
                st.sends_open = true;
                st = st.one(frame_bytes(0, &peer_open(Some(0), 10, 65536), &[]));
            }
            "open-idle1" => {
                st.sends_open = true;
                st = st.one(frame_bytes(0, &peer_open(Some(1), 10, 65536), &[]));
            }
            "begin-unmapped" => {
                let rc = if arg(1)? == "-" { None } else { Some(77) };
                st = st.one(frame_bytes(9, &peer_begin(rc), &[]));
            }
            "begin-second" => st = st.one(frame_bytes(PCH, &peer_begin(if client { Some(0) } else { None }), &[])),
            "begin-chmax" => st = st.one(frame_bytes(60000, &peer_begin(None), &[])),
            "end-unmapped" => st = st.one(frame_bytes(9, &peer_end(false), &[])),
            "end-before-begin" => st = st.one(frame_bytes(PCH, &peer_end(false), &[])),
            "attach-unmapped" => st = st.one(frame_bytes(9, &p_attach("zz", 9, Role::Sender), &[])),
            "attach-before-begin" => st = st.one(frame_bytes(PCH, &p_attach("s", PH_S, Role::Receiver), &[])),
            "attach-handle-in-use" => {
                let h = if self.case.state.has_s() { PH_S } else { PH_R };
                st = st.one(frame_bytes(PCH, &p_attach("x", h, Role::Sender), &[]));
            }
            "attach-name-dup" | "attach-name-role" => {
                let (n, role) = if self.case.state.has_s() { ("s", Role::Receiver) } else { ("r", Role::Sender) };
                let role = if p[0] == "attach-name-role" {
                    if matches!(role, Role::Sender) {
                        Role::Receiver
                    } else {
                        Role::Sender
                    }
                } else {
                    role
                };
                st = st.one(frame_bytes(PCH, &p_attach(n, 9, role), &[]));
            }
            "flow-unattached" => st = st.one(frame_bytes(PCH, &p_flow(Some(self.got_transfers), 1000, self.sent_transfers, 1000, Some(99), Some(0), Some(10), false), &[])),
            "flow-before-begin" => st = st.one(frame_bytes(PCH, &p_flow(Some(0), 1000, 0, 1000, None, None, None, false), &[])),
            "flow-huge" => {
                let (mut nii, mut iw, mut dc, mut credit) = (self.got_transfers, 1000u32, self.s_deliveries, 10u32);
                match arg(1)? {
                    "credit" => credit = u32::MAX,
                    "dc" => dc = u32::MAX,
                    "iw" => iw = u32::MAX,
                    "nii-ahead" => nii = nii.wrapping_add(0x7fff_0000),
                    "nii-behind" => nii = nii.wrapping_sub(5),
                    "all" => {
                        nii = u32::MAX;
                        iw = u32::MAX;
                        dc = u32::MAX;
                        credit = u32::MAX;
                    }
                    _ => return Err("unknown flow-huge".into()),
                }
                st = st.one(frame_bytes(PCH, &p_flow(Some(nii), iw, self.sent_transfers, if arg(1)? == "all" { u32::MAX } else { 1000 }, Some(PH_S), Some(dc), Some(credit), false), &[]));
            }
            "flow-rcv-huge" => {
                let f = Performative::Flow(Flow {
                    next_incoming_id: Some(self.got_transfers),
                    incoming_window: 1000,
                    next_outgoing_id: self.sent_transfers,
                    outgoing_window: 1000,
                    handle: Some(PH_R.into()),
                    delivery_count: Some(u32::MAX),
                    link_credit: Some(u32::MAX),
                    available: Some(u32::MAX),
                    drain: true,
                    echo: true,
                    properties: None,
                });
                st = st.one(frame_bytes(PCH, &f, &[]));
            }
            "transfer-unattached" => {
                st.transfers = 1;
                st = st.one(frame_bytes(PCH, &p_transfer(99, Some(did), Some(did), false, false), &msg));
            }
            "transfer-before-begin" => st = st.one(frame_bytes(PCH, &p_transfer(PH_R, Some(0), Some(0), false, false), &msg)),
            "transfer-to-sender" => {
                st.transfers = 1;
                st = st.one(frame_bytes(PCH, &p_transfer(PH_S, Some(did), Some(did), false, false), &msg));
            }
            "transfer-beyond-credit" => {
                let avail = self.r_credit.map(|(dc, c)| dc.wrapping_add(c).wrapping_sub(self.r_dc)).unwrap_or(0).min(1000);
                let n = avail + 3;
                let mut all = Vec::new();
                for i in 0..n {
                    all.extend(frame_bytes(PCH, &p_transfer(PH_R, Some(did + i), Some(did + i), false, false), &msg));
                }
                st.transfers = n;
                st.dids = n;
                st.r_deliveries = n;
                st.n_frames = n as usize;
                st.chunks.push(all);
            }
            "transfer-window" => {
                let n = (WIN + 20) as usize;
                let body = msg_data(n * 5);
                let pieces: Vec<&[u8]> = body.chunks(5).collect();
                let mut all = Vec::new();
                for (i, piece) in pieces.iter().enumerate() {
                    let first = i == 0;
                    let t = p_transfer(PH_R, if first { Some(did) } else { None }, if first { Some(did) } else { None }, i + 1 < pieces.len(), false);
                    all.extend(frame_bytes(PCH, &t, piece));
                }
                st.transfers = pieces.len() as u32;
                st.n_frames = pieces.len();
                st.dids = 1;
                st.r_deliveries = 1;
                st.chunks.push(all);
            }
            "transfer-no-id" => {
                let (d, t) = match arg(1)? {
                    "noid" => (None, Some(did)),
                    "notag" => (Some(did), None),
                    _ => (None, None),
                };
                st.transfers = 1;
                st.dids = if d.is_some() { 1 } else { 0 };
                st = st.one(frame_bytes(PCH, &p_transfer(PH_R, d, t, false, false), &msg));
            }
            "transfer-cont-diff-id" => {
                st.transfers = 1;
                st.dids = 1;
                st.partial = Some(false);
                st = st.one(frame_bytes(PCH, &p_transfer(PH_R, Some(did), Some(did), false, false), &msg[msg.len() / 2..]));
            }
            "transfer-abort-none" => {
                st.transfers = 1;
                st.partial = Some(false);
                st = st.one(frame_bytes(PCH, &p_transfer(PH_R, None, None, false, true), &[]));
            }
            "transfer-never-finished" => {
                let mut all = Vec::new();
                for i in 0..3 {
                    let first = i == 0 && !self.partial;
                    all.extend(frame_bytes(PCH, &p_transfer(PH_R, if first { Some(did) } else { None }, if first { Some(did) } else { None }, true, false), &[0x00]));
                }
                st.transfers = 3;
                st.dids = if self.partial { 0 } else { 1 };
                st.partial = Some(true);
                st.n_frames = 3;
                st.chunks.push(all);
            }
            "disp-unknown" => {
                let role = if arg(1)? == "sender" { Role::Sender } else { Role::Receiver };
                st = st.one(frame_bytes(PCH, &p_disposition(role, 1000, Some(1010), true), &[]));
            }
            "disp-huge" => {
                let role = if arg(1)? == "sender" { Role::Sender } else { Role::Receiver };
                st = st.one(frame_bytes(PCH, &p_disposition(role, 0, Some(u32::MAX), arg(2)? == "settled"), &[]));
            }
            "disp-big" => st = st.one(frame_bytes(PCH, &p_disposition(Role::Receiver, 0, Some(num(1)? as u32), true), &[])),
            "disp-first-gt-last" => st = st.one(frame_bytes(PCH, &p_disposition(Role::Receiver, 10, Some(2), true), &[])),
            "disp-role-mismatch" => st = st.one(frame_bytes(PCH, &p_disposition(Role::Sender, self.last_ep_did.unwrap_or(0), None, true), &[])),
            "detach-unattached" => st = st.one(frame_bytes(PCH, &p_detach(99, true), &[])),
            // controls: the peer shuts a link, the session or the connection down in the regular way
            "peer-detach" => {
                let which = arg(1)?;
                if which == "s" {
                    st.closes_s = true;
                } else {
                    st.closes_r = true;
                }
                st = st.one(frame_bytes(PCH, &p_detach(if which == "s" { PH_S } else { PH_R }, true), &[]));
            }
            "peer-end" => {
                st.closes_sess = true;
                st = st.one(frame_bytes(PCH, &peer_end(false), &[]));
            }
            "peer-close" => {
                st.closes_conn = true;
                st = st.one(frame_bytes(0, &peer_close(false), &[]));
            }
            "detach-twice" => {
                let mut all = frame_bytes(PCH, &p_detach(PH_S, true), &[]);
                all.extend(frame_bytes(PCH, &p_detach(PH_S, true), &[]));
                st.closes_s = true;
                st.n_frames = 2;
                st.chunks.push(all);
            }
            "detach-then-transfer" => {
                let mut all = frame_bytes(PCH, &p_detach(PH_R, true), &[]);
                all.extend(frame_bytes(PCH, &p_transfer(PH_R, Some(did), Some(did), false, false), &msg));
                st.closes_r = true;
                st.transfers = 1;
                st.n_frames = 2;
                st.chunks.push(all);
            }
            "end-then-frames" => {
                let mut all = frame_bytes(PCH, &peer_end(false), &[]);
                all.extend(frame_bytes(PCH, &p_flow(Some(self.got_transfers), 1000, self.sent_transfers, 1000, None, None, None, true), &[]));
                all.extend(frame_bytes(PCH, &p_transfer(PH_R, Some(did), Some(did), false, false), &msg));
                st.closes_sess = true;
                st.n_frames = 3;
                st.chunks.push(all);
            }
            "close-twice" => {
                let mut all = frame_bytes(0, &peer_close(false), &[]);
                all.extend(frame_bytes(0, &peer_close(false), &[]));
                st.closes_conn = true;
                st.n_frames = 2;
                st.chunks.push(all);
            }
            "after-close" => {
                let mut all = frame_bytes(0, &peer_close(false), &[]);
                all.extend(frame_bytes(9, &peer_begin(None), &[]));
                all.extend(frame_bytes(PCH, &p_flow(Some(self.got_transfers), 1000, self.sent_transfers, 1000, None, None, None, true), &[]));
                all.extend(empty_frame());
                st.closes_conn = true;
                st.n_frames = 4;
                st.chunks.push(all);
            }
            "empty-flood" => {
                let n = num(1).unwrap_or(10000) as usize;
                let mut all = Vec::with_capacity(n * 8);
                for _ in 0..n {
                    all.extend(empty_frame());
                }
                st.n_frames = n;
                st.chunks.push(all);
            }
            "flow-echo-flood" => {
                let n = num(2).unwrap_or(10000) as usize;
                let f = if arg(1)? == "link" {
                    self.link_flow_s(10, true)
                } else {
                    p_flow(Some(self.got_transfers), 1000, self.sent_transfers, 1000, None, None, None, true)
                };
                let one = frame_bytes(PCH, &f, &[]);
                let mut all = Vec::with_capacity(n * one.len());
                for _ in 0..n {
                    all.extend_from_slice(&one);
                }
                st.n_frames = n;
                st.chunks.push(all);
            }
            _ => return Err(format!("unknown stimulus {}", name)),
        }
        // what the library's own decoder makes of a damaged frame decides what the well-behaved peer may do afterwards
        if matches!(p[0], "trunc" | "garbage" | "rand" | "unkdesc" | "count8" | "disp-unknown" | "disp-big" | "disp-huge" | "disp-first-gt-last" | "disp-role-mismatch") {
            let all: Vec<u8> = st.chunks.concat();
            if all.len() < 4096 {
                derive_view(&all, self, &mut st, false);
            }
        }
        Ok(st)
    }

    fn apply_view(&mut self, st: &Stim) {
        self.sent_transfers = self.sent_transfers.wrapping_add(st.transfers);
        self.next_did = self.next_did.wrapping_add(st.dids);
        self.r_dc = self.r_dc.wrapping_add(st.r_deliveries);
        if let Some(p) = st.partial {
            self.partial = p;
        }
        if st.sends_open {
            self.peer_open = true;
        }
        if st.begins {
            self.peer_begun = true;
        }
        if st.attaches_s {
            self.peer_attached_s = true;
        }
        if st.settles_ep && !self.ep_unsettled.is_empty() {
            self.dispositions_sent += self.ep_unsettled.len() as u32;
            self.ep_unsettled.clear();
        }
        if st.closes_s {
            self.peer_detached.insert("s".into());
        }
        if st.closes_r {
            self.peer_detached.insert("r".into());
        }
        if st.closes_sess {
            self.peer_end = true;
        }
        if st.closes_conn {
            self.peer_close = true;
        }
        for (n, h) in &st.attaches {
            self.peer_handle_by_name.insert(n.clone(), *h);
        }
    }
}

/// what a raw stimulus does to the conversation, as far as its frames are well-formed
fn derive_view(b: &[u8], d: &Drv, st: &mut Stim, counters: bool) {
    let bytes = b.to_vec();
    let parsed = std::panic::catch_unwind(move || {
        let mut p = Parser::new();
        p.expect_headers = 0;
        p.feed(&bytes)
    });
    let ws = match parsed {
        Ok(ws) => ws,
        Err(_) => return,
    };
    let client = d.case.side == Side::Client;
    if counters {
        st.n_frames = ws.len();
    }
    let mut max_did: Option<u32> = None;
    for w in ws {
        if let Wire::Frame { channel, perf, .. } = w {
            match perf {
                Performative::Open(_) => st.sends_open = true,
                Performative::Close(_) => st.closes_conn = true,
                Performative::Begin(_) if channel == PCH => {
                    if (client && d.case.state == State::BSent) || (!client && d.case.state == State::Open) {
                        st.begins = true;
                    }
                }
                Performative::End(_) if channel == PCH => st.closes_sess = true,
                Performative::Attach(a) if channel == PCH => {
                    if a.name == "s" && d.case.state == State::ASent {
                        st.attaches_s = true;
                    } else if a.name != "s" && a.name != "r" {
                        st.attaches.push((a.name.clone(), a.handle.0));
                    }
                }
                Performative::Detach(x) if channel == PCH => {
                    if x.handle.0 == PH_S {
                        st.closes_s = true;
                    }
                    if x.handle.0 == PH_R {
                        st.closes_r = true;
                    }
                }
                Performative::Disposition(x) if channel == PCH => {
                    let last = x.last.unwrap_or(x.first);
                    let covers = d.ep_unsettled.iter().any(|id| x.first <= *id && *id <= last);
                    let terminal = x.state.as_ref().map(|s| s.is_terminal()).unwrap_or(false);
                    if matches!(x.role, Role::Receiver) && covers && (x.settled || terminal) {
                        st.settles_ep = true;
                    }
                }
                Performative::Transfer(t) if channel == PCH && counters => {
                    st.transfers += 1;
                    if t.handle.0 == PH_R {
                        if let Some(x) = t.delivery_id {
                            max_did = Some(max_did.map(|m| m.max(x)).unwrap_or(x));
                        }
                        if !t.more {
                            st.r_deliveries += 1;
                        }
                        st.partial = Some(t.more && !t.aborted);
                    }
                }
                _ => {}
            }
        }
    }
    if let Some(m) = max_did {
        if m >= d.next_did && m - d.next_did < 1000 {
            st.dids = m - d.next_did + 1;
        }
    }
}

// ------------------------------------------------------------------------------------------
// one case
// ------------------------------------------------------------------------------------------

async fn drive(case: &Case) -> (String, Meas) {
    let mut meas = Meas::default();
    let mfs = mfs_for(&case.stim);
    let (a, b) = tokio::io::duplex(1 << 22);
    let mut d = Drv::new(case, mfs, Peer::new(b));
    let other = if case.other { Some(Other::start().await) } else { None };
    let mut trace: Vec<String> = Vec::new();
    if let Err(e) = d.prelude(a).await {
        let p = take_panics();
        return (format!("pre:FAILED:{} | fin:panics=[{}]", e.replace(' ', "_").replace('|', "/"), p.join(";")), meas);
    }
    trace.push(format!("pre:ok:{}", {
        let p: Vec<String> = d.log.pending().iter().map(|(t, c)| format!("{}.{}", t, c)).collect();
        if p.is_empty() {
            "-".to_string()
        } else {
            p.join(",")
        }
    }));
    d.seg.clear();
    d.seg_eof = false;
    d.log.take_new();
    let stim = match d.build_stim(&case.stim) {
        Ok(s) => s,
        Err(e) => return (format!("pre:FAILED:stimulus:{}", e.replace(' ', "_")), meas),
    };
    d.apply_view(&stim);
    meas.stim_bytes = stim.chunks.iter().map(|c| c.len()).sum();
    let (f0, b0) = (d.frames_out, d.bytes_out);
    let base = crate::alloc::reset_peak();
    let t0 = std::time::Instant::now();
    for c in &stim.chunks {
        d.w(c).await;
    }
    d.observe().await;
    meas.ms = t0.elapsed().as_millis();
    meas.peak = crate::alloc::peak_since(base);
    meas.frames_out = d.frames_out - f0;
    meas.bytes_out = d.bytes_out - b0;
    if meas.ms > 2000 * std::cmp::max(1, meas.stim_bytes as u128 / 65536) {
        // same trace as when the parent process has to give up waiting: how far beyond the limit is not canonical
        return (SPIN_TRACE.to_string(), meas);
    }
    let pc: Vec<&str> = [(stim.closes_s, "s"), (stim.closes_r, "r"), (stim.closes_sess, "k"), (stim.closes_conn, "c")].iter().filter(|x| x.0).map(|x| x.1).collect();
    trace.push(format!(
        "{} pc={} nf={} wb={} inc={}",
        d.segment("stim"),
        if pc.is_empty() { "-".to_string() } else { pc.join(",") },
        stim.n_frames,
        d.write_blocked as u8,
        stim.incomplete as u8
    ));
    let other_res = match other {
        Some(o) => o.check().await,
        None => "-".to_string(),
    };
    // after an incomplete frame nothing the peer writes is a frame of its own: the well-behaved peer can only be silent
    let after = if stim.incomplete && case.after == After::Nice { After::Silent } else { case.after };
    match after {
        After::Nice => {
            d.answers().await;
            trace.push(d.segment("ans"));
            let (r, s) = d.probe().await;
            trace.push(format!("{} r={} s={}", d.segment("probe"), r, s));
            d.wind(true).await;
            trace.push(d.segment("wind"));
        }
        After::Silent => {
            d.next_calls().await;
            d.wind(false).await;
            trace.push(d.segment("wind"));
        }
        After::Eof => {}
    }
    d.peer.shutdown().await;
    d.observe().await;
    if case.after == After::Eof {
        d.next_calls().await;
        d.wind(false).await;
    }
    tokio::time::sleep(Duration::from_secs(120)).await;
    d.observe().await;
    trace.push(d.segment("end"));
    // which tasks have died, which calls are still pending
    let tasks: Vec<(String, JoinHandle<()>)> = std::mem::take(&mut d.reg.0.lock().unwrap().tasks);
    let mut dead: Vec<String> = Vec::new();
    for (name, h) in tasks {
        if h.is_finished() {
            if let Err(e) = h.await {
                if e.is_panic() {
                    dead.push(name);
                }
            }
        }
    }
    let pending: Vec<String> = d.log.pending().iter().filter(|(t, _)| !dead.contains(t)).map(|(t, c)| format!("{}.{}", t, c)).collect();
    let panics = take_panics();
    trace.push(format!(
        "fin:pending=[{}] dead=[{}] panics=[{}] disp={} other={}",
        pending.join(","),
        dead.join(","),
        panics.join(";"),
        d.dispositions_sent,
        other_res
    ));
    let slow = meas.ms > 2000 * std::cmp::max(1, meas.stim_bytes as u128 / 65536);
    let big = meas.peak > (64 << 20) + 16 * meas.stim_bytes;
    trace.push(format!("m:fo={} bo={} sb={} slow={} big={}", meas.frames_out, meas.bytes_out, meas.stim_bytes, slow as u8, big as u8));
    (trace.join(" | "), meas)
}

/// The paused-clock runtime of `eng::paused_rt`, with the seed of the generator behind `tokio::select!` fixed
/// when the crate is built with `--cfg tokio_unstable` (the library's engines use unbiased selects: without
/// the seed a few cases in which two branches are ready at once differ from run to run).
#[allow(unexpected_cfgs)]
fn seeded_rt() -> tokio::runtime::Runtime {
    let mut b = tokio::runtime::Builder::new_current_thread();
    b.enable_all().start_paused(true);
    #[cfg(tokio_unstable)]
    b.rng_seed(tokio::runtime::RngSeed::from_bytes(b"fe2o3 hostile peer"));
    b.build().unwrap()
}

/// run one case in this process, on a thread with the stack of a tokio worker (2 MiB)
pub fn run_case_inproc(line: &str) -> (String, Meas) {
    let case = match parse_case(line) {
        Some(c) => c,
        None => return ("BAD-CASE-LINE".to_string(), Meas::default()),
    };
    take_panics();
    let h = std::thread::Builder::new().stack_size(2 << 20).spawn(move || {
        let rt = seeded_rt();
        let r = rt.block_on(drive(&case));
        drop(rt);
        r
    });
    match h.map(|h| h.join()) {
        Ok(Ok(r)) => r,
        _ => {
            let p = take_panics();
            (format!("pre:FAILED:harness-panic | fin:panics=[{}]", p.join(";")), Meas::default())
        }
    }
}

// ------------------------------------------------------------------------------------------
// process isolation: a stack overflow or an endless loop in the library must not take the harness down
// ------------------------------------------------------------------------------------------

/// child process entry (`vh hostile-worker`): one case line per line on stdin, one answer line on stdout
pub fn worker_main() {
    install_panic_hook();
    use std::io::{BufRead, Write};
    let stdin = std::io::stdin();
    let stdout = std::io::stdout();
    for line in stdin.lock().lines() {
        let line = match line {
            Ok(l) => l,
            Err(_) => break,
        };
        if line.trim().is_empty() {
            continue;
        }
        let (t, m) = run_case_inproc(line.trim());
        let mut o = stdout.lock();
        let _ = writeln!(o, "{}\t{}\t{}", t.replace('\t', " ").replace('\n', " "), m.ms, m.peak);
        let _ = o.flush();
    }
}

struct Child {
    proc: std::process::Child,
    stdin: std::process::ChildStdin,
    rx: std::sync::mpsc::Receiver<Option<String>>,
    errfile: String,
}

fn spawn_child(tag: &str) -> Option<Child> {
    use std::io::BufRead;
    let exe = std::env::current_exe().ok()?;
    let errfile = std::env::temp_dir().join(format!("vh-hostile-{}-{}.err", std::process::id(), tag)).to_string_lossy().to_string();
    let ef = std::fs::File::create(&errfile).ok()?;
    let mut proc = std::process::Command::new(exe)
        .arg("hostile-worker")
        .stdin(std::process::Stdio::piped())
        .stdout(std::process::Stdio::piped())
        .stderr(ef)
        .spawn()
        .ok()?;
    let stdin = proc.stdin.take()?;
    let stdout = proc.stdout.take()?;
    let (tx, rx) = std::sync::mpsc::channel();
    std::thread::spawn(move || {
        let rd = std::io::BufReader::new(stdout);
        for l in rd.lines() {
            match l {
                Ok(l) => {
                    if tx.send(Some(l)).is_err() {
                        return;
                    }
                }
                Err(_) => break,
            }
        }
        let _ = tx.send(None);
    });
    Some(Child { proc, stdin, rx, errfile })
}

/// real-time budget of one case in a child; beyond it the child is killed and the case reported
const CASE_REAL_TIMEOUT: Duration = Duration::from_secs(5);
/// the trace of a case whose stimulus is not handled within 2 s of real time (per 64 KiB of stimulus)
const SPIN_TRACE: &str = "SPIN real>2s";

fn run_in_child(child: &mut Option<Child>, tag: &str, line: &str) -> (String, Meas) {
    use std::io::Write;
    if child.is_none() {
        *child = spawn_child(tag);
    }
    let c = match child.as_mut() {
        Some(c) => c,
        None => return ("ISOLATION-FAILED spawn".to_string(), Meas::default()),
    };
    if writeln!(c.stdin, "{}", line).and_then(|_| c.stdin.flush()).is_err() {
        let _ = c.proc.kill();
        let _ = c.proc.wait();
        *child = None;
        return ("ISOLATION-FAILED write".to_string(), Meas::default());
    }
    match c.rx.recv_timeout(CASE_REAL_TIMEOUT) {
        Ok(Some(l)) => {
            let parts: Vec<&str> = l.split('\t').collect();
            let m = Meas { ms: parts.get(1).and_then(|x| x.parse().ok()).unwrap_or(0), peak: parts.get(2).and_then(|x| x.parse().ok()).unwrap_or(0), ..Default::default() };
            (parts[0].to_string(), m)
        }
        Ok(None) | Err(std::sync::mpsc::RecvTimeoutError::Disconnected) => {
            // the child died
            let st = c.proc.wait().ok();
            let how = match st {
                Some(s) => {
                    use std::os::unix::process::ExitStatusExt;
                    match (s.signal(), s.code()) {
                        (Some(sig), _) => format!("signal={}", sig),
                        (_, Some(code)) => format!("exit={}", code),
                        _ => "?".to_string(),
                    }
                }
                None => "?".to_string(),
            };
            let err = std::fs::read_to_string(&c.errfile).unwrap_or_default();
            let overflow = err.contains("overflowed its stack");
            let _ = std::fs::remove_file(&c.errfile);
            *child = None;
            (format!("WORKER-DIED {}{}", how, if overflow { " stack-overflow" } else { "" }), Meas::default())
        }
        Err(std::sync::mpsc::RecvTimeoutError::Timeout) => {
            let _ = c.proc.kill();
            let _ = c.proc.wait();
            let _ = std::fs::remove_file(&c.errfile);
            *child = None;
            (SPIN_TRACE.to_string(), Meas { ms: CASE_REAL_TIMEOUT.as_millis(), ..Default::default() })
        }
    }
}

fn stop_child(child: &mut Option<Child>) {
    if let Some(mut c) = child.take() {
        drop(c.stdin);
        let _ = c.proc.wait();
        let _ = std::fs::remove_file(&c.errfile);
    }
}

/// all cases through a pool of child processes; results in the order of the lines
fn run_pool(lines: &[String], jobs: usize) -> Vec<(String, Meas)> {
    let next = Arc::new(std::sync::atomic::AtomicUsize::new(0));
    let results: Arc<Mutex<Vec<Option<(String, Meas)>>>> = Arc::new(Mutex::new(vec![None; lines.len()]));
    let lines: Arc<Vec<String>> = Arc::new(lines.to_vec());
    let mut hs = Vec::new();
    for j in 0..jobs.max(1) {
        let next = next.clone();
        let results = results.clone();
        let lines = lines.clone();
        hs.push(std::thread::spawn(move || {
            let mut child: Option<Child> = None;
            let tag = format!("w{}", j);
            loop {
                let i = next.fetch_add(1, std::sync::atomic::Ordering::SeqCst);
                if i >= lines.len() {
                    break;
                }
                let r = run_in_child(&mut child, &tag, &lines[i]);
                results.lock().unwrap()[i] = Some(r);
            }
            stop_child(&mut child);
        }));
    }
    for h in hs {
        let _ = h.join();
    }
    let mut g = results.lock().unwrap();
    g.iter_mut().map(|x| x.take().unwrap_or(("ISOLATION-FAILED missing".to_string(), Meas::default()))).collect()
}

/// case line -> trace; stimuli that can kill or stall the process are run in a child process
pub fn run_case(line: &str) -> String {
    let risky_case = parse_case(line).map(|c| risky(&c.stim)).unwrap_or(false);
    if risky_case {
        let mut child = None;
        let r = run_in_child(&mut child, "single", line);
        stop_child(&mut child);
        r.0
    } else {
        install_panic_hook();
        run_case_inproc(line).0
    }
}

// ------------------------------------------------------------------------------------------
// the direct oracle
// ------------------------------------------------------------------------------------------

struct Seg {
    w: Vec<String>,
    a: Vec<String>,
    eof: bool,
    kv: HashMap<String, String>,
}
fn unrle(s: &str) -> Vec<String> {
    if s == "-" || s.is_empty() {
        return vec![];
    }
    let mut out = Vec::new();
    for t in s.split(',') {
        if let Some((x, n)) = t.rsplit_once('*') {
            if let Ok(n) = n.parse::<usize>() {
                // keep long runs short: the oracle only looks at kinds and order
                for _ in 0..n.min(4) {
                    out.push(x.to_string());
                }
                continue;
            }
        }
        out.push(t.to_string());
    }
    out
}
fn parse_seg(s: &str) -> (String, Seg) {
    let s = s.trim();
    let (name, rest) = s.split_once(':').unwrap_or((s, ""));
    let mut seg = Seg { w: vec![], a: vec![], eof: false, kv: HashMap::new() };
    for part in rest.split(' ') {
        if let Some((k, v)) = part.split_once('=') {
            match k {
                "w" => seg.w = unrle(v),
                "a" => seg.a = unrle(v),
                "eof" => seg.eof = v == "1",
                _ => {
                    seg.kv.insert(k.to_string(), v.to_string());
                }
            }
        }
    }
    (name.to_string(), seg)
}

/// the property, checked on the observed behaviour alone; each string is `class: description`
pub fn direct_oracle(case_line: &str, trace: &str) -> Vec<String> {
    let mut v = Vec::new();
    let case = match parse_case(case_line) {
        Some(c) => c,
        None => return vec!["c15-harness: unparsable case line".to_string()],
    };
    if trace.starts_with("WORKER-DIED") {
        let class = if trace.contains("stack-overflow") { "c15-stack-overflow" } else { "c15-abort" };
        v.push(format!("{}: the process running the endpoint was killed while handling the stimulus ({})", class, trace));
        return v;
    }
    if trace.starts_with("SPIN") {
        v.push(format!(
            "c15-spin: the stimulus `{}` was not handled within 2 s of real time (the case is given up after {} s): the endpoint spins or does work out of proportion to the frame",
            case.stim,
            CASE_REAL_TIMEOUT.as_secs()
        ));
        return v;
    }
    if trace.starts_with("ISOLATION-FAILED") || trace.starts_with("BAD-CASE-LINE") {
        v.push(format!("c15-harness: {}", trace));
        return v;
    }
    let mut segs: Vec<(String, Seg)> = Vec::new();
    let mut fin_raw = "";
    for s in trace.split(" | ") {
        if s.starts_with("fin:") {
            fin_raw = s;
        }
        segs.push(parse_seg(s));
    }
    let get = |n: &str| segs.iter().find(|(k, _)| k == n).map(|(_, s)| s);
    // panics anywhere in the endpoint
    if let Some(p) = fin_raw.split("panics=[").nth(1).and_then(|x| x.split("] disp=").next().or(Some(x))) {
        let p = p.trim_end_matches(']');
        for one in p.split(';').filter(|x| !x.is_empty()) {
            v.push(format!("c15-panic: a task of the endpoint panicked: {}", one));
        }
    }
    if trace.starts_with("pre:FAILED") {
        return v;
    }
    let fin = match get("fin") {
        Some(f) => f,
        None => return v,
    };
    // calls that never completed
    if let Some(p) = fin.kv.get("pending") {
        let p = p.trim_start_matches('[').trim_end_matches(']');
        for call in p.split(',').filter(|x| !x.is_empty()) {
            v.push(format!("c15-hang: `{}` is still pending 120 s (virtual) after the peer has closed the pipe", call));
        }
    }
    if let Some(o) = fin.kv.get("other") {
        if o.starts_with("FAILED") {
            v.push(format!("c15-other-connection-affected: a second connection in the same process no longer transfers a message: {}", o));
        }
    }
    if let Some(m) = get("m") {
        let g = |k: &str| m.kv.get(k).and_then(|x| x.parse::<usize>().ok()).unwrap_or(0);
        let nf = get("stim").and_then(|s| s.kv.get("nf")).and_then(|x| x.parse::<usize>().ok()).unwrap_or(1).max(1);
        if g("slow") == 1 {
            v.push(format!("c15-spin: handling a stimulus of {} bytes took more than 2 s per 64 KiB of real time", g("sb")));
        }
        if g("big") == 1 {
            v.push(format!("c15-alloc: handling a stimulus of {} bytes allocated more than 64 MiB", g("sb")));
        }
        if g("fo") > 1000 + 2 * nf || g("bo") > (1 << 20) + 4 * g("sb") {
            v.push(format!("c15-spin: {} frames / {} bytes written in response to {} frame(s) / {} bytes", g("fo"), g("bo"), nf, g("sb")));
        }
    }
    let stim = match get("stim") {
        Some(s) => s,
        None => return v,
    };
    let pc: Vec<&str> = stim.kv.get("pc").map(|x| x.split(',').collect()).unwrap_or_default();
    let pc_has = |l: &str| pc.contains(&l);
    // what the endpoint shut down on its own initiative, before the application winds down
    let mut w_before: Vec<String> = stim.w.clone();
    let mut eof_before = stim.eof;
    for n in ["ans", "probe"] {
        if let Some(s) = get(n) {
            w_before.extend(s.w.clone());
            eof_before |= s.eof;
        }
    }
    let close_tok = w_before.iter().any(|t| t.starts_with('C'));
    let end_tok = w_before.iter().any(|t| t.starts_with('E'));
    let det = |l: &str| w_before.iter().any(|t| t.starts_with(&format!("D[{}]", l)));
    let app_c = case.state == State::CSent;
    let app_k = case.state == State::ESent || app_c;
    let shut_c = (close_tok || eof_before) && !pc_has("c") && !app_c;
    let shut_k = end_tok && !pc_has("k") && !pc_has("c") && !app_k && !shut_c;
    // every call result after the stimulus, in order
    let mut calls: Vec<String> = Vec::new();
    for (n, s) in &segs {
        if n == "pre" || n == "fin" || n == "m" {
            continue;
        }
        calls.extend(s.a.clone());
    }
    let first_of = |task: &str| calls.iter().find(|c| c.starts_with(&format!("{}.", task))).cloned();
    // tasks that died of a panic (reported as such) and errors already reported before the application winds down
    let dead: Vec<String> = fin.kv.get("dead").map(|d| d.trim_start_matches('[').trim_end_matches(']').split(',').map(|x| x.to_string()).collect()).unwrap_or_default();
    let is_dead = |t: &str| dead.iter().any(|d| d == t);
    let mut a_before: Vec<String> = stim.a.clone();
    for n in ["ans", "probe"] {
        if let Some(s) = get(n) {
            a_before.extend(s.a.clone());
        }
    }
    let err_before = |task: &str| a_before.iter().any(|c| c.starts_with(&format!("{}.", task)) && c.contains("=Err"));
    let has = |entry: &str| calls.iter().any(|c| c == entry);
    let is_err = |c: &Option<String>| c.as_ref().map(|x| x.contains("=Err")).unwrap_or(false);
    if shut_c && !is_dead("c") {
        let f = first_of("c");
        if !is_err(&f) {
            v.push(format!(
                "c15-silent-failure: the endpoint shut the connection down ({}) but the pending/next call on the connection handle returned {:?}, not an error",
                w_before.iter().find(|t| t.starts_with('C')).cloned().unwrap_or("pipe closed".into()),
                f
            ));
        }
    }
    if shut_k && !is_dead("k") {
        let f = first_of("k");
        if !is_err(&f) {
            v.push(format!(
                "c15-silent-failure: the endpoint ended the session ({}) but the pending/next call on the session handle returned {:?}, not an error",
                w_before.iter().find(|t| t.starts_with('E')).cloned().unwrap_or_default(),
                f
            ));
        }
    }
    for l in ["s", "r"] {
        let app_l = app_k || (case.state == State::DSent && l == "s");
        let shut_l = det(l) && !pc_has(l) && !pc_has("k") && !pc_has("c") && !app_l && !shut_k && !shut_c;
        if shut_l && !is_dead(l) {
            let f = first_of(l);
            if !is_err(&f) {
                v.push(format!(
                    "c15-silent-failure: the endpoint detached link `{}` ({}) but the pending/next call on the link returned {:?}, not an error",
                    l,
                    w_before.iter().find(|t| t.starts_with(&format!("D[{}]", l))).cloned().unwrap_or_default(),
                    f
                ));
            }
        }
    }
    // a send cannot succeed without the peer having settled it
    let disp: usize = fin.kv.get("disp").and_then(|x| x.parse().ok()).unwrap_or(0);
    let send_ok = trace.matches("s.send=Ok").count();
    if send_ok > disp {
        v.push(format!("c15-silent-failure: {} send call(s) returned Ok but the peer settled only {} deliveries", send_ok, disp));
    }
    // neither an error nor working
    let incomplete = stim.kv.get("inc").map(|x| x == "1").unwrap_or(false);
    if case.after == After::Nice && !incomplete {
        let probe = get("probe");
        let pk = |k: &str| probe.and_then(|p| p.kv.get(k)).cloned().unwrap_or("-".to_string());
        let any_c = close_tok || eof_before || pc_has("c");
        let any_k = any_c || end_tok || pc_has("k");
        let client = case.side == Side::Client;
        if !any_c && !err_before("c") && !is_dead("c") {
            if case.state == State::Hdr && !has(if client { "c.open=Ok" } else { "c.accept=Ok" }) {
                v.push(format!("c15-wedged: the connection was not shut down and no error was reported, yet the open handshake does not complete: {:?}", first_of("c")));
            } else if !has("c.close=Ok") {
                v.push(format!("c15-wedged: the connection was not shut down and no error was reported, yet a clean close afterwards gives {:?}", calls.iter().find(|c| c.starts_with("c.close"))));
            }
        }
        let sess_expected = case.state.session_begun() || (case.state == State::BSent && client);
        if !any_k && sess_expected && !app_c && !err_before("k") && !err_before("c") && !is_dead("k") {
            if case.state == State::BSent && !has("c.begin=Ok") {
                v.push(format!("c15-wedged: the session was not ended and no error was reported, yet the begin handshake does not complete: {:?}", first_of("c")));
            } else if !has("k.end=Ok") {
                v.push(format!("c15-wedged: the session was not ended and no error was reported, yet a clean end afterwards gives {:?}", calls.iter().find(|c| c.starts_with("k.end"))));
            }
        }
        if !any_k && !app_k {
            for l in ["s", "r"] {
                let attached = if l == "s" { case.state.has_s() || case.state == State::ASent } else { case.state.has_r() };
                if !attached || det(l) || pc_has(l) || err_before(l) || err_before("k") || err_before("c") || is_dead(l) {
                    continue;
                }
                let dsent = case.state == State::DSent && l == "s";
                if !dsent && pk(l) != "ok" {
                    v.push(format!("c15-wedged: link `{}` was not detached and no error was reported, yet a valid delivery afterwards does not get through (probe {})", l, pk(l)));
                } else if !has(&format!("{}.close=Ok", l)) {
                    v.push(format!("c15-wedged: link `{}` was not detached and no error was reported, yet a clean close afterwards gives {:?}", l, calls.iter().find(|c| c.starts_with(&format!("{}.close", l)))));
                }
            }
        }
    }
    v
}

// ------------------------------------------------------------------------------------------
// generation
// ------------------------------------------------------------------------------------------

use State::*;
const REP: [State; 6] = [Hdr, Open, Begun, Both, Mid, CSent];

/// (stimulus, states) of the catalogue
pub fn catalogue() -> Vec<(String, Vec<State>)> {
    let mut c: Vec<(String, Vec<State>)> = Vec::new();
    let mut add = |s: &str, st: &[State]| c.push((s.to_string(), st.to_vec()));
    add("none", &ALL_STATES);
    for n in ["0", "1", "7", "8", "9", "max", "max+1", "2147483647", "4294967295"] {
        add(&format!("size:{}", n), &REP);
    }
    for d in ["0", "1", "3", "255"] {
        add(&format!("doff:{}", d), &[Hdr, Open, Begun, Both]);
    }
    for t in ["1", "2", "255"] {
        add(&format!("ftype:{}", t), &[Hdr, Begun, Both]);
    }
    add("sasl", &[Hdr, Open, Both]);
    add("header-again", &[Hdr, Open, Both]);
    for (seed, len) in [(1, 1), (2, 3), (3, 17), (4, 200)] {
        add(&format!("rand:{}:{}", seed, len), &[Hdr, Open, Both]);
    }
    for (perf, states) in [
        ("open", vec![Hdr]),
        ("begin", vec![Open, BSent]),
        ("attach", vec![Begun, ASent]),
        ("flow", vec![Begun, Snd]),
        ("transfer", vec![Rcv, Mid]),
        ("disposition", vec![Unsettled]),
        ("detach", vec![Both]),
        ("end", vec![Both]),
        ("close", vec![Hdr, Both]),
    ] {
        for k in ["1", "3", "half", "last"] {
            add(&format!("trunc:{}:{}", perf, k), &states);
        }
        if perf != "transfer" {
            add(&format!("garbage:{}", perf), &states);
        }
    }
    for k in ["ulong", "sym", "ulong64", "nodesc"] {
        add(&format!("unkdesc:{}", k), &[Hdr, Both]);
    }
    add("count:open", &[Hdr]);
    add("count:flow", &[Begun, Both]);
    add("count:transfer", &[Rcv, Both]);
    add("count8:transfer", &[Rcv]);
    add("count8:flow", &[Both]);
    for kind in ["nest8", "nest32"] {
        for depth in ["3000", "100000"] {
            add(&format!("{}:{}:open-props", kind, depth), &[Hdr]);
            add(&format!("{}:{}:flow-props", kind, depth), &[Both]);
            add(&format!("{}:{}:msg", kind, depth), &[Rcv, Both]);
            if kind == "nest8" {
                add(&format!("{}:{}:begin-props", kind, depth), &[Open]);
                add(&format!("{}:{}:attach-props", kind, depth), &[Begun]);
                add(&format!("{}:{}:close-info", kind, depth), &[Hdr, Both, CSent]);
                add(&format!("{}:{}:disp-state", kind, depth), &[Unsettled]);
                add(&format!("{}:{}:transfer-state", kind, depth), &[Rcv]);
            }
        }
    }
    // how deep is too deep: the smallest depths, to locate the limit
    add("nest8:150:open-props", &[Hdr]);
    for depth in ["100", "400", "1000", "2000"] {
        add(&format!("nest8:{}:flow-props", depth), &[Both]);
        add(&format!("nest8:{}:msg", depth), &[Rcv]);
    }
    add("array:open-caps", &[Hdr]);
    add("array:flow-props", &[Both]);
    add("array:msg", &[Rcv]);
    add("mapodd:flow-props", &[Both]);
    add("huge:bin:transfer-tag", &[Rcv]);
    add("huge:bin:msg", &[Rcv]);
    add("huge:str:msg", &[Rcv]);
    add("huge:list:msg", &[Rcv]);
    add("huge:map:msg", &[Rcv]);
    add("huge:array:msg", &[Rcv]);
    add("huge:str:open-cid", &[Hdr]);
    add("huge:str:attach-name", &[Begun]);
    add("huge:sym:open-caps", &[Hdr]);
    add("huge:map:flow-props", &[Both]);
    add("huge:list:flow-props", &[Both]);
    add("huge:bin:flow-props", &[Both]);
    // protocol violations
    add("open-again", &[Open, Begun, Both, CSent]);
    add("open-idle0", &[Hdr, Open, Both]);
    add("open-idle1", &[Hdr]);
    add("begin-unmapped:-", &[Open, Begun, Both]);
    add("begin-unmapped:rc", &[Open, Begun, Both]);
    add("begin-second", &[Begun, Both, ESent]);
    add("begin-chmax", &[Open, Both]);
    add("end-unmapped", &[Open, Begun, Both]);
    add("end-before-begin", &[Open, BSent]);
    add("attach-unmapped", &[Open, Both]);
    add("attach-before-begin", &[Open, BSent]);
    add("attach-handle-in-use", &[Snd, Rcv, Both]);
    add("attach-name-dup", &[Snd, Rcv, Both]);
    add("attach-name-role", &[Snd, Rcv, Both]);
    add("flow-unattached", &[Begun, Both]);
    add("flow-before-begin", &[Open, BSent]);
    for k in ["credit", "dc", "iw", "nii-ahead", "nii-behind", "all"] {
        add(&format!("flow-huge:{}", k), &[Snd, Unsettled, Both]);
    }
    add("flow-rcv-huge", &[Rcv, Both]);
    add("transfer-unattached", &[Begun, Both]);
    add("transfer-before-begin", &[Open, BSent]);
    add("transfer-to-sender", &[Snd, Both]);
    add("transfer-beyond-credit", &[Rcv, Both]);
    add("transfer-window", &[Rcv, Both]);
    for k in ["noid", "notag", "neither"] {
        add(&format!("transfer-no-id:{}", k), &[Rcv, Both]);
    }
    add("transfer-cont-diff-id", &[Mid]);
    add("transfer-abort-none", &[Rcv, Both]);
    add("transfer-never-finished", &[Rcv, Mid, Both]);
    add("disp-unknown:receiver", &[Begun, Unsettled, Both]);
    add("disp-unknown:sender", &[Begun, Rcv, Both]);
    for role in ["receiver", "sender"] {
        for s in ["settled", "unsettled"] {
            add(&format!("disp-huge:{}:{}", role, s), &[Both]);
        }
    }
    add("disp-huge:receiver:settled", &[Begun, Unsettled]);
    add("disp-big:1000000", &[Both, Unsettled]);
    add("disp-first-gt-last", &[Unsettled, Both]);
    add("disp-role-mismatch", &[Unsettled]);
    add("detach-unattached", &[Begun, Both]);
    add("detach-twice", &[Snd, Unsettled, Both, DSent]);
    add("peer-detach:s", &[Snd, Unsettled, Both]);
    add("peer-detach:r", &[Rcv, Mid, Both]);
    add("peer-end", &[Begun, Mid, Unsettled, Both]);
    add("peer-close", &[Open, Begun, Mid, Unsettled, Both]);
    add("detach-then-transfer", &[Rcv, Both]);
    add("end-then-frames", &[Unsettled, Both, ESent]);
    add("close-twice", &[Open, Unsettled, Both, CSent]);
    add("after-close", &[Open, Both, CSent]);
    add("empty-flood", &[Open, Both, CSent]);
    add("flow-echo-flood:session", &[Begun, Both]);
    add("flow-echo-flood:link", &[Snd, Both]);
    c
}

fn fnv(s: &str) -> u64 {
    let mut h: u64 = 0xcbf29ce484222325;
    for b in s.bytes() {
        h ^= b as u64;
        h = h.wrapping_mul(0x100000001b3);
    }
    h
}

/// the catalogue crossed with states, sides and follow-ups; `full` = every follow-up for every entry
pub fn catalogue_cases(full: bool) -> Vec<String> {
    let mut out = Vec::new();
    for (stim, states) in catalogue() {
        for state in states {
            for side in [Side::Client, Side::Listener] {
                if side == Side::Listener && (state == BSent || state == ASent) {
                    continue;
                }
                let key = format!("{}/{}/{:?}", stim, state.name(), side);
                let h = fnv(&key);
                let other = h % 8 == 0 && !stim.starts_with("nest") && !stim.starts_with("disp-huge");
                let afters: Vec<After> = if !full && stim.starts_with("disp-huge") {
                    // each of these costs the whole real-time budget
                    vec![After::Nice]
                } else if full || stim == "none" {
                    vec![After::Nice, After::Silent, After::Eof]
                } else if (h >> 8) % 2 == 0 {
                    vec![After::Nice, After::Silent]
                } else {
                    vec![After::Nice, After::Eof]
                };
                for (i, a) in afters.iter().enumerate() {
                    out.push(case_line(side, state, &stim, *a, other && i == 0));
                }
            }
        }
    }
    out
}

/// a random mutated frame: bit flips, truncations and splices of valid performative encodings
pub fn gen_case(r: &mut Rng, _thorough: bool) -> String {
    let side = if r.below(2) == 0 { Side::Client } else { Side::Listener };
    let state = *r.pick(&[Hdr, Open, Begun, Snd, Rcv, Mid, Unsettled, Both, Both, Both, ESent, CSent]);
    // encodings as the peer would produce them in a conversation like the prelude's
    let pool: Vec<Vec<u8>> = vec![
        serde_amqp::to_vec(&peer_open(Some(30000), 10, 65536)).unwrap(),
        serde_amqp::to_vec(&peer_begin(if side == Side::Client { Some(0) } else { None })).unwrap(),
        serde_amqp::to_vec(&p_attach("s", PH_S, Role::Receiver)).unwrap(),
        serde_amqp::to_vec(&p_attach("r", PH_R, Role::Sender)).unwrap(),
        serde_amqp::to_vec(&p_attach("n", 9, Role::Sender)).unwrap(),
        serde_amqp::to_vec(&p_flow(Some(0), 1000, 0, 1000, Some(PH_S), Some(0), Some(10), true)).unwrap(),
        serde_amqp::to_vec(&p_flow(Some(0), 1000, 0, 1000, None, None, None, false)).unwrap(),
        {
            let mut v = serde_amqp::to_vec(&p_transfer(PH_R, Some(0), Some(0), false, false)).unwrap();
            v.extend(small_message());
            v
        },
        {
            let mut v = serde_amqp::to_vec(&p_transfer(PH_R, None, None, true, false)).unwrap();
            v.extend(&small_message()[..6]);
            v
        },
        serde_amqp::to_vec(&p_disposition(Role::Receiver, 0, Some(0), true)).unwrap(),
        serde_amqp::to_vec(&p_disposition(Role::Sender, 0, Some(3), false)).unwrap(),
        serde_amqp::to_vec(&p_detach(PH_S, true)).unwrap(),
        serde_amqp::to_vec(&p_detach(PH_R, false)).unwrap(),
        serde_amqp::to_vec(&peer_end(true)).unwrap(),
        serde_amqp::to_vec(&peer_close(true)).unwrap(),
    ];
    let mut body = r.pick(&pool).clone();
    match r.below(10) {
        0..=3 => {
            // bit flips
            for _ in 0..r.range(1, 3) {
                let i = r.below(body.len() as u64) as usize;
                body[i] ^= 1 << r.below(8);
            }
        }
        4 => {
            // byte replaced by an interesting value
            let i = r.below(body.len() as u64) as usize;
            body[i] = *r.pick(&[0x00, 0x40, 0x45, 0xc0, 0xd0, 0xe0, 0xf0, 0xb0, 0xff, 0x80, 0x53, 0x70]);
        }
        5..=6 => {
            let k = r.below(body.len() as u64) as usize;
            body.truncate(k);
        }
        7..=8 => {
            // splice: the head of one encoding, the tail of another
            let other = r.pick(&pool).clone();
            let i = r.below(body.len() as u64 + 1) as usize;
            let j = r.below(other.len() as u64 + 1) as usize;
            body.truncate(i);
            body.extend_from_slice(&other[j..]);
        }
        _ => {
            // a run of bytes duplicated
            let i = r.below(body.len() as u64) as usize;
            let n = r.range(1, 8) as usize;
            let run: Vec<u8> = body[i..(i + n).min(body.len())].to_vec();
            let at = r.below(body.len() as u64 + 1) as usize;
            for (k, b) in run.iter().enumerate() {
                body.insert(at + k, *b);
            }
        }
    }
    let ch = if body.len() > 2 && (body[2] == 0x10 || body[2] == 0x18) { 0 } else { PCH };
    let mut fr = raw_frame(ch, 2, 0, &body);
    if r.below(12) == 0 {
        // the frame header is hit as well
        let i = r.below(8) as usize;
        fr[i] ^= 1 << r.below(8);
    }
    let after = match r.below(6) {
        0 => After::Silent,
        1 => After::Eof,
        _ => After::Nice,
    };
    case_line(side, state, &format!("raw:{}", hex(&fr)), after, r.below(16) == 0)
}

// ------------------------------------------------------------------------------------------
// run
// ------------------------------------------------------------------------------------------

pub fn run(seed: u64, n: u64, thorough: bool, corpus: &[String], dir: &str) {
    crate::codec::quiet_panics();
    install_panic_hook();
    let t_start = std::time::Instant::now();
    let mut out = Outputs::new(dir);
    let mut r = Rng::new(seed);
    let mut lines: Vec<String> = Vec::new();
    for l in corpus {
        if l.starts_with("hst ") {
            out.count("corpus_cases");
            lines.push(l.clone());
        }
    }
    let cat = catalogue_cases(thorough);
    out.add("catalogue_cases", cat.len() as u64);
    out.add("catalogue_entries", catalogue().len() as u64);
    lines.extend(cat);
    let n_mut = if thorough { n.max(3000).min(20000) } else { (n / 4).min(300) };
    for _ in 0..n_mut {
        lines.push(gen_case(&mut r, thorough));
    }
    out.add("mutated_cases", n_mut);
    let jobs: usize = std::env::var("VH_JOBS").ok().and_then(|x| x.parse().ok()).unwrap_or(6);
    let results = run_pool(&lines, jobs);
    let mut max_ms = 0u128;
    let mut max_peak = 0usize;
    for (line, (t, m)) in lines.iter().zip(results.into_iter()) {
        let case = parse_case(line);
        if let Some(c) = &case {
            out.count(&format!("side_{}", if c.side == Side::Client { "client" } else { "listener" }));
            out.count(&format!("state_{}", c.state.name()));
            out.count(&format!("after_{:?}", c.after).to_lowercase());
            out.count(&format!("stim_{}", c.stim.split(':').next().unwrap_or("?")));
            if c.other {
                out.count("with_second_connection");
            }
        }
        if t.starts_with("pre:FAILED") {
            out.count("prelude_failed");
        }
        if t.contains("=Err(") {
            out.count("cases_with_an_error_reported_to_the_application");
        }
        if t.contains("r=ok") || t.contains("s=ok") {
            out.count("cases_that_kept_working");
        }
        for tok in ["Ce(", "e(", "D["] {
            if t.contains(tok) {
                out.count(&format!("cases_with_{}", match tok { "Ce(" => "close_with_error", "e(" => "some_error_frame", _ => "detach" }));
            }
        }
        max_ms = max_ms.max(m.ms);
        max_peak = max_peak.max(m.peak);
        if m.ms > 200 {
            out.count("stimulus_over_200ms");
        }
        if t.contains("pre:ok") && (t.contains("=Err(") || t.contains("=ok")) {
            out.nontrivial(line);
        }
        for vv in direct_oracle(line, &t) {
            let class = vv.split(':').next().unwrap_or("?").to_string();
            out.violation(&class, &format!("{} | `{}` -> {} [stimulus phase: {} ms real, peak {} bytes]", vv, line, t, m.ms, m.peak), line);
            out.count(&format!("viol_{}", class));
        }
        out.case(line, &t);
    }
    out.add("max_stimulus_ms", max_ms as u64);
    out.add("max_stimulus_peak_bytes", max_peak as u64);
    out.add("run_seconds", t_start.elapsed().as_secs());
    out.finish(dir);
}

/// Diagnostic (`vh hostile-decode <depth>`): decode one flow frame whose properties hold a `depth`-fold nested
/// list8 with the library's frame decoder alone, on a thread with a 2 MiB stack. Prints `decoded ok|err`, or the
/// process dies of the stack overflow - which pins the overflow of the `nest*` cases on the decoder.
pub fn decode_probe(depth: usize) {
    use tokio_util::codec::Decoder;
    let body = h_flow(0, 0, e_map1("k", &nest8(depth)));
    let mut fr = vec![2u8, 0, 0, 1];
    fr.extend(body);
    let h = std::thread::Builder::new().stack_size(2 << 20).spawn(move || {
        let mut src = bytes::BytesMut::from(&fr[..]);
        let mut dec = fe2o3_amqp::frames::amqp::FrameDecoder {};
        let r = dec.decode(&mut src);
        let ok = r.is_ok();
        // dropping a deeply nested value recurses as well: leak it so that only decoding is measured
        std::mem::forget(r);
        ok
    });
    match h.map(|h| h.join()) {
        Ok(Ok(ok)) => println!("decoded {}", if ok { "ok" } else { "err" }),
        _ => println!("decoder panicked"),
    }
}
