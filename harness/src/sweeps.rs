//! Deterministic sweeps of the serde_amqp codec (C03, C04, C20) that complement the random
//! `enc` / `dec` cases of `codec.rs`.  Nothing here writes a case line: the sweeps only report
//! violations (`out.violation`) and what they explored (`out.add("sweep_<name>", n)`), so the
//! comparison of the case files with the external oracle is unaffected.
//!
//!  1. width-boundary round trips                       c03-roundtrip-boundary / c20-size-boundary
//!  2. truncation / byte-flip sweep over typed decodes  c04-panic-truncated
//!  3. allocation under forged length fields            c04-alloc-reader
//!  4. array element count limit                        c04-array-count-limit
//!  5. `from_reader` consumes exactly one value         c20-reader-overconsume
//!  6. value tree of maps with non-native keys          c20-value-tree-timestamp-key
use crate::out::Outputs;
use crate::val::hex;
use bytes::BytesMut;
use fe2o3_amqp::frames::amqp::{FrameBody, FrameDecoder};
use fe2o3_amqp::frames::sasl::Frame as SaslFrame;
use fe2o3_amqp_types::definitions::{self, AmqpError, ErrorCondition, Handle, LinkError, ReceiverSettleMode, Role, SenderSettleMode};
use fe2o3_amqp_types::messaging::message::__private::{Deserializable, Serializable};
use fe2o3_amqp_types::messaging::{
    Accepted, AmqpValue, ApplicationProperties, Body, DeliveryState, Header, Message, Priority, Properties, Rejected, Source,
    Target, TargetArchetype, TerminusDurability, TerminusExpiryPolicy,
};
use fe2o3_amqp_types::performatives::{
    Attach, Begin, ChannelMax, Close, Detach, Disposition, End, Flow, MaxFrameSize, Open, Performative, Transfer,
};
use fe2o3_amqp_types::primitives::SimpleValue;
use fe2o3_amqp_types::sasl::{SaslCode, SaslInit, SaslOutcome};
use serde::de::DeserializeOwned;
use serde::Serialize;
use serde_amqp::described::Described;
use serde_amqp::lazy::LazyValue;
use serde_amqp::primitives::{Array, Dec128, Dec32, Dec64, OrderedMap, Symbol, Timestamp, Uuid};
use serde_amqp::Value;
use serde_bytes::ByteBuf;
use std::collections::BTreeMap;
use std::fmt::Debug;
use std::panic::{catch_unwind, AssertUnwindSafe};
use tokio_util::codec::Decoder;

type Msg = Message<Body<Value>>;

/// The case line of a sweep violation (never written to the case file)
fn caseline(sweep: &str, b: &[u8]) -> String {
    format!("sweep {} {}", sweep, hex(b))
}

/// hex of the input, abbreviated in the middle when it is long (the label gives the recipe)
fn show(b: &[u8]) -> String {
    if b.len() <= 600 {
        hex(b)
    } else {
        format!("{}..({} bytes)..{}", hex(&b[..48]), b.len(), hex(&b[b.len() - 16..]))
    }
}

fn xorshift(s: &mut u64) -> u64 {
    let mut x = *s;
    x ^= x << 13;
    x ^= x >> 7;
    x ^= x << 17;
    *s = x;
    x
}

/* ------------------------------------------------------------------------------------- */
/* 1. width boundaries                                                                   */
/* ------------------------------------------------------------------------------------- */

/// length of the body (the bytes counted by the size field) of a variable-width or compound
/// encoding; None for other constructors
fn body_len(b: &[u8]) -> Option<usize> {
    match *b.first()? {
        0xa0 | 0xa1 | 0xa3 | 0xc0 | 0xc1 | 0xe0 => Some(b.len().checked_sub(2)?),
        0xb0 | 0xb1 | 0xb3 | 0xd0 | 0xd1 | 0xf0 => Some(b.len().checked_sub(5)?),
        _ => None,
    }
}

struct Boundary {
    explored: u64,
    /// (kind, body size) pairs that were hit
    hit: std::collections::BTreeSet<(String, usize)>,
    /// encodings kept for the reader sweep: one per kind on each side of the width switch
    keep: Vec<(String, Vec<u8>)>,
}

fn boundary_one<T>(out: &mut Outputs, st: &mut Boundary, kind: &str, n: usize, x: &T)
where
    T: Serialize + DeserializeOwned + PartialEq + Debug,
{
    st.explored += 1;
    let label = format!("{} n={}", kind, n);
    let enc = match catch_unwind(AssertUnwindSafe(|| serde_amqp::to_vec(x))) {
        Ok(Ok(b)) => b,
        other => {
            out.violation(
                "c03-roundtrip-boundary",
                &format!("c03-roundtrip-boundary: to_vec of {} fails: {:?}", label, other.map(|r| r.map(|_| ()).map_err(|e| format!("{:?}", e)))),
                &caseline("boundary", &[]),
            );
            return;
        }
    };
    if let Some(bl) = body_len(&enc) {
        st.hit.insert((kind.to_string(), bl));
        if bl == 254 || bl == 257 {
            st.keep.push((label.clone(), enc.clone()));
        }
    }
    match catch_unwind(AssertUnwindSafe(|| serde_amqp::serialized_size(x))) {
        Ok(Ok(sz)) if sz == enc.len() => {}
        other => out.violation(
            "c20-size-boundary",
            &format!(
                "c20-size-boundary: {}: serialized_size = {:?} but to_vec gives {} bytes: {}",
                label,
                other.map(|r| r.ok()),
                enc.len(),
                show(&enc)
            ),
            &caseline("boundary", &enc),
        ),
    }
    let back = catch_unwind(AssertUnwindSafe(|| serde_amqp::from_slice::<T>(&enc)));
    match &back {
        Ok(Ok(y)) if y == x => {}
        Ok(Ok(_)) => out.violation(
            "c03-roundtrip-boundary",
            &format!("c03-roundtrip-boundary: {}: decoding the encoding gives a different value: {}", label, show(&enc)),
            &caseline("boundary", &enc),
        ),
        Ok(Err(e)) => out.violation(
            "c03-roundtrip-boundary",
            &format!("c03-roundtrip-boundary: {}: the encoding does not decode ({:?}): {}", label, e, show(&enc)),
            &caseline("boundary", &enc),
        ),
        Err(_) => out.violation(
            "c03-roundtrip-boundary",
            &format!("c03-roundtrip-boundary: {}: decoding the encoding panics: {}", label, show(&enc)),
            &caseline("boundary", &enc),
        ),
    }
}

fn pattern(n: usize) -> Vec<u8> {
    (0..n).map(|i| (i % 251) as u8).collect()
}
fn ascii(n: usize) -> String {
    (0..n).map(|i| (b'a' + (i % 26) as u8) as char).collect()
}

fn sweep_boundary(out: &mut Outputs, thorough: bool) -> Vec<(String, Vec<u8>)> {
    let mut st = Boundary { explored: 0, hit: Default::default(), keep: Vec::new() };
    let mut ranges: Vec<(usize, usize, bool)> = vec![(230, 270, true)];
    if thorough {
        // only the variable-width scalars (a compound of that size adds nothing: the switch to
        // the 4-byte width happened at 256 already)
        ranges.push((65520, 65545, false));
    }
    for (lo, hi, compounds) in ranges {
        for n in lo..=hi {
            let bin = pattern(n);
            // serde_amqp values
            boundary_one(out, &mut st, "value-binary", n, &Value::Binary(ByteBuf::from(bin.clone())));
            boundary_one(out, &mut st, "value-string", n, &Value::String(ascii(n)));
            boundary_one(out, &mut st, "value-symbol", n, &Value::Symbol(Symbol(ascii(n))));
            // typed
            boundary_one(out, &mut st, "typed-bytebuf", n, &ByteBuf::from(bin.clone()));
            boundary_one(out, &mut st, "typed-string", n, &ascii(n));
            boundary_one(out, &mut st, "typed-symbol", n, &Symbol(ascii(n)));
            if !compounds {
                continue;
            }
            boundary_one(out, &mut st, "value-list-of-binary", n, &Value::List(vec![Value::Binary(ByteBuf::from(bin.clone()))]));
            boundary_one(out, &mut st, "value-list-of-string", n, &Value::List(vec![Value::Null, Value::String(ascii(n))]));
            let mut m = OrderedMap::new();
            m.insert(Value::String("k".into()), Value::Binary(ByteBuf::from(bin.clone())));
            boundary_one(out, &mut st, "value-map-k-binary", n, &Value::Map(m));
            let mut m = OrderedMap::new();
            m.insert(Value::Symbol(Symbol(ascii(n))), Value::Uint(n as u32));
            boundary_one(out, &mut st, "value-map-symbol-key", n, &Value::Map(m));
            boundary_one(out, &mut st, "value-array-of-ubyte", n, &Value::Array(Array(bin.iter().map(|b| Value::Ubyte(*b)).collect())));
            boundary_one(out, &mut st, "value-array-of-bool", n, &Value::Array(Array((0..n).map(|i| Value::Bool(i % 3 == 0)).collect())));
            boundary_one(out, &mut st, "value-array-of-one-string", n, &Value::Array(Array(vec![Value::String(ascii(n))])));
            boundary_one(out, &mut st, "value-array-of-one-binary", n, &Value::Array(Array(vec![Value::Binary(ByteBuf::from(bin.clone()))])));
            // count boundaries: n elements of one byte each / n entries
            boundary_one(out, &mut st, "value-list-of-null", n, &Value::List(vec![Value::Null; n]));
            boundary_one(out, &mut st, "value-list-of-bool", n, &Value::List((0..n).map(|i| Value::Bool(i % 2 == 0)).collect()));
            boundary_one(
                out,
                &mut st,
                "value-described-list",
                n,
                &Value::Described(Box::new(Described {
                    descriptor: serde_amqp::descriptor::Descriptor::Code(0x77),
                    value: Value::List(vec![Value::Binary(ByteBuf::from(bin.clone()))]),
                })),
            );
            // typed containers
            let mut bm: BTreeMap<String, ByteBuf> = BTreeMap::new();
            bm.insert("k".into(), ByteBuf::from(bin.clone()));
            boundary_one(out, &mut st, "typed-btreemap-string-bytebuf", n, &bm);
            let mut om: OrderedMap<String, ByteBuf> = OrderedMap::new();
            om.insert("k".into(), ByteBuf::from(bin.clone()));
            boundary_one(out, &mut st, "typed-orderedmap-string-bytebuf", n, &om);
            boundary_one(out, &mut st, "typed-vec-bytebuf", n, &vec![ByteBuf::from(bin.clone())]);
            boundary_one(out, &mut st, "typed-array-u8", n, &Array(bin.clone()));
            boundary_one(out, &mut st, "typed-array-bool", n, &Array((0..n).map(|i| i % 3 == 0).collect::<Vec<bool>>()));
            boundary_one(out, &mut st, "typed-vec-bool", n, &(0..n).map(|i| i % 2 == 0).collect::<Vec<bool>>());
        }
    }
    // a list of ubytes takes two bytes per element and a map of ushort -> null four per entry:
    // their own ranges put the body size and the count on the boundary
    for n in 115..=135usize {
        boundary_one(out, &mut st, "typed-vec-u8", n, &pattern(n));
        boundary_one(out, &mut st, "value-list-of-ubyte", n, &Value::List(pattern(n).into_iter().map(Value::Ubyte).collect()));
    }
    for n in 55..=135usize {
        let mut m = OrderedMap::new();
        let mut bm: BTreeMap<u16, ()> = BTreeMap::new();
        for i in 0..n {
            m.insert(Value::Ushort(i as u16), Value::Null);
            bm.insert(i as u16, ());
        }
        boundary_one(out, &mut st, "value-map-ushort-null", n, &Value::Map(m));
        boundary_one(out, &mut st, "typed-btreemap-u16-unit", n, &bm);
    }
    // Coverage of the body sizes 250..=260 per kind.  The variable-width scalars hit all eleven;
    // a compound cannot have a body of 256..=258 bytes (the count grows from one to four bytes
    // together with the size), and the kinds with two or four bytes per element step over some.
    let kinds: std::collections::BTreeSet<String> = st.hit.iter().map(|(k, _)| k.clone()).collect();
    let pairs = st.hit.iter().filter(|(_, s)| (250..=260).contains(s)).count();
    let full = kinds.iter().filter(|k| (250..=260usize).all(|s| st.hit.contains(&((*k).clone(), s)))).count();
    let both_sides = kinds
        .iter()
        .filter(|k| (250..=255usize).any(|s| st.hit.contains(&((*k).clone(), s))) && (256..=260usize).any(|s| st.hit.contains(&((*k).clone(), s))))
        .count();
    out.add("sweep_boundary", st.explored);
    out.add("sweep_boundary_kinds", kinds.len() as u64);
    out.add("sweep_boundary_kind_size_pairs_250_260", pairs as u64);
    out.add("sweep_boundary_kinds_hitting_all_of_250_260", full as u64);
    out.add("sweep_boundary_kinds_on_both_sides_of_255", both_sides as u64);
    if thorough {
        let big = kinds.iter().filter(|k| (65530..=65540usize).all(|s| st.hit.contains(&((*k).clone(), s)))).count();
        out.add("sweep_boundary_kinds_hitting_all_of_65530_65540", big as u64);
    }
    st.keep
}

/* ------------------------------------------------------------------------------------- */
/* fixed typed encodings                                                                 */
/* ------------------------------------------------------------------------------------- */

#[derive(Clone, Copy, PartialEq, Eq, Debug)]
enum Kind {
    Performative,
    Sasl,
    Message,
    DeliveryState,
    Value,
}

#[derive(Clone)]
struct Enc {
    name: String,
    kind: Kind,
    bytes: Vec<u8>,
}

fn sym(s: &str) -> Symbol {
    Symbol::from(s)
}

fn error_with_info() -> definitions::Error {
    let mut info = OrderedMap::new();
    info.insert(sym("k"), Value::Uint(7));
    info.insert(sym("when"), Value::Timestamp(Timestamp::from_milliseconds(1_700_000_000_000)));
    definitions::Error {
        condition: ErrorCondition::AmqpError(AmqpError::NotAllowed),
        description: Some("not allowed: \u{e9}\u{20ac}".to_string()),
        info: Some(Box::new(info)),
    }
}

fn fixed_message() -> Msg {
    let mut ap = OrderedMap::new();
    ap.insert("a".to_string(), SimpleValue::Long(-3));
    ap.insert("b".to_string(), SimpleValue::String("x".repeat(20)));
    ap.insert("c".to_string(), SimpleValue::Timestamp(Timestamp::from_milliseconds(42)));
    Message {
        header: Some(Header { durable: true, priority: Priority(7), ttl: Some(1000), first_acquirer: false, delivery_count: 3 }),
        delivery_annotations: None,
        message_annotations: None,
        properties: Some(Properties {
            message_id: Some(fe2o3_amqp_types::messaging::MessageId::Ulong(77)),
            user_id: Some(ByteBuf::from(vec![1u8, 2, 3])),
            to: Some("queue-1".into()),
            subject: Some("subject".into()),
            reply_to: None,
            correlation_id: Some(fe2o3_amqp_types::messaging::MessageId::String("corr".into())),
            content_type: Some(sym("text/plain")),
            content_encoding: None,
            absolute_expiry_time: Some(Timestamp::from_milliseconds(1_700_000_000_123)),
            creation_time: Some(Timestamp::from_milliseconds(1_700_000_000_000)),
            group_id: Some("g".into()),
            group_sequence: Some(9),
            reply_to_group_id: None,
        }),
        application_properties: Some(ApplicationProperties(ap)),
        body: Body::Value(AmqpValue(Value::List(vec![Value::String("hello".into()), Value::Uint(300), Value::Binary(ByteBuf::from(vec![9u8; 12]))]))),
        footer: None,
    }
}

/// Rewrite the leading small-ulong descriptor `00 53 xx` of an encoding into the full ulong
/// form (`form == 1`) or the symbol form (`form == 2`, `name`)
fn rewrite_descriptor(enc: &[u8], form: u8, name: &str) -> Vec<u8> {
    assert!(enc.len() >= 3 && enc[0] == 0x00 && enc[1] == 0x53, "encoding starts with a small ulong descriptor");
    let mut v = vec![0x00u8];
    match form {
        1 => {
            v.push(0x80);
            v.extend_from_slice(&(enc[2] as u64).to_be_bytes());
        }
        _ => {
            v.push(0xa3);
            v.push(name.len() as u8);
            v.extend_from_slice(name.as_bytes());
        }
    }
    v.extend_from_slice(&enc[3..]);
    v
}

/// Replace the last `old_tail.len()` bytes (which must be `old_tail`) of a described list
/// `00 53 xx c0 size count ..` / `00 53 xx d0 size32 count32 ..` by `new_tail`, fixing the size
fn replace_tail(enc: &[u8], old_tail: &[u8], new_tail: &[u8]) -> Vec<u8> {
    assert!(enc.ends_with(old_tail) && enc[0] == 0x00 && enc[1] == 0x53);
    let mut v = enc[..enc.len() - old_tail.len()].to_vec();
    v.extend_from_slice(new_tail);
    match enc[3] {
        0xc0 => {
            let size = enc[4] as usize + new_tail.len() - old_tail.len();
            assert!(size <= 255);
            v[4] = size as u8;
        }
        0xd0 => {
            let size = u32::from_be_bytes([enc[4], enc[5], enc[6], enc[7]]) as usize + new_tail.len() - old_tail.len();
            v[4..8].copy_from_slice(&(size as u32).to_be_bytes());
        }
        c => panic!("replace_tail: not a list ({:#x})", c),
    }
    v
}

const ACCEPTED_SMALL: [u8; 4] = [0x00, 0x53, 0x24, 0x45];
fn accepted_ulong() -> Vec<u8> {
    rewrite_descriptor(&ACCEPTED_SMALL, 1, "")
}
fn accepted_symbol() -> Vec<u8> {
    rewrite_descriptor(&ACCEPTED_SMALL, 2, "amqp:accepted:list")
}

fn transfer_with_state() -> Transfer {
    Transfer {
        handle: Handle(1),
        delivery_id: Some(5),
        delivery_tag: Some(ByteBuf::from(vec![0xaa, 0xbb, 0xcc, 0xdd])),
        message_format: Some(0),
        settled: Some(false),
        more: false,
        rcv_settle_mode: Some(ReceiverSettleMode::Second),
        state: Some(DeliveryState::Accepted(Accepted {})),
        resume: false,
        aborted: false,
        batchable: false,
    }
}

fn fixed_encodings() -> Vec<Enc> {
    let mut v: Vec<Enc> = Vec::new();
    let mut perf = |name: &str, p: Performative| {
        v.push(Enc { name: name.to_string(), kind: Kind::Performative, bytes: serde_amqp::to_vec(&p).expect("performative encodes") });
    };
    let mut props = OrderedMap::new();
    props.insert(sym("product"), Value::String("sweep".into()));
    props.insert(sym("version"), Value::List(vec![Value::Uint(1), Value::Uint(0)]));
    perf(
        "open",
        Performative::Open(Open {
            container_id: "container-\u{e9}".into(),
            hostname: Some("example.org".into()),
            max_frame_size: MaxFrameSize(65536),
            channel_max: ChannelMax(255),
            idle_time_out: Some(30_000),
            outgoing_locales: Some(Array(vec![sym("en-US")])),
            incoming_locales: None,
            offered_capabilities: Some(Array(vec![sym("ANONYMOUS-RELAY"), sym("x")])),
            desired_capabilities: None,
            properties: Some(props.clone()),
        }),
    );
    perf(
        "begin",
        Performative::Begin(Begin {
            remote_channel: Some(3),
            next_outgoing_id: 1,
            incoming_window: 2048,
            outgoing_window: u32::MAX,
            handle_max: Handle(255),
            offered_capabilities: None,
            desired_capabilities: Some(Array(vec![sym("cap")])),
            properties: Some(props.clone()),
        }),
    );
    let mut unsettled = OrderedMap::new();
    unsettled.insert(ByteBuf::from(vec![1u8, 2]), Some(DeliveryState::Accepted(Accepted {})));
    unsettled.insert(ByteBuf::from(vec![3u8]), None);
    perf(
        "attach",
        Performative::Attach(Attach {
            name: "link-1".into(),
            handle: Handle(0),
            role: Role::Sender,
            snd_settle_mode: SenderSettleMode::Mixed,
            rcv_settle_mode: ReceiverSettleMode::Second,
            source: Some(Box::new(Source {
                address: Some("src".into()),
                durable: TerminusDurability::UnsettledState,
                expiry_policy: TerminusExpiryPolicy::Never,
                timeout: 10,
                dynamic: false,
                dynamic_node_properties: None,
                distribution_mode: None,
                filter: None,
                default_outcome: None,
                outcomes: Some(Array(vec![sym("amqp:accepted:list"), sym("amqp:rejected:list")])),
                capabilities: Some(Array(vec![sym("queue")])),
            })),
            target: Some(Box::new(TargetArchetype::Target(Target {
                address: Some("tgt".into()),
                durable: TerminusDurability::None,
                expiry_policy: TerminusExpiryPolicy::SessionEnd,
                timeout: 0,
                dynamic: false,
                dynamic_node_properties: None,
                capabilities: None,
            }))),
            unsettled: Some(unsettled),
            incomplete_unsettled: false,
            initial_delivery_count: Some(0),
            max_message_size: Some(1 << 20),
            offered_capabilities: None,
            desired_capabilities: None,
            properties: Some(props.clone()),
        }),
    );
    perf(
        "flow",
        Performative::Flow(Flow {
            next_incoming_id: Some(1),
            incoming_window: 2048,
            next_outgoing_id: 300,
            outgoing_window: 2048,
            handle: Some(Handle(0)),
            delivery_count: Some(256),
            link_credit: Some(100),
            available: None,
            drain: true,
            echo: false,
            properties: None,
        }),
    );
    perf("transfer", Performative::Transfer(transfer_with_state()));
    perf(
        "disposition-accepted",
        Performative::Disposition(Disposition {
            role: Role::Receiver,
            first: 1,
            last: Some(300),
            settled: true,
            state: Some(DeliveryState::Accepted(Accepted {})),
            batchable: false,
        }),
    );
    perf(
        "disposition-rejected",
        Performative::Disposition(Disposition {
            role: Role::Receiver,
            first: 0,
            last: None,
            settled: false,
            state: Some(DeliveryState::Rejected(Rejected { error: Some(error_with_info()) })),
            batchable: true,
        }),
    );
    perf(
        "detach",
        Performative::Detach(Detach {
            handle: Handle(2),
            closed: true,
            error: Some(definitions::Error {
                condition: ErrorCondition::LinkError(LinkError::DetachForced),
                description: Some("bye".into()),
                info: None,
            }),
        }),
    );
    perf("end", Performative::End(End { error: None }));
    perf("close", Performative::Close(Close { error: Some(error_with_info()) }));
    drop(perf);

    let init = SaslInit { mechanism: sym("PLAIN"), initial_response: Some(ByteBuf::from(b"\0user\0secret".to_vec())), hostname: Some("example.org".into()) };
    v.push(Enc { name: "sasl-init".into(), kind: Kind::Sasl, bytes: serde_amqp::to_vec(&init).expect("sasl init encodes") });
    let outcome = SaslOutcome { code: SaslCode::Auth, additional_data: Some(ByteBuf::from(vec![1u8, 2, 3, 4])) };
    v.push(Enc { name: "sasl-outcome".into(), kind: Kind::Sasl, bytes: serde_amqp::to_vec(&outcome).expect("sasl outcome encodes") });

    let m = fixed_message();
    v.push(Enc { name: "message".into(), kind: Kind::Message, bytes: serde_amqp::to_vec(&Serializable(&m)).expect("message encodes") });

    // the three descriptor forms, hand-crafted from the small-ulong encodings
    let rejected = serde_amqp::to_vec(&DeliveryState::Rejected(Rejected { error: Some(error_with_info()) })).expect("rejected encodes");
    v.push(Enc { name: "accepted-small-ulong".into(), kind: Kind::DeliveryState, bytes: ACCEPTED_SMALL.to_vec() });
    v.push(Enc { name: "accepted-ulong".into(), kind: Kind::DeliveryState, bytes: accepted_ulong() });
    v.push(Enc { name: "accepted-symbol".into(), kind: Kind::DeliveryState, bytes: accepted_symbol() });
    v.push(Enc { name: "rejected-small-ulong".into(), kind: Kind::DeliveryState, bytes: rejected.clone() });
    v.push(Enc { name: "rejected-ulong".into(), kind: Kind::DeliveryState, bytes: rewrite_descriptor(&rejected, 1, "") });
    v.push(Enc { name: "rejected-symbol".into(), kind: Kind::DeliveryState, bytes: rewrite_descriptor(&rejected, 2, "amqp:rejected:list") });
    let open = v[0].bytes.clone();
    v.push(Enc { name: "open-ulong".into(), kind: Kind::Performative, bytes: rewrite_descriptor(&open, 1, "") });
    v.push(Enc { name: "open-symbol".into(), kind: Kind::Performative, bytes: rewrite_descriptor(&open, 2, "amqp:open:list") });
    // a described value that is no protocol type
    v.push(Enc { name: "described-unknown-symbol".into(), kind: Kind::Value, bytes: rewrite_descriptor(&[0x00, 0x53, 0x01, 0xa1, 0x03, b'a', b'b', b'c'], 2, "com.example:thing") });
    v
}

/* ------------------------------------------------------------------------------------- */
/* 2. truncation and byte flips                                                          */
/* ------------------------------------------------------------------------------------- */

/// decode as every target type; returns the names of the targets that panicked
fn decode_all_targets(b: &[u8], with_reader: bool) -> Vec<&'static str> {
    // a decoder that does not return (a loop that consumes nothing) is reported like a panic, not waited for
    let owned = b.to_vec();
    match crate::out::guarded(20, move || decode_all_targets_inner(&owned, with_reader)) {
        Some(v) => v,
        None => {
            if crate::out::SPUN.swap(true, std::sync::atomic::Ordering::SeqCst) && SPIN_REPORTED.swap(true, std::sync::atomic::Ordering::SeqCst) {
                Vec::new()
            } else {
                vec!["one of the decoders (from_slice / from_reader over Value, Performative, sasl::Frame, Message, Described, LazyValue, DeliveryState) does not return within 20 s: it"]
            }
        }
    }
}

static SPIN_REPORTED: std::sync::atomic::AtomicBool = std::sync::atomic::AtomicBool::new(false);

fn decode_all_targets_inner(b: &[u8], with_reader: bool) -> Vec<&'static str> {
    let mut panicked = Vec::new();
    macro_rules! target {
        ($name:expr, $t:ty) => {
            if catch_unwind(AssertUnwindSafe(|| {
                let _ = serde_amqp::from_slice::<$t>(b);
            }))
            .is_err()
            {
                panicked.push(concat!("from_slice::<", $name, ">"));
            }
            if with_reader
                && catch_unwind(AssertUnwindSafe(|| {
                    let _ = serde_amqp::from_reader::<$t>(b);
                }))
                .is_err()
            {
                panicked.push(concat!("from_reader::<", $name, ">"));
            }
        };
    }
    target!("Value", Value);
    target!("Performative", Performative);
    target!("sasl::Frame", SaslFrame);
    target!("Deserializable<Message<Body<Value>>>", Deserializable<Msg>);
    target!("Described<Value>", Described<Value>);
    target!("LazyValue", LazyValue);
    target!("DeliveryState", DeliveryState);
    panicked
}

fn sweep_truncated(out: &mut Outputs, encs: &[Enc], thorough: bool) {
    let mut decodes = 0u64;
    let mut prefixes = 0u64;
    for e in encs {
        for cut in 0..=e.bytes.len() {
            let p = &e.bytes[..cut];
            prefixes += 1;
            decodes += 14;
            for t in decode_all_targets(p, true) {
                out.violation(
                    "c04-panic-truncated",
                    &format!("c04-panic-truncated: {} panics on the first {} of {} bytes of {}: {}", t, cut, e.bytes.len(), e.name, hex(p)),
                    &caseline("truncated", p),
                );
            }
        }
    }
    out.add("sweep_truncated", prefixes);
    // 1..=3 flipped bytes, fixed seed
    let mut s: u64 = 0x9E37_79B9_7F4A_7C15;
    let per = if thorough { 4000 } else { 1000 };
    let mut flips = 0u64;
    for e in encs {
        for _ in 0..per {
            let mut b = e.bytes.clone();
            let k = 1 + (xorshift(&mut s) % 3) as usize;
            for _ in 0..k {
                let i = (xorshift(&mut s) % b.len() as u64) as usize;
                let x = xorshift(&mut s);
                // half of the flips are single bits, the others replace the byte
                if x & 1 == 0 {
                    b[i] ^= 1 << ((x >> 1) % 8);
                } else {
                    b[i] = (x >> 8) as u8;
                }
            }
            flips += 1;
            decodes += 7;
            for t in decode_all_targets(&b, false) {
                out.violation(
                    "c04-panic-truncated",
                    &format!("c04-panic-truncated: {} panics on {} with {} bytes changed: {}", t, e.name, k, hex(&b)),
                    &caseline("flipped", &b),
                );
            }
        }
    }
    out.add("sweep_flipped", flips);
    out.add("sweep_truncated_decodes", decodes);
}

/* ------------------------------------------------------------------------------------- */
/* 3. allocation under forged lengths                                                    */
/* ------------------------------------------------------------------------------------- */

fn forged_lengths() -> Vec<Vec<u8>> {
    let mut v: Vec<Vec<u8>> = vec![
        vec![0xb0, 0x10, 0, 0, 0, 0x61, 0x62, 0x63],
        vec![0xb0, 0x7f, 0xff, 0xff, 0xff, 0x61],
        vec![0xb0, 0xff, 0xff, 0xff, 0xff, 0x61],
        vec![0xb1, 0x10, 0, 0, 0, 0x61, 0x62, 0x63],
        vec![0xb1, 0x7f, 0xff, 0xff, 0xff, 0x61],
        vec![0xb3, 0x10, 0, 0, 0, 0x61],
        vec![0xb3, 0x7f, 0xff, 0xff, 0xff, 0x61],
        vec![0xa0, 0xff, 0x61],
        vec![0xa1, 0xff, 0x61],
        vec![0xa3, 0xff, 0x61],
        // compound: huge size, small count / small size, huge count / both
        vec![0xd0, 0x10, 0, 0, 0, 0, 0, 0, 1, 0x41],
        vec![0xd0, 0x10, 0, 0, 0, 0x00, 0x00, 0xff, 0xff, 0x41],
        vec![0xd0, 0, 0, 0, 5, 0x7f, 0xff, 0xff, 0xff, 0x41],
        vec![0xd0, 0x7f, 0xff, 0xff, 0xff, 0x7f, 0xff, 0xff, 0xff, 0x41],
        vec![0xd1, 0x10, 0, 0, 0, 0, 0, 0, 2, 0x41, 0x41],
        vec![0xd1, 0x10, 0, 0, 0, 0x00, 0x00, 0xff, 0xfe, 0x41, 0x41],
        vec![0xd1, 0, 0, 0, 6, 0x7f, 0xff, 0xff, 0xfe, 0x41, 0x41],
        vec![0xf0, 0x10, 0, 0, 0, 0, 0, 0, 1, 0x50, 0x01],
        vec![0xf0, 0x10, 0, 0, 0, 0x00, 0x00, 0xff, 0xff, 0x50, 0x01],
        vec![0xf0, 0x10, 0, 0, 0, 0x00, 0x00, 0xff, 0xff, 0xb0, 0x10, 0, 0, 0, 0x61],
        vec![0xf0, 0x10, 0, 0, 0, 0x00, 0x00, 0xff, 0xff, 0xa1, 0xff, 0x61],
        vec![0xf0, 0x7f, 0xff, 0xff, 0xff, 0x7f, 0xff, 0xff, 0xff, 0x50, 0x01],
        vec![0xc0, 0xff, 0xff, 0x41],
        vec![0xc1, 0xff, 0xfe, 0x41, 0x41],
        vec![0xe0, 0xff, 0xff, 0x50, 0x01],
        vec![0xe0, 0xff, 0xff, 0xb0, 0x10, 0, 0, 0, 0x61],
    ];
    // the same behind a descriptor, and with a forged symbol descriptor
    let inner: Vec<Vec<u8>> = v.iter().take(8).cloned().collect();
    for b in inner {
        let mut d = vec![0x00, 0x53, 0x77];
        d.extend_from_slice(&b);
        v.push(d);
    }
    v.push(vec![0x00, 0xb3, 0x10, 0, 0, 0, 0x61, 0x40]);
    v.push(vec![0x00, 0xb3, 0x7f, 0xff, 0xff, 0xff, 0x61, 0x40]);
    v.push(vec![0x00, 0xa3, 0xff, 0x61, 0x40]);
    v
}

fn sweep_alloc(out: &mut Outputs) {
    const LIMIT: usize = 1 << 20;
    let mut n = 0u64;
    for b in forged_lengths() {
        assert!(b.len() < 64);
        macro_rules! measure {
            ($how:expr, $call:expr) => {{
                let base = crate::alloc::reset_peak();
                let r = catch_unwind(AssertUnwindSafe(|| $call.is_ok()));
                let peak = crate::alloc::peak_since(base);
                n += 1;
                if peak > LIMIT {
                    out.violation(
                        "c04-alloc-reader",
                        &format!("c04-alloc-reader: {} on the {} bytes {} allocated {} bytes", $how, b.len(), hex(&b), peak),
                        &caseline("alloc", &b),
                    );
                }
                if r.is_err() {
                    out.violation(
                        "c04-panic-truncated",
                        &format!("c04-panic-truncated: {} panics on the forged length {}", $how, hex(&b)),
                        &caseline("alloc", &b),
                    );
                }
            }};
        }
        measure!("from_reader::<Value>", serde_amqp::from_reader::<Value>(&b[..]));
        measure!("from_slice::<Value>", serde_amqp::from_slice::<Value>(&b));
        measure!("from_reader::<LazyValue>", serde_amqp::from_reader::<LazyValue>(&b[..]));
        measure!("from_slice::<LazyValue>", serde_amqp::from_slice::<LazyValue>(&b));
        measure!("from_reader::<ByteBuf>", serde_amqp::from_reader::<ByteBuf>(&b[..]));
        measure!("from_slice::<ByteBuf>", serde_amqp::from_slice::<ByteBuf>(&b));
        measure!("from_reader::<String>", serde_amqp::from_reader::<String>(&b[..]));
        measure!("from_slice::<String>", serde_amqp::from_slice::<String>(&b));
        measure!("from_reader::<Symbol>", serde_amqp::from_reader::<Symbol>(&b[..]));
        measure!("from_reader::<Vec<Value>>", serde_amqp::from_reader::<Vec<Value>>(&b[..]));
        measure!("from_slice::<Vec<Value>>", serde_amqp::from_slice::<Vec<Value>>(&b));
        measure!("from_reader::<Array<u8>>", serde_amqp::from_reader::<Array<u8>>(&b[..]));
        measure!("from_reader::<OrderedMap<Value, Value>>", serde_amqp::from_reader::<OrderedMap<Value, Value>>(&b[..]));
        measure!("from_reader::<Described<Value>>", serde_amqp::from_reader::<Described<Value>>(&b[..]));
        measure!("from_reader::<Performative>", serde_amqp::from_reader::<Performative>(&b[..]));
        measure!("from_reader::<Deserializable<Message>>", serde_amqp::from_reader::<Deserializable<Msg>>(&b[..]));
    }
    out.add("sweep_alloc", n);
}

/* ------------------------------------------------------------------------------------- */
/* 4. array element count limit                                                          */
/* ------------------------------------------------------------------------------------- */

fn sweep_array_count(out: &mut Outputs) {
    const LIMIT: usize = 8 << 20;
    let mut n = 0u64;
    let ctors = [0x40u8, 0x41, 0x42, 0x43, 0x44, 0x45];
    let mut check = |out: &mut Outputs, how: &str, b: &[u8], count: usize, r: &dyn Fn(&[u8]) -> Option<usize>| {
        let base = crate::alloc::reset_peak();
        let t0 = std::time::Instant::now();
        let res = catch_unwind(AssertUnwindSafe(|| r(b)));
        let dt = t0.elapsed();
        let peak = crate::alloc::peak_since(base);
        n += 1;
        let mut bad = Vec::new();
        match res {
            Err(_) => bad.push("it panics".to_string()),
            // counts up to 65_536 are not reported here (known finding, reported elsewhere)
            Ok(Some(len)) if count > 65_536 => bad.push(format!("it is accepted and decodes into {} elements", len)),
            _ => {}
        }
        if peak >= LIMIT {
            bad.push(format!("it allocates {} bytes", peak));
        }
        // the rejection takes microseconds; two seconds can only be an iteration over the count
        if dt.as_secs() >= 2 {
            bad.push(format!("it takes {} ms", dt.as_millis()));
        }
        for w in bad {
            out.violation(
                "c04-array-count-limit",
                &format!("c04-array-count-limit: {} of the {}-byte array header {} claiming {} zero-width elements: {}", how, b.len(), hex(b), count, w),
                &caseline("array-count", b),
            );
        }
    };
    for &c in &ctors {
        for &count in &[65_537usize, 100_000, 2_000_000] {
            for &size in &[0x00ff_ffffu32, 0x7fff_ffff, 1] {
                let mut b = vec![0xf0];
                b.extend_from_slice(&size.to_be_bytes());
                b.extend_from_slice(&(count as u32).to_be_bytes());
                b.push(c);
                // a size smaller than the count is rejected for another reason; it must still be rejected
                check(out, "from_slice::<Value>", &b, count, &|b| match serde_amqp::from_slice::<Value>(b) {
                    Ok(Value::Array(a)) => Some(a.0.len()),
                    Ok(_) => Some(0),
                    Err(_) => None,
                });
                check(out, "from_reader::<Value>", &b, count, &|b| match serde_amqp::from_reader::<Value>(b) {
                    Ok(Value::Array(a)) => Some(a.0.len()),
                    Ok(_) => Some(0),
                    Err(_) => None,
                });
                match c {
                    0x41 | 0x42 => {
                        check(out, "from_slice::<Array<bool>>", &b, count, &|b| serde_amqp::from_slice::<Array<bool>>(b).ok().map(|a| a.0.len()));
                        check(out, "from_slice::<Vec<bool>>", &b, count, &|b| serde_amqp::from_slice::<Vec<bool>>(b).ok().map(|a| a.len()));
                    }
                    0x43 => check(out, "from_slice::<Array<u32>>", &b, count, &|b| serde_amqp::from_slice::<Array<u32>>(b).ok().map(|a| a.0.len())),
                    0x44 => check(out, "from_slice::<Array<u64>>", &b, count, &|b| serde_amqp::from_slice::<Array<u64>>(b).ok().map(|a| a.0.len())),
                    0x45 => check(out, "from_slice::<Array<Vec<Value>>>", &b, count, &|b| {
                        serde_amqp::from_slice::<Array<Vec<Value>>>(b).ok().map(|a| a.0.len())
                    }),
                    _ => check(out, "from_slice::<Array<()>>", &b, count, &|b| serde_amqp::from_slice::<Array<()>>(b).ok().map(|a| a.0.len())),
                }
                // the same array as a field of a described list (how it reaches a performative)
                let mut d = vec![0x00, 0x53, 0x77, 0xd0];
                d.extend_from_slice(&(b.len() as u32 + 4).to_be_bytes());
                d.extend_from_slice(&1u32.to_be_bytes());
                d.extend_from_slice(&b);
                check(out, "from_slice::<Value> (inside a described list)", &d, count, &|b| match serde_amqp::from_slice::<Value>(b) {
                    Ok(_) => Some(count),
                    Err(_) => None,
                });
            }
        }
        // array8: the count cannot exceed the limit; only the allocation and the absence of a panic are checked
        for &(size, count) in &[(0xffu8, 0xffu8), (0x02, 0xff), (0x01, 0xff)] {
            let b = vec![0xe0, size, count, c];
            check(out, "from_slice::<Value>", &b, count as usize, &|b| serde_amqp::from_slice::<Value>(b).ok().map(|_| 0));
            check(out, "from_reader::<Value>", &b, count as usize, &|b| serde_amqp::from_reader::<Value>(b).ok().map(|_| 0));
        }
    }
    out.add("sweep_array_count", n);
}

/* ------------------------------------------------------------------------------------- */
/* 5. from_reader consumes exactly one value                                             */
/* ------------------------------------------------------------------------------------- */

/// A reader over a slice that hands out at most `k` bytes per `read` call and counts them
struct ChunkReader<'a> {
    data: &'a [u8],
    pos: usize,
    k: usize,
    calls: usize,
}
impl std::io::Read for ChunkReader<'_> {
    fn read(&mut self, buf: &mut [u8]) -> std::io::Result<usize> {
        self.calls += 1;
        let n = self.k.min(buf.len()).min(self.data.len() - self.pos);
        buf[..n].copy_from_slice(&self.data[self.pos..self.pos + n]);
        self.pos += n;
        Ok(n)
    }
}

/// 16 distinct bytes that look like the start of a message payload
const TRAILER: [u8; 16] = [0x00, 0x53, 0x77, 0xa1, 0x0b, b'h', b'e', b'l', b'o', b' ', b'w', b'r', b'd', b'!', b'#', b'%'];
const CHUNKS: [usize; 10] = [1, 2, 3, 4, 5, 6, 7, 8, 9, 64];

/// Decode `enc ++ trailer` as `T` through chunked readers; `T` must decode the whole of `enc`
/// from a slice.  On the unchanged tree `IoReader` never reads ahead of what the deserializer
/// asked for (it fills its buffer through `Read::take`), so the check is exact for every chunk
/// size and every type below; the only exception is the message wrapper, whose decoder reads
/// sections until the end of the stream by design: it is swept without a trailer.
fn reader_one<T>(out: &mut Outputs, n: &mut u64, tname: &str, name: &str, enc: &[u8], trailer: &[u8], same: &dyn Fn(&T, &T) -> bool)
where
    T: DeserializeOwned + Debug,
{
    let reference = match catch_unwind(AssertUnwindSafe(|| serde_amqp::from_slice::<T>(enc))) {
        Ok(Ok(v)) => v,
        // not decodable as T from a slice: nothing to compare (other checks cover that)
        _ => return,
    };
    let mut stream = enc.to_vec();
    stream.extend_from_slice(trailer);
    for &k in &CHUNKS {
        *n += 1;
        let mut rd = ChunkReader { data: &stream, pos: 0, k, calls: 0 };
        let res = catch_unwind(AssertUnwindSafe(|| serde_amqp::from_reader::<T>(&mut rd)));
        let what = |w: String| {
            format!(
                "c20-reader-overconsume: from_reader::<{}> over {} ({} bytes) followed by {} more bytes, {} bytes per read: {}: {}",
                tname,
                name,
                enc.len(),
                trailer.len(),
                k,
                w,
                show(&stream)
            )
        };
        match res {
            Err(_) => out.violation("c20-reader-overconsume", &what("it panics".into()), &caseline("reader", &stream)),
            Ok(Err(e)) => out.violation(
                "c20-reader-overconsume",
                &what(format!("it fails with {:?} although from_slice decodes the same bytes", e)),
                &caseline("reader", &stream),
            ),
            Ok(Ok(v)) => {
                if rd.pos != enc.len() {
                    out.violation(
                        "c20-reader-overconsume",
                        &what(format!("it took {} bytes from the stream instead of {}", rd.pos, enc.len())),
                        &caseline("reader", &stream),
                    );
                }
                if !same(&v, &reference) {
                    out.violation(
                        "c20-reader-overconsume",
                        &what(format!("it decodes {:?} but from_slice decodes {:?}", v, reference)),
                        &caseline("reader", &stream),
                    );
                }
            }
        }
    }
}

fn dbg_same<T: Debug>(a: &T, b: &T) -> bool {
    format!("{:?}", a) == format!("{:?}", b)
}

fn sweep_reader(out: &mut Outputs, encs: &[Enc], boundary: &[(String, Vec<u8>)]) {
    let mut n = 0u64;
    for e in encs {
        match e.kind {
            Kind::Message => {
                reader_one::<Deserializable<Msg>>(out, &mut n, "Deserializable<Message<Body<Value>>>", &e.name, &e.bytes, &[], &|a, b| a.0 == b.0);
                continue;
            }
            Kind::Performative => reader_one::<Performative>(out, &mut n, "Performative", &e.name, &e.bytes, &TRAILER, &|a, b| a == b),
            Kind::Sasl => reader_one::<SaslFrame>(out, &mut n, "sasl::Frame", &e.name, &e.bytes, &TRAILER, &dbg_same),
            Kind::DeliveryState => reader_one::<DeliveryState>(out, &mut n, "DeliveryState", &e.name, &e.bytes, &TRAILER, &|a, b| a == b),
            Kind::Value => {}
        }
        // every one of them is one described value
        reader_one::<Value>(out, &mut n, "Value", &e.name, &e.bytes, &TRAILER, &|a, b| a == b);
        reader_one::<Described<Value>>(out, &mut n, "Described<Value>", &e.name, &e.bytes, &TRAILER, &|a, b| a == b);
    }
    for (name, b) in boundary {
        reader_one::<Value>(out, &mut n, "Value", name, b, &TRAILER, &|a, b| a == b);
    }
    // scalars of every width followed by a trailer, and the same as the only field of a list
    let scalars: Vec<Vec<u8>> = vec![
        vec![0x40],
        vec![0x41],
        vec![0x43],
        vec![0x44],
        vec![0x45],
        vec![0x50, 0x07],
        vec![0x52, 0x07],
        vec![0x53, 0x07],
        vec![0x54, 0xff],
        vec![0x55, 0xff],
        vec![0x56, 0x01],
        vec![0x60, 0x01, 0x02],
        vec![0x70, 0, 0, 1, 0],
        vec![0x80, 0, 0, 0, 0, 0, 0, 1, 0],
        vec![0x83, 0, 0, 1, 0x8b, 0xcf, 0xe5, 0x68, 0x00],
        vec![0x98, 1, 2, 3, 4, 5, 6, 7, 8, 9, 10, 11, 12, 13, 14, 15, 16],
        vec![0x73, 0, 0, 0x20, 0xac],
        vec![0xa0, 0x00],
        vec![0xa1, 0x00],
        vec![0xa3, 0x00],
        vec![0xa1, 0x03, b'a', b'b', b'c'],
        vec![0xb0, 0, 0, 0, 2, 0xaa, 0xbb],
        vec![0xc0, 0x01, 0x00],
        vec![0xc1, 0x01, 0x00],
        vec![0xe0, 0x01, 0x00],
        vec![0xd0, 0, 0, 0, 4, 0, 0, 0, 0],
        vec![0xf0, 0, 0, 0, 4, 0, 0, 0, 0],
        vec![0xe0, 0x04, 0x02, 0x50, 0x01, 0x02],
        vec![0xc1, 0x05, 0x02, 0xa1, 0x01, b'k', 0x41],
    ];
    for s in &scalars {
        reader_one::<Value>(out, &mut n, "Value", "scalar", s, &TRAILER, &|a, b| a == b);
        let mut l = vec![0xc0, s.len() as u8 + 1, 0x01];
        l.extend_from_slice(s);
        reader_one::<Value>(out, &mut n, "Value", "list-of-one", &l, &TRAILER, &|a, b| a == b);
    }
    // DeliveryState::Accepted as the last field of a Transfer, in the three descriptor forms,
    // followed by the payload: through from_reader and through the frame decoder
    let t = transfer_with_state();
    let base = serde_amqp::to_vec(&Performative::Transfer(t.clone())).expect("transfer encodes");
    if !base.ends_with(&ACCEPTED_SMALL) {
        // the encoder does not drop the trailing default fields any more: nothing to re-write
        out.add("sweep_reader_transfer_skipped", 1);
    } else {
        let forms: [(&str, Vec<u8>); 3] = [
            ("transfer-state-accepted-small-ulong", base.clone()),
            ("transfer-state-accepted-ulong", replace_tail(&base, &ACCEPTED_SMALL, &accepted_ulong())),
            ("transfer-state-accepted-symbol", replace_tail(&base, &ACCEPTED_SMALL, &accepted_symbol())),
        ];
        let payloads: [&[u8]; 3] = [&TRAILER, &[0x00], &[]];
        for (name, perf) in &forms {
            for payload in payloads {
                reader_one::<Performative>(out, &mut n, "Performative", name, perf, payload, &|a, b| a == b);
                // frame decoder: doff, type, channel, performative, payload
                n += 1;
                let mut src = BytesMut::new();
                src.extend_from_slice(&[0x02, 0x00, 0x00, 0x05]);
                src.extend_from_slice(perf);
                src.extend_from_slice(payload);
                let whole = src.to_vec();
                let res = catch_unwind(AssertUnwindSafe(|| {
                    let mut dec = FrameDecoder {};
                    dec.decode(&mut src)
                }));
                let what = |w: String| {
                    format!(
                        "c20-reader-overconsume: FrameDecoder on a frame body {} ({} bytes) followed by a payload of {} bytes: {}: {}",
                        name,
                        perf.len(),
                        payload.len(),
                        w,
                        hex(&whole)
                    )
                };
                match res {
                    Err(_) => out.violation("c20-reader-overconsume", &what("it panics".into()), &caseline("reader-frame", &whole)),
                    Ok(Err(e)) => out.violation("c20-reader-overconsume", &what(format!("it fails with {:?}", e)), &caseline("reader-frame", &whole)),
                    Ok(Ok(Some(f))) => match f.body {
                        FrameBody::Transfer { performative, payload: got } => {
                            if got.as_ref() != payload {
                                out.violation(
                                    "c20-reader-overconsume",
                                    &what(format!("the payload handed on is {} instead of {}", hex(got.as_ref()), hex(payload))),
                                    &caseline("reader-frame", &whole),
                                );
                            }
                            if performative != t || f.channel != 5 {
                                out.violation(
                                    "c20-reader-overconsume",
                                    &what(format!("the performative is {:?} on channel {}", performative, f.channel)),
                                    &caseline("reader-frame", &whole),
                                );
                            }
                        }
                        other => out.violation("c20-reader-overconsume", &what(format!("it gives {:?}", other)), &caseline("reader-frame", &whole)),
                    },
                    Ok(Ok(None)) => out.violation("c20-reader-overconsume", &what("it gives no frame".into()), &caseline("reader-frame", &whole)),
                }
            }
        }
    }
    // bare delivery states in the three forms are in `encs` already (kind DeliveryState)
    out.add("sweep_reader", n);
}

/* ------------------------------------------------------------------------------------- */
/* 6. value tree of maps with non-native keys                                            */
/* ------------------------------------------------------------------------------------- */

fn tree_one<T>(out: &mut Outputs, n: &mut u64, label: &str, x: &T, with_from_value: bool)
where
    T: Serialize + DeserializeOwned + PartialEq + Debug,
{
    *n += 1;
    let class = "c20-value-tree-timestamp-key";
    let r = catch_unwind(AssertUnwindSafe(|| -> Vec<String> {
        let mut bad = Vec::new();
        let bytes = match serde_amqp::to_vec(x) {
            Ok(b) => b,
            Err(e) => return vec![format!("to_vec fails: {:?}", e)],
        };
        let direct = match serde_amqp::from_slice::<Value>(&bytes) {
            Ok(v) => v,
            Err(e) => return vec![format!("the encoding {} does not decode as a Value: {:?}", show(&bytes), e)],
        };
        let tree = match serde_amqp::to_value(x) {
            Ok(v) => v,
            Err(e) => return vec![format!("to_value fails ({:?}); to_vec gives {}", e, show(&bytes))],
        };
        if tree != direct {
            bad.push(format!("to_value gives {:?} but decoding the encoding {} gives {:?}", tree, show(&bytes), direct));
        }
        match serde_amqp::to_vec(&tree) {
            Ok(b) if b == bytes => {}
            Ok(b) => bad.push(format!("to_vec(to_value(x)) = {} but to_vec(x) = {}", show(&b), show(&bytes))),
            Err(e) => bad.push(format!("to_vec(to_value(x)) fails ({:?}); to_vec(x) = {}", e, show(&bytes))),
        }
        if with_from_value {
            match serde_amqp::from_value::<T>(tree.clone()) {
                Ok(y) if y == *x => {}
                Ok(y) => bad.push(format!("from_value(to_value(x)) = {:?} differs from x = {:?} (encoding {})", y, x, show(&bytes))),
                Err(e) => bad.push(format!("from_value(to_value(x)) fails ({:?}) for x = {:?} (encoding {})", e, x, show(&bytes))),
            }
            match serde_amqp::from_slice::<T>(&bytes) {
                Ok(y) if y == *x => {}
                other => bad.push(format!("from_slice(to_vec(x)) = {:?} for x = {:?} (encoding {})", other, x, show(&bytes))),
            }
        }
        bad
    }));
    match r {
        Ok(bad) => {
            for w in bad {
                out.violation(class, &format!("{}: {}: {}", class, label, w), &format!("sweep tree {}", label));
            }
        }
        Err(_) => out.violation(class, &format!("{}: {}: panic for {:?}", class, label, x), &format!("sweep tree {}", label)),
    }
}

/// `from_value::<Value>(v)` is not the identity on the unchanged tree (a genuine defect of the
/// value deserializer, independent of maps): the non-native scalars lose their type
/// (Timestamp -> Long, Symbol -> String, Uuid / Decimal -> Binary) and lists / arrays are
/// refused.  It is reported under its own class with minimal witnesses, and the `from_value`
/// leg of `tree_one` is skipped for the targets that are or contain a `Value`.
fn sweep_from_value_into_value(out: &mut Outputs, n: &mut u64) {
    let class = "c20-value-tree-from-value-into-value";
    let ts = Value::Timestamp(Timestamp::from_milliseconds(5));
    let mut m = OrderedMap::new();
    m.insert(ts.clone(), Value::Symbol(Symbol::from("s")));
    let witnesses = vec![
        ts.clone(),
        Value::Symbol(Symbol::from("s")),
        Value::Uuid(Uuid::from([1u8; 16])),
        Value::Decimal32(Dec32::from([1, 2, 3, 4])),
        Value::List(vec![Value::Uint(1)]),
        Value::Array(Array(vec![Value::Uint(1)])),
        Value::Map(m),
    ];
    for v in witnesses {
        *n += 1;
        let r = catch_unwind(AssertUnwindSafe(|| serde_amqp::from_value::<Value>(v.clone())));
        let enc = serde_amqp::to_vec(&v).map(|b| hex(&b)).unwrap_or_default();
        match r {
            Ok(Ok(w)) if w == v => {}
            Ok(other) => out.violation(
                class,
                &format!("{}: from_value::<Value>({:?}) = {:?} (the value encodes as {})", class, v, other, enc),
                &format!("sweep tree from_value {}", enc),
            ),
            Err(_) => out.violation(class, &format!("{}: from_value::<Value>({:?}) panics (the value encodes as {})", class, v, enc), &format!("sweep tree from_value {}", enc)),
        }
    }
}

fn sweep_tree(out: &mut Outputs) {
    let mut n = 0u64;
    sweep_from_value_into_value(out, &mut n);
    let stamps: [i64; 7] = [0, 1, -1, 1_700_000_000_000, i64::MAX, i64::MIN, 255];
    let ts = |i: usize| Timestamp::from_milliseconds(stamps[i % stamps.len()]);
    let uuid = |i: u8| Uuid::from([i; 16]);
    for count in [0usize, 1, 2, 7] {
        // keyed by timestamp
        let mut a: BTreeMap<Timestamp, i64> = BTreeMap::new();
        let mut b: BTreeMap<Timestamp, String> = BTreeMap::new();
        let mut c: BTreeMap<Timestamp, ByteBuf> = BTreeMap::new();
        let mut d: BTreeMap<Timestamp, Timestamp> = BTreeMap::new();
        let mut oa: OrderedMap<Timestamp, i64> = OrderedMap::new();
        let mut ob: OrderedMap<Timestamp, String> = OrderedMap::new();
        let mut oc: OrderedMap<Timestamp, ByteBuf> = OrderedMap::new();
        let mut od: OrderedMap<Timestamp, Timestamp> = OrderedMap::new();
        let mut oe: OrderedMap<Timestamp, Option<u32>> = OrderedMap::new();
        let mut vm: OrderedMap<Value, Value> = OrderedMap::new();
        // other non-native keys
        let mut s1: BTreeMap<Symbol, i64> = BTreeMap::new();
        let mut s2: OrderedMap<Symbol, Timestamp> = OrderedMap::new();
        let mut u1: BTreeMap<Uuid, String> = BTreeMap::new();
        let mut u2: OrderedMap<Uuid, Timestamp> = OrderedMap::new();
        let mut d32: BTreeMap<Dec32, i64> = BTreeMap::new();
        let mut d64: OrderedMap<Dec64, ByteBuf> = OrderedMap::new();
        let mut d128: BTreeMap<Dec128, Timestamp> = BTreeMap::new();
        let mut ar: BTreeMap<Array<i32>, i64> = BTreeMap::new();
        let mut ar2: OrderedMap<Array<Symbol>, String> = OrderedMap::new();
        let mut ar3: OrderedMap<Array<Timestamp>, Timestamp> = OrderedMap::new();
        let mut vk: OrderedMap<Value, Value> = OrderedMap::new();
        for i in 0..count {
            let long = [0i64, -1, 127, 128, i64::MIN, 1 << 40, -129][i % 7];
            let text = ["", "a", "\u{e9}\u{20ac}", "timestamp", "x", "yy", "zzz"][i % 7].to_string();
            let bin = ByteBuf::from(pattern(i * 3));
            a.insert(ts(i), long);
            b.insert(ts(i), text.clone());
            c.insert(ts(i), bin.clone());
            d.insert(ts(i), ts(i + 1));
            oa.insert(ts(i), long);
            ob.insert(ts(i), text.clone());
            oc.insert(ts(i), bin.clone());
            od.insert(ts(i), ts(i + 1));
            oe.insert(ts(i), if i % 2 == 0 { Some(i as u32) } else { None });
            let val = match i % 4 {
                0 => Value::Long(long),
                1 => Value::String(text.clone()),
                2 => Value::Binary(bin.clone()),
                _ => Value::Timestamp(ts(i + 1)),
            };
            vm.insert(Value::Timestamp(ts(i)), val.clone());
            s1.insert(Symbol(format!("sym-{}", i)), long);
            s2.insert(Symbol(format!("sym-{}", i)), ts(i));
            u1.insert(uuid(i as u8), text.clone());
            u2.insert(uuid(i as u8), ts(i));
            d32.insert(Dec32::from([i as u8, 1, 2, 3]), long);
            d64.insert(Dec64::from([i as u8, 1, 2, 3, 4, 5, 6, 7]), bin.clone());
            d128.insert(Dec128::from([i as u8; 16]), ts(i));
            ar.insert(Array(vec![i as i32, -1, 300]), long);
            ar2.insert(Array(vec![Symbol(format!("s{}", i)), Symbol("t".into())]), text.clone());
            ar3.insert(Array(vec![ts(i), ts(i + 2)]), ts(i));
            let key = match i % 6 {
                0 => Value::Symbol(Symbol(format!("k{}", i))),
                1 => Value::Uuid(uuid(i as u8)),
                2 => Value::Decimal32(Dec32::from([i as u8, 0, 0, 1])),
                3 => Value::Array(Array(vec![Value::Timestamp(ts(i)), Value::Timestamp(ts(i + 1))])),
                4 => Value::Decimal128(Dec128::from([i as u8; 16])),
                _ => Value::Decimal64(Dec64::from([i as u8; 8])),
            };
            vk.insert(key, val);
        }
        let l = |s: &str| format!("{} with {} entries", s, count);
        tree_one(out, &mut n, &l("BTreeMap<Timestamp, i64>"), &a, true);
        tree_one(out, &mut n, &l("BTreeMap<Timestamp, String>"), &b, true);
        tree_one(out, &mut n, &l("BTreeMap<Timestamp, ByteBuf>"), &c, true);
        tree_one(out, &mut n, &l("BTreeMap<Timestamp, Timestamp>"), &d, true);
        tree_one(out, &mut n, &l("OrderedMap<Timestamp, i64>"), &oa, true);
        tree_one(out, &mut n, &l("OrderedMap<Timestamp, String>"), &ob, true);
        tree_one(out, &mut n, &l("OrderedMap<Timestamp, ByteBuf>"), &oc, true);
        tree_one(out, &mut n, &l("OrderedMap<Timestamp, Timestamp>"), &od, true);
        tree_one(out, &mut n, &l("OrderedMap<Timestamp, Option<u32>>"), &oe, true);
        tree_one(out, &mut n, &l("Value::Map keyed by Timestamp"), &Value::Map(vm.clone()), false);
        tree_one(out, &mut n, &l("OrderedMap<Value, Value> keyed by Timestamp"), &vm, false);
        tree_one(out, &mut n, &l("BTreeMap<Symbol, i64>"), &s1, true);
        tree_one(out, &mut n, &l("OrderedMap<Symbol, Timestamp>"), &s2, true);
        tree_one(out, &mut n, &l("BTreeMap<Uuid, String>"), &u1, true);
        tree_one(out, &mut n, &l("OrderedMap<Uuid, Timestamp>"), &u2, true);
        tree_one(out, &mut n, &l("BTreeMap<Dec32, i64>"), &d32, true);
        tree_one(out, &mut n, &l("OrderedMap<Dec64, ByteBuf>"), &d64, true);
        tree_one(out, &mut n, &l("BTreeMap<Dec128, Timestamp>"), &d128, true);
        tree_one(out, &mut n, &l("BTreeMap<Array<i32>, i64>"), &ar, true);
        tree_one(out, &mut n, &l("OrderedMap<Array<Symbol>, String>"), &ar2, true);
        tree_one(out, &mut n, &l("OrderedMap<Array<Timestamp>, Timestamp>"), &ar3, true);
        tree_one(out, &mut n, &l("Value::Map keyed by Symbol/Uuid/Decimal/Array"), &Value::Map(vk.clone()), false);
        // nested: the map as a list element and as a map value
        tree_one(out, &mut n, &l("Vec<BTreeMap<Timestamp, i64>>"), &vec![a.clone(), a.clone()], true);
        let mut outer: BTreeMap<String, OrderedMap<Timestamp, String>> = BTreeMap::new();
        outer.insert("m".into(), ob.clone());
        tree_one(out, &mut n, &l("BTreeMap<String, OrderedMap<Timestamp, String>>"), &outer, true);
        // as the body of a described value: from_value of described types is a known finding, skipped
        let dv = Described { descriptor: serde_amqp::descriptor::Descriptor::Code(0x77), value: Value::Map(vm.clone()) };
        tree_one(out, &mut n, &l("Described<Value::Map keyed by Timestamp>"), &dv, false);
    }
    // maps with a null key (an ordinary map may have one; only map-encoded composites end at a null key)
    {
        let mut on: BTreeMap<Option<u32>, i64> = BTreeMap::new();
        on.insert(None, 7);
        on.insert(Some(3), 8);
        tree_one(out, &mut n, "BTreeMap<Option<u32>, i64> with a None key", &on, true);
        let mut un: BTreeMap<(), String> = BTreeMap::new();
        un.insert((), "x".into());
        tree_one(out, &mut n, "BTreeMap<(), String>", &un, true);
        let mut om: OrderedMap<Option<Symbol>, Option<u32>> = OrderedMap::new();
        om.insert(Some(Symbol("a".into())), Some(1));
        om.insert(None, Some(2));
        om.insert(Some(Symbol("b".into())), None);
        tree_one(out, &mut n, "OrderedMap<Option<Symbol>, Option<u32>> with a None key in the middle", &om, true);
    }
    out.add("sweep_tree", n);
}

/// the AMQP frame decoder on arbitrary frame headers: every data offset, both frame types, bodies that are empty,
/// too short, or a valid performative (C04: a value or an error, never a panic)
fn sweep_frame_decoder(out: &mut Outputs) {
    use bytes::BytesMut;
    use tokio_util::codec::Decoder;
    let open_body: Vec<u8> = vec![0x00, 0x53, 0x10, 0xc0, 0x04, 0x01, 0xa1, 0x01, 0x63];
    let tails: Vec<Vec<u8>> = vec![vec![], vec![0x00], vec![0x00, 0x53], open_body.clone(), [open_body.clone(), vec![0xff; 9]].concat(), vec![0xff; 40]];
    let mut n = 0u64;
    for doff in 0u16..=255 {
        for ftype in [0u8, 1, 2] {
            for tail in &tails {
                for channel in [0u16, 7] {
                    let mut frame = vec![doff as u8, ftype];
                    frame.extend(channel.to_be_bytes());
                    frame.extend_from_slice(tail);
                    n += 1;
                    let f2 = frame.clone();
                    let r = catch_unwind(AssertUnwindSafe(move || {
                        let mut b = BytesMut::from(&f2[..]);
                        let mut d = fe2o3_amqp::frames::amqp::FrameDecoder {};
                        d.decode(&mut b).map(|o| o.is_some())
                    }));
                    if r.is_err() {
                        out.violation(
                            "c04-panic-frame-decoder",
                            &format!("c04-panic-frame-decoder: FrameDecoder::decode panics on the frame (after the size field) {}", show(&frame)),
                            &caseline("framedec", &frame),
                        );
                    }
                }
            }
        }
    }
    // headers shorter than four octets
    for l in 0..4usize {
        n += 1;
        let frame = vec![2u8; l];
        let f2 = frame.clone();
        let r = catch_unwind(AssertUnwindSafe(move || {
            let mut b = BytesMut::from(&f2[..]);
            let mut d = fe2o3_amqp::frames::amqp::FrameDecoder {};
            d.decode(&mut b).map(|o| o.is_some())
        }));
        if r.is_err() {
            out.violation("c04-panic-frame-decoder", &format!("c04-panic-frame-decoder: FrameDecoder::decode panics on {}", show(&frame)), &caseline("framedec", &frame));
        }
    }
    out.add("sweep_frame_decoder", n);
}

/* ------------------------------------------------------------------------------------- */

/// both readers on inputs that promise more than they hold, under a real-time guard: a decoder that does not come back
/// is reported with the input, and the sweeps below (which call the decoders unguarded) are skipped
fn probe_readers(out: &mut Outputs) -> bool {
    let inputs: Vec<Vec<u8>> = vec![
        vec![0xa1, 0x05, 0x61, 0x62],
        vec![0xa0, 0x10, 0x01],
        vec![0xb1, 0x00, 0x00, 0x01, 0x00, 0x61],
        vec![0xc0, 0x08, 0x02, 0x40],
        vec![0xd0, 0x00, 0x00, 0x00, 0x10, 0x00, 0x00, 0x00, 0x02, 0x40],
        vec![0xe0, 0x08, 0x02, 0x50, 0x01],
        vec![0x00, 0x53, 0x10, 0xc0, 0x0a, 0x02, 0xa1, 0x05, 0x61],
        vec![0x00, 0xa3, 0x0e, 0x61, 0x6d, 0x71, 0x70],
        vec![0x80, 0x00, 0x00],
        vec![0xf0, 0xff, 0xff, 0xff, 0xff, 0x00, 0x00, 0x00, 0x00],
    ];
    for b in inputs {
        let (b1, b2) = (b.clone(), b.clone());
        let t0 = std::time::Instant::now();
        let slice_ok = crate::out::guarded(10, move || {
            let _ = catch_unwind(AssertUnwindSafe(|| serde_amqp::from_slice::<Value>(&b1).is_ok()));
        })
        .is_some();
        let reader_ok = slice_ok
            && crate::out::guarded(10, move || {
                let _ = catch_unwind(AssertUnwindSafe(|| serde_amqp::from_reader::<Value>(&b2[..]).is_ok()));
                let _ = catch_unwind(AssertUnwindSafe(|| serde_amqp::from_reader::<Performative>(&b2[..]).is_ok()));
            })
            .is_some();
        let slow = t0.elapsed() > std::time::Duration::from_secs(4);
        if !slice_ok || !reader_ok || slow {
            let which = if !slice_ok { "from_slice::<Value>" } else if !reader_ok { "from_reader (Value / Performative)" } else { "from_slice / from_reader" };
            out.violation(
                "c04-spin",
                &format!("c04-spin: {} {} on the {} bytes {} (a loop that consumes nothing, or work out of proportion to the input)", which, if slow && slice_ok && reader_ok { "takes seconds" } else { "had not returned after 10 s" }, b.len(), hex(&b)),
                &caseline("probe", &b),
            );
            if !slice_ok || !reader_ok {
                return false;
            }
        }
    }
    true
}

pub fn sweeps(out: &mut Outputs, thorough: bool) {
    if !probe_readers(out) {
        out.count("sweeps_skipped_decoder_does_not_return");
        return;
    }
    let boundary = sweep_boundary(out, thorough);
    let encs = fixed_encodings();
    out.add("sweep_fixed_encodings", encs.len() as u64);
    sweep_truncated(out, &encs, thorough);
    sweep_alloc(out);
    sweep_array_count(out);
    sweep_reader(out, &encs, &boundary);
    sweep_tree(out);
    sweep_frame_decoder(out);
}
